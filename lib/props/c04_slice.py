"""C04 — slicer for the loop body of muggle_ref_cnt_retain / muggle_ref_cnt_release (second tie, DESIGN.md 4.4).

The two functions are not leaves: they read the counter, loop around a compare-exchange and (after a
refactoring) share a helper.  This module turns the clang JSON AST of the NAMED function of the current C text
into a loop-free integer function over the value read from *ref, which lib/leaftrans.py translates:

    gen_<name> (f_cas_des f_cas_exp f_cas_n f_cur f_stuck : Z) : (result, f_cas_des, f_cas_exp, f_cas_n, f_stuck)

meaning "one pass with *ref == f_cur and the compare-exchange succeeding":  the returned value; the desired and
the expected value handed to the compare-exchange; how many compare-exchanges were executed; whether a second
pass would have been needed although the compare-exchange succeeded.  Nothing depends on the shape of the text:

  * every read of the counter (`*ref`, `__atomic_load_n(ref, ..)`), through the parameter or a pointer copy of
    it, becomes the field `cur` of the synthetic state;
  * a compare-exchange on the counter, wherever it occurs in an expression that is evaluated unconditionally,
    records `cas_exp = <the variable whose address is passed>`, `cas_des = <desired>`, `cas_n += 1` and has
    the value 1 (success);
  * `do` / `while` / `for` loops are unrolled twice in continuation-passing style (break / continue / early
    return supported); reaching a third pass sets `stuck` (the proof obligation says it is never set);
  * calls of functions defined in the same file are inlined (arguments evaluated once into fresh locals,
    pointer arguments must be the counter, `return` continues the caller);
  * the C types that carry the counter's value (locals, parameters, pointee, return types) are collected and
    emitted as `gen_<name>_types` so that a narrowing is an obligation failure rather than a silent cast.

Anything else raises LeafError (reported as a broken obligation, never silently skipped)."""
import copy
import re
import leaftrans as L

ST = "st"
UNROLL = 2
STUCK_RET = -99


def lit(v):
    return {"kind": "IntegerLiteral", "value": str(v), "type": {"qualType": "int"}}


def st_ref():
    return {"kind": "ImplicitCastExpr", "castKind": "LValueToRValue", "type": {"qualType": "struct refst *"},
            "inner": [{"kind": "DeclRefExpr", "referencedDecl": {"name": ST, "kind": "ParmVarDecl"},
                       "type": {"qualType": "struct refst *"}}]}


def field(name):
    return {"kind": "MemberExpr", "name": name, "type": {"qualType": "int"}, "inner": [st_ref()]}


def rfield(name):
    return {"kind": "ImplicitCastExpr", "castKind": "LValueToRValue", "type": {"qualType": "int"}, "inner": [field(name)]}


def assign(lhs, rhs):
    return {"kind": "BinaryOperator", "opcode": "=", "type": {"qualType": "int"}, "inner": [lhs, rhs]}


def lvar(nm, ty="int"):
    return {"kind": "DeclRefExpr", "referencedDecl": {"name": nm, "kind": "VarDecl"}, "type": {"qualType": ty}}


def rvar(nm, ty="int"):
    return {"kind": "ImplicitCastExpr", "castKind": "LValueToRValue", "type": {"qualType": ty}, "inner": [lvar(nm, ty)]}


def decl(nm, ty, init):
    return {"kind": "DeclStmt", "inner": [{"kind": "VarDecl", "name": nm, "type": {"qualType": ty},
                                           "inner": [init] if init is not None else []}]}


def strip(n):
    while n.get("kind") in ("ParenExpr", "ImplicitCastExpr", "CStyleCastExpr") and \
            (n.get("kind") == "ParenExpr" or n.get("castKind") in ("NoOp", "LValueToRValue", "BitCast", "FunctionToPointerDecay")):
        n = n["inner"][-1]
    return n


def is_ptr_type(n):
    return n.get("type", {}).get("qualType", "").rstrip().endswith("*")


class Ctx:
    def __init__(self, refs, ren, brk=None, cont=None, ret=None):
        self.refs, self.ren, self.brk, self.cont, self.ret = refs, ren, brk, cont, ret

    def sub(self, **kw):
        c = Ctx(set(self.refs), dict(self.ren), self.brk, self.cont, self.ret)
        for k, v in kw.items():
            setattr(c, k, v)
        return c


class Slicer:
    def __init__(self, src, cflags, ext_prefix=None, enums=None):
        self.src, self.cflags = src, cflags
        self.ext_prefix = ext_prefix    # calls of undefined functions with this prefix: value = field rc, n += 1
        self.enums = enums or {}        # enum constant name -> value (probed by the caller)
        self.cache = {}
        self.uid = 0
        self.depth = 0
        self.types = []         # (signed, bits) of everything that carries the counter value

    def fn(self, name):
        if name not in self.cache:
            try:
                self.cache[name] = L.load_function(self.src, name, self.cflags)
            except L.LeafError:
                self.cache[name] = None
        return self.cache[name]

    def fresh(self, base):
        self.uid += 1
        return "%s__%d" % (re.sub(r"\W", "_", base), self.uid)

    def note_type(self, node, what):
        t = L.ctype(node)
        if t is None:
            raise L.LeafError("%s has a non-integer type %r" % (what, node.get("type", {}).get("qualType")))
        if t not in self.types:
            self.types.append(t)

    def note_pointee(self, node):
        q = node.get("type", {})
        for key in ("desugaredQualType", "qualType"):
            s = q.get(key, "")
            if s.rstrip().endswith("*"):
                base = s.rstrip()[:-1].replace("const ", "").replace("volatile ", "").strip()
                if base in L.INT_TYPES:
                    if L.INT_TYPES[base] not in self.types:
                        self.types.append(L.INT_TYPES[base])
                    return
        # typedef'd pointee: the dereference node carries the desugared type, noted there

    # ------------------------------------------------------------------
    def is_ref(self, n, ctx):
        n = strip(n)
        return n.get("kind") == "DeclRefExpr" and n["referencedDecl"]["name"] in ctx.refs

    def special(self, n, ctx):
        """a node that needs statement-level treatment: compare-exchange on the counter or a same-file call"""
        k = n.get("kind")
        if k == "AtomicExpr" and len(n.get("inner", [])) == 6:
            return "cas"
        if k == "CallExpr":
            return "call"
        return None

    def find_special(self, n, ctx, guarded=False):
        """leftmost-innermost special node in evaluation order -> (path, kind) ; path = list of child indices"""
        k = n.get("kind")
        kids = n.get("inner", [])
        for i, c in enumerate(kids):
            g = guarded
            if k == "BinaryOperator" and n.get("opcode") in ("&&", "||") and i == 1:
                g = True
            if k == "ConditionalOperator" and i >= 1:
                g = True
            r = self.find_special(c, ctx, g)
            if r:
                return ([i] + r[0], r[1], r[2])
        sp = self.special(n, ctx)
        if sp:
            return ([], sp, guarded)
        return None

    def rewrite_reads(self, n, ctx):
        """reads of the counter -> st->cur ; renamed locals ; returns a new tree"""
        k = n.get("kind")
        if k == "UnaryOperator" and n.get("opcode") == "*" and self.is_ref(n["inner"][0], ctx):
            self.note_type(n, "the counter")
            return field("cur")
        if k == "AtomicExpr" and len(n.get("inner", [])) == 2 and self.is_ref(n["inner"][0], ctx):
            self.note_type(n, "the counter")
            return rfield("cur")
        if k == "AtomicExpr":
            raise L.LeafError("unsupported atomic operation on the counter (%d operands)" % len(n.get("inner", [])))
        if k in ("ImplicitCastExpr", "CStyleCastExpr") and n.get("castKind") == "IntegralCast":
            # the translator treats a conversion to a signed type as value preserving: record the target type so
            # that a narrowing one is an obligation failure (gen_*_types / ref_types_ok), not a silent identity
            t = L.ctype(n)
            if t is not None and t[1] > 1 and t not in self.types:
                self.types.append(t)
        if k == "DeclRefExpr" and n["referencedDecl"].get("kind") == "EnumConstantDecl":
            nm = n["referencedDecl"]["name"]
            if nm not in self.enums:
                raise L.LeafError("value of enum constant %s is not known" % nm)
            return lit(self.enums[nm])
        if k == "DeclRefExpr":
            nm = n["referencedDecl"]["name"]
            if nm in ctx.refs:
                raise L.LeafError("the counter pointer escapes (used other than by *p / compare-exchange / call)")
            if nm in ctx.ren:
                m = copy.copy(n)
                m["referencedDecl"] = dict(n["referencedDecl"], name=ctx.ren[nm])
                return m
            return n
        if "inner" in n:
            m = copy.copy(n)
            m["inner"] = [self.rewrite_reads(c, ctx) for c in n["inner"]]
            return m
        return n

    def at(self, n, path):
        for i in path:
            n = n["inner"][i]
        return n

    def replace(self, n, path, new):
        if not path:
            return new
        m = copy.copy(n)
        m["inner"] = list(n["inner"])
        m["inner"][path[0]] = self.replace(n["inner"][path[0]], path[1:], new)
        return m

    # expression in CPS: k(e') -> statements
    def ex(self, e, ctx, k):
        r = self.find_special(e, ctx)
        if not r:
            return k(self.rewrite_reads(e, ctx))
        path, kind, guarded = r
        node = self.at(e, path)
        if guarded:
            raise L.LeafError("a compare-exchange / call is evaluated conditionally (&&, ||, ?:)")
        if kind == "cas":
            ptr, _mo, exp, _mof, des, _weak = node["inner"]
            if not self.is_ref(ptr, ctx):
                raise L.LeafError("compare-exchange on something that is not the counter")
            ex0 = strip(exp)
            if ex0.get("kind") != "UnaryOperator" or ex0.get("opcode") != "&" or \
                    strip(ex0["inner"][0]).get("kind") != "DeclRefExpr":
                raise L.LeafError("the expected operand of the compare-exchange is not the address of a local")
            var = strip(ex0["inner"][0])
            self.note_type(var, "the expected value")
            rv = {"kind": "ImplicitCastExpr", "castKind": "LValueToRValue", "type": var["type"], "inner": [var]}
            pre = [assign(field("cas_exp"), self.rewrite_reads(rv, ctx)),
                   assign(field("cas_des"), self.rewrite_reads(des, ctx)),
                   assign(field("cas_n"), {"kind": "BinaryOperator", "opcode": "+", "type": {"qualType": "int"},
                                           "inner": [rfield("cas_n"), lit(1)]})]
            one = {"kind": "ImplicitCastExpr", "castKind": "IntegralToBoolean", "type": {"qualType": "_Bool"}, "inner": [lit(1)]} \
                if node.get("type", {}).get("qualType") in ("_Bool", "bool") else lit(1)
            return pre + self.ex(self.replace(e, path, one), ctx, k)
        # same-file call
        callee = strip(node["inner"][0])
        if callee.get("kind") != "DeclRefExpr":
            raise L.LeafError("indirect call")
        name = callee["referencedDecl"]["name"]
        f = self.fn(name)
        if f is None and self.ext_prefix and name.startswith(self.ext_prefix):
            # a call into the system library: its arguments are not looked at, its value is the input `rc`
            pre = [assign(field("n"), {"kind": "BinaryOperator", "opcode": "+", "type": {"qualType": "int"},
                                       "inner": [rfield("n"), lit(1)]})]
            return pre + self.ex(self.replace(e, path, rfield("rc")), ctx, k)
        if f is None:
            raise L.LeafError("call of %s, which is not defined in this file" % name)
        if self.depth > 6:
            raise L.LeafError("call nesting too deep at " + name)
        parms = [c for c in f.get("inner", []) if c.get("kind") == "ParmVarDecl"]
        args = node["inner"][1:]
        if len(parms) != len(args):
            raise L.LeafError("argument count mismatch calling " + name)
        rt = f["type"]["qualType"].split("(")[0].strip()
        cctx = Ctx(set(), {})
        pre = []
        # arguments are evaluated (they contain no special node: those were taken first) into fresh locals
        for p_, a in zip(parms, args):
            if is_ptr_type(p_):
                if not self.is_ref(a, ctx):
                    raise L.LeafError("pointer argument of %s is not the counter" % name)
                cctx.refs.add(p_["name"])
                self.note_pointee(p_)
            else:
                self.note_type(p_, "parameter %s of %s" % (p_["name"], name))
                nm = self.fresh(p_["name"])
                pre.append(decl(nm, p_["type"].get("desugaredQualType") or p_["type"]["qualType"], self.rewrite_reads(a, ctx)))
                cctx.ren[p_["name"]] = nm
        res = None
        if rt != "void":
            res = self.fresh("ret_" + name)
            fake = {"type": {"qualType": rt, "desugaredQualType": f["type"].get("desugaredQualType", rt).split("(")[0].strip()}}
            if L.ctype(fake) is None:
                raise L.LeafError("helper %s returns a non-integer" % name)
            self.note_type(fake, "return type of " + name)
            pre.append(decl(res, rt, lit(0)))

        def after(r):
            out = []
            if res is not None and r is not None:
                out.append(assign(lvar(res, rt), r))
            sub = rvar(res, rt) if res is not None else lit(0)
            return out + self.ex(self.replace(e, path, sub), ctx, k)
        cctx.ret = after
        body = [c for c in f["inner"] if c.get("kind") == "CompoundStmt"][0]
        self.depth += 1
        try:
            return pre + self.seq([body], cctx, lambda: after(None))
        finally:
            self.depth -= 1

    # statements in CPS: kont() -> statements that follow
    def seq(self, ss, ctx, kont):
        if not ss:
            return kont()
        s, rest = ss[0], ss[1:]
        k = s.get("kind")

        def nxt(c=ctx):
            return self.seq(rest, c, kont)
        if k is None or k == "NullStmt":
            return nxt()
        if k == "CompoundStmt":
            # a block: its declarations are renamed apart, so no scope to restore
            return self.seq(list(s.get("inner", [])) + rest, ctx, kont)
        if k == "DeclStmt":
            ds = [d for d in s.get("inner", []) if d.get("kind") == "VarDecl"]
            if len(ds) != len(s.get("inner", [])):
                raise L.LeafError("unsupported declaration")

            def one(i, c):
                if i == len(ds):
                    return self.seq(rest, c, kont)
                d = ds[i]
                init = d.get("inner", [])
                init = init[-1] if init else None
                if is_ptr_type(d):
                    if init is None or not self.is_ref(init, c):
                        raise L.LeafError("pointer local %s is not a copy of the counter pointer" % d["name"])
                    c2 = c.sub()
                    c2.refs.add(d["name"])
                    return one(i + 1, c2)
                if self.ext_prefix and L.ctype(d) is None and init is None:
                    # an opaque object handed to the system library by address (e.g. pthread_mutexattr_t): the calls'
                    # arguments are not looked at; any other use of it is an unknown variable for the translator
                    return one(i + 1, c)
                self.note_type(d, "local " + d["name"])
                nm = self.fresh(d["name"])
                ty = d["type"].get("desugaredQualType") or d["type"]["qualType"]
                c2 = c.sub()

                def fin(e2):
                    c2.ren[d["name"]] = nm
                    return [decl(nm, ty, e2)] + one(i + 1, c2)
                if init is None:
                    return fin(None)
                return self.ex(init, c, fin)
            return one(0, ctx)
        if k == "ReturnStmt":
            inner = s.get("inner", [])
            if not inner:
                return ctx.ret(None)
            return self.ex(inner[0], ctx, lambda e2: ctx.ret(e2))
        if k == "IfStmt":
            inner = s["inner"]
            then = [inner[1]]
            els = [inner[2]] if len(inner) > 2 else []

            def fin(c2):
                return [{"kind": "IfStmt", "inner": [
                    c2, {"kind": "CompoundStmt", "inner": self.seq(then + rest, ctx, kont)},
                    {"kind": "CompoundStmt", "inner": self.seq(els + rest, ctx, kont)}]}]
            return self.ex(inner[0], ctx, fin)
        if k == "BreakStmt":
            if ctx.brk is None:
                raise L.LeafError("break outside a loop")
            return ctx.brk()
        if k == "ContinueStmt":
            if ctx.cont is None:
                raise L.LeafError("continue outside a loop")
            return ctx.cont()
        if k in ("DoStmt", "WhileStmt", "ForStmt"):
            return self.loop(s, rest, ctx, kont)
        if k in ("BinaryOperator", "CompoundAssignOperator", "UnaryOperator", "CallExpr", "AtomicExpr",
                 "ParenExpr", "ImplicitCastExpr", "CStyleCastExpr"):
            s0 = strip(s) if k in ("ParenExpr", "ImplicitCastExpr", "CStyleCastExpr") else s
            k0 = s0.get("kind")
            if k0 in ("BinaryOperator", "CompoundAssignOperator") and s0.get("opcode", "").endswith("=") and \
                    s0.get("opcode") not in ("==", "!=", "<=", ">="):
                lhs, rhs = s0["inner"]
                l0 = strip(lhs)
                if l0.get("kind") == "UnaryOperator" and l0.get("opcode") == "*" and self.is_ref(l0["inner"][0], ctx):
                    raise L.LeafError("plain store to the counter")

                def fin(r2):
                    m = copy.copy(s0)
                    m["inner"] = [self.rewrite_reads(lhs, ctx), r2]
                    return [m] + nxt()
                return self.ex(rhs, ctx, fin)
            if k0 == "UnaryOperator" and s0.get("opcode") in ("++", "--"):
                return [self.rewrite_reads(s0, ctx)] + nxt()
            # an expression evaluated for its effects (a call, a compare-exchange whose result is dropped)
            return self.ex(s0, ctx, lambda e2: nxt())
        raise L.LeafError("unsupported statement kind " + str(k))

    def stuck(self):
        return [assign(field("stuck"), lit(1)), {"kind": "ReturnStmt", "inner": [lit(STUCK_RET)]}]

    def loop(self, s, rest, ctx, kont):
        k = s["kind"]

        def after():
            return self.seq(rest, ctx, kont)
        if k == "ForStmt":
            init, _cv, cond, inc, body = (s["inner"] + [{}] * 5)[:5]
        elif k == "WhileStmt":
            init, inc = {}, {}
            cond, body = s["inner"][0], s["inner"][1]
        else:
            init, inc = {}, {}
            body, cond = s["inner"][0], s["inner"][1]
        if not cond or not cond.get("kind"):
            cond = lit(1)

        def test(fuel, c):
            """evaluate the condition, then run a pass or leave"""
            def fin(c2):
                return [{"kind": "IfStmt", "inner": [c2, {"kind": "CompoundStmt", "inner": run(fuel, c)},
                                                      {"kind": "CompoundStmt", "inner": self.seq(rest, c, kont)}]}]
            return self.ex(cond, c, fin)

        def step(fuel, c):
            ss = [inc] if inc and inc.get("kind") else []
            return self.seq(ss, c, lambda: test(fuel, c))

        def run(fuel, c):
            if fuel == 0:
                return self.stuck()
            lc = c.sub(brk=lambda: self.seq(rest, c, kont), cont=lambda: step(fuel - 1, c))
            return self.seq([body], lc, lambda: step(fuel - 1, c))
        if k == "DoStmt":
            return run(UNROLL, ctx)
        if init and init.get("kind"):
            # a declaration in the init clause stays visible in condition / increment / body
            return self._for_init(init, ctx, test)
        return test(UNROLL, ctx)

    def _for_init(self, init, ctx, test):
        # run the init statement, then the loop in the context it produced (declarations renamed apart)
        if init.get("kind") == "DeclStmt":
            ds = init.get("inner", [])
            c = ctx.sub()

            def one(i):
                if i == len(ds):
                    return test(UNROLL, c)
                d = ds[i]
                self.note_type(d, "local " + d["name"])
                nm = self.fresh(d["name"])
                ty = d["type"].get("desugaredQualType") or d["type"]["qualType"]
                ini = d.get("inner", [])
                ini = ini[-1] if ini else None

                def fin(e2):
                    c.ren[d["name"]] = nm
                    return [decl(nm, ty, e2)] + one(i + 1)
                return fin(None) if ini is None else self.ex(ini, c, fin)
            return one(0)
        return self.seq([init], ctx, lambda: test(UNROLL, ctx))

    # ------------------------------------------------------------------
    def slice(self, name):
        f = self.fn(name)
        if f is None:
            raise L.LeafError("function %s with a body not found" % name)
        ctx = Ctx(set(), {})
        for p_ in [c for c in f.get("inner", []) if c.get("kind") == "ParmVarDecl"]:
            if is_ptr_type(p_):
                ctx.refs.add(p_["name"])
                self.note_pointee(p_)
            else:
                raise L.LeafError("unexpected scalar parameter " + p_["name"])
        if len(ctx.refs) != 1:
            raise L.LeafError("expected exactly one pointer parameter")
        rt = f["type"]["qualType"].split("(")[0].strip()
        fake = {"type": {"qualType": rt}}
        self.note_type(fake, "return type of " + name)
        ctx.ret = lambda e: [{"kind": "ReturnStmt", "inner": [e if e is not None else lit(0)]}]
        body = [c for c in f["inner"] if c.get("kind") == "CompoundStmt"][0]
        stmts = self.seq([body], ctx, lambda: [{"kind": "ReturnStmt", "inner": [lit(0)]}])
        return {"kind": "FunctionDecl", "name": name, "type": {"qualType": "int (struct refst *)"},
                "inner": [{"kind": "ParmVarDecl", "name": ST, "type": {"qualType": "struct refst *"}},
                          {"kind": "CompoundStmt", "inner": stmts}]}


def enum_refs(n, acc):
    if n.get("kind") == "DeclRefExpr" and n.get("referencedDecl", {}).get("kind") == "EnumConstantDecl":
        acc.add(n["referencedDecl"]["name"])
    for c in n.get("inner", []):
        if isinstance(c, dict):
            enum_refs(c, acc)


def probe_constants(names, includes, cflags, workdir, tag):
    """values of integer constant expressions as gcc folds them (same reader as lib/atomic_tie.py)"""
    import atomic_tie as AT
    src = "".join('#include %s\n' % i for i in includes)
    src += "".join("long long PRC_%d(void) { return (long long)(%s); }\n" % (i, nm) for i, nm in enumerate(names))
    funs = AT.gimple(src, [f for f in cflags if not f.startswith("-std")] + ["-std=gnu11", "-O1", "-w"], workdir, tag)
    out = {}
    for i, nm in enumerate(names):
        b = AT.Body(funs.get("PRC_%d" % i, ""))
        if len(b.rets) == 1 and b.rets[0] is not None and re.match(r"-?\d+$", b.rets[0].strip()):
            out[nm] = int(b.rets[0])
    return out


MUTEX_FNS = [("muggle_mutex_init", "gen_mutex_init"), ("muggle_mutex_destroy", "gen_mutex_destroy"),
             ("muggle_mutex_lock", "gen_mutex_lock"), ("muggle_mutex_trylock", "gen_mutex_trylock"),
             ("muggle_mutex_unlock", "gen_mutex_unlock")]
MUTEX_CONSTS = ["MUGGLE_OK", "MUGGLE_ERR_SYS_CALL", "MUGGLE_ERR_ACQ_LOCK"]


def gen_mutex(repo, cflags, workdir):
    """result mapping of mutex.c (pthread branch): each function as a function of the value `rc` every pthread_*
    call returns:  gen_<f> (f_n f_rc : Z) = (result, number of pthread_* calls made)"""
    import os
    src = os.path.join(repo, "muggle/c/sync/mutex.c")
    out = []
    try:
        consts = probe_constants(MUTEX_CONSTS, ['"muggle/c/base/err.h"'], cflags, workdir, "errconst")
    except Exception as e:
        consts = {}
        out.append("(* constants could not be probed: %s *)" % str(e).replace("*)", "* )")[:300])
    for nm in MUTEX_CONSTS:
        out.append("Definition code_%s : Z := %s." % (nm, consts.get(nm, "(-999999) (* unknown *)")))
    out.append("")
    for name, g in MUTEX_FNS:
        try:
            sl0 = Slicer(src, cflags)
            f = sl0.fn(name)
            if f is None:
                raise L.LeafError("function %s with a body not found" % name)
            names = set()
            enum_refs(f, names)
            extra = sorted(n for n in names if n not in consts)
            enums = dict(consts)
            if extra:
                enums.update(probe_constants(extra, ['"muggle/c/sync/mutex.h"', '"muggle/c/base/err.h"', "<errno.h>"],
                                             cflags, workdir, "enum_" + name))
            sl = Slicer(src, cflags, ext_prefix="pthread_", enums=enums)
            fn = sl.slice(name)
            t = L.Tr(fn, None, cflags)
            body = [c for c in fn["inner"] if c.get("kind") == "CompoundStmt"][0]
            t.all_written = ["f_n"]
            t.cnt = 0
            code = t.stmts([body], {}, "Z")
            bad = set(t.written) - {"f_n"}
            used = set(k for k, _ in t.fields) - {"f_n", "f_rc"}
            if bad or used:
                raise L.LeafError("unexpected state %s" % sorted(bad | used))
            code = re.sub(r"@FIELD:(\w+)@", r"\1", code)
            out.append("Definition %s (f_n : Z) (f_rc : Z) :=\n  %s.\n" % (g, code))
        except L.LeafError as e:
            out.append("(* translator error for %s: %s *)\n" % (name, e))
        except Exception as e:
            out.append("(* translator failure for %s: %r *)\n" % (name, e))
    return "\n".join(out)


FIELDS = ["f_cas_des", "f_cas_exp", "f_cas_n", "f_cur", "f_stuck"]


def translate_ref(src, name, cflags, gname):
    """-> gallina text of gen function + its value types.  Fixed signature:
       gname (f_cas_des f_cas_exp f_cas_n f_cur f_stuck : Z) = (result, f_cas_des, f_cas_exp, f_cas_n, f_stuck)"""
    sl = Slicer(src, cflags)
    fn = sl.slice(name)
    t = L.Tr(fn, None, cflags)
    body = [c for c in fn["inner"] if c.get("kind") == "CompoundStmt"][0]
    t.all_written = ["f_cas_des", "f_cas_exp", "f_cas_n", "f_stuck"]
    t.cnt = 0
    code = t.stmts([body], {}, "Z")
    extra = set(t.written) - set(t.all_written)
    if extra:
        raise L.LeafError("unexpected written fields %s" % sorted(extra))
    code = re.sub(r"@FIELD:(\w+)@", r"\1", code)
    args = " ".join("(%s : Z)" % k for k in FIELDS)
    text = "Definition %s %s :=\n  %s.\n" % (gname, args, code)
    tys = "[" + "; ".join("(%s, %d)" % ("true" if sg else "false", b) for sg, b in sorted(set(sl.types))) + "]"
    text += "Definition %s_types : list (bool * Z) := %s.\n" % (gname, tys)
    return text


def gen_all(repo, cflags):
    import os
    out = []
    src = os.path.join(repo, "muggle/c/sync/ref_cnt.c")
    for name, g in (("muggle_ref_cnt_retain", "gen_ref_retain"), ("muggle_ref_cnt_release", "gen_ref_release")):
        try:
            out.append(translate_ref(src, name, cflags, g))
        except L.LeafError as e:
            out.append("(* translator error for %s: %s *)\n" % (name, e))
        except Exception as e:   # malformed AST etc.: a broken obligation, not a crash of the check
            out.append("(* translator failure for %s: %r *)\n" % (name, e))
    return "\n".join(out)


if __name__ == "__main__":
    import sys
    repo = sys.argv[1] if len(sys.argv) > 1 else "/repo"
    import os
    here = os.path.dirname(os.path.dirname(os.path.dirname(os.path.abspath(__file__))))
    fl = ["-std=gnu11", "-I" + repo, "-I" + os.path.join(here, "build", "gen"), "-DNDEBUG"]
    print(gen_all(repo, fl))
    print(gen_mutex(repo, fl, "/tmp/vb-c04-scratch/mx"))
