"""C09 — the ties built on lib/props/c09_slice.py: which segment of which public function is sliced, what its
inputs are called and what is read off the final state.  generate(repo, cflags) returns the text of the
generated Gallina definitions (one per tie); a tie that cannot be sliced yields a comment with the reason, so
that the obligation that mentions its definition breaks."""
import os
import re

import leaftrans as L
from props import c09_slice as S

LeafError = L.LeafError


def is_obj(v, name=None):
    return v is not None and v[0] == "p" and v[1] is not None and v[1][0] == "obj" and (name is None or v[1][1] == name)


def objname(v):
    return v[1][1] if is_obj(v) else None


def ztext(v, what):
    if v is None or v[0] != "z":
        raise LeafError("%s is not an integer" % what)
    if "?" in v[1] or "sizeof" in v[1] or "result_of" in v[1]:
        raise LeafError("%s depends on something that is not modelled (%s)" % (what, v[1]))
    return v[1]


class Spec:
    """defaults; a tie overrides the tables"""
    OBJS = []           # (type substring, [names for the 1st, 2nd ... lazily bound pointer of that type])
    INTS = {}           # lazily read integer (field / char cell) -> input text
    INTVARS = []        # inputs for the 1st, 2nd ... lazily bound integer variable
    FACTS = {}          # 'nn:obj' / 'eq:a|b' -> (atom, positive) | True | False
    FACT_RE = []        # (regex, result)
    NONNULL = ()
    CHARPTR = None      # name of the string a lazily bound char pointer walks
    POLICY = "cut"

    def __init__(self):
        self.lazy_ids = {}

    def assume_nonnull(self):
        return self.NONNULL

    def fact(self, key):
        if key in self.FACTS:
            return self.FACTS[key]
        for rx, r in self.FACT_RE:
            if re.match(rx, key):
                return r
        return None

    def int_input(self, key):
        return self.INTS.get(key)

    def role(self, ex, st, name, q, d, pos, where):
        kd = S.tkind_of(q, d)
        if kd == "int":
            n = st.counts.get("int", 0)
            st.counts["int"] = n + 1
            if pos is not None and ("intparam#%d" % pos) in self.INTS:
                return S.Zt(self.INTS["intparam#%d" % pos])
            if n < len(self.INTVARS):
                st.lazy["int#%d" % (n + 1)] = where
                return S.Zt(self.INTVARS[n])
            if ex.phase == "seek":
                return S.Zt("?var")
            raise LeafError("integer variable %s is read before it is assigned and is not an input of this tie" % name)
        if kd != "ptr":
            raise LeafError("unsupported variable %s of type %s" % (name, q))
        if self.CHARPTR and re.search(r"\bchar\s*\*", d):
            st.lazy["chr"] = where
            return ("p", ("chr", self.CHARPTR, 0))
        for sub, names in self.OBJS:
            if sub in q or sub in d:
                n = st.counts.get(sub, 0)
                st.counts[sub] = n + 1
                nm = names[n] if n < len(names) else "U%s%d" % (re.sub(r"\W", "", sub)[-4:], n)
                st.lazy[nm] = where
                return ("p", ("obj", nm))
        if pos is not None:
            return ("p", ("obj", "X%d" % pos))
        n = st.counts.get("ptr", 0)
        st.counts["ptr"] = n + 1
        return ("p", ("obj", "V%d" % n))

    def indirect(self, ex, st, obj, args):
        return None

    def external(self, ex, st, name):
        return None

    def loop_policy(self, ex, loopnode):
        return self.POLICY

    def var(self, st, role):
        w = st.lazy.get(role) or self.lazy_ids.get(role)
        if w is None:
            return None
        fi, did = w
        v = st.frames[fi].get(did) if fi < len(st.frames) else None
        if is_obj(v) and objname(v) in st.null:
            return S.NULL
        return v

    def classify(self, ex, kind, st, loopnode, value):
        raise LeafError("no classifier")


def writes_field(name):
    def pred(n):
        kd = n.get("kind")
        if kd in ("BinaryOperator", "CompoundAssignOperator") and n.get("opcode", "").endswith("=") and \
                n.get("opcode") not in ("==", "!=", "<=", ">="):
            t = S.strip_casts(n["inner"][0])
            return t.get("kind") == "MemberExpr" and t.get("name") == name
        if kd == "UnaryOperator" and n.get("opcode") in ("++", "--"):
            t = S.strip_casts(n["inner"][0])
            return t.get("kind") == "MemberExpr" and t.get("name") == name
        return False
    return pred


def calls_through(field):
    def pred(n):
        if n.get("kind") != "CallExpr":
            return False
        c = S.strip_casts(n["inner"][0])
        return c.get("kind") == "MemberExpr" and c.get("name") == field
    return pred


# --------------------------------------------------------------------------
# AVL tree

AVL_NODES = [("N", "b"), ("N.left", "lb"), ("N.right", "rb"), ("N.left.right", "lrb"), ("N.right.left", "rlb")]
AVL_ROT = {"N.left": 1, "N.left.right": 2, "N.right": 3, "N.right.left": 4}


class AvlSpec(Spec):
    OBJS = [("muggle_avl_tree_node", ["N"]), ("muggle_avl_tree_t", ["T"])]
    NONNULL = ("N", "T")
    INTS = dict(("%s.balance" % o, a) for o, a in AVL_NODES)
    FACTS = {"nn:N.parent": ("hp", True), "eq:N|N.parent.left": ("il", True), "eq:N|N.parent.right": ("il", False),
             "nn:N.left": ("hl", True), "nn:N.right": ("hr", True)}

    def indirect(self, ex, st, obj, args):
        # cmp(searched key, node->key): the sign convention of the model; the other argument order negates it
        if obj == "T.cmp" and len(args) == 2:
            if is_obj(args[1], "N.key") and not is_obj(args[0], "N.key"):
                return S.Zt("c")
            if is_obj(args[0], "N.key") and not is_obj(args[1], "N.key"):
                return S.Zt("(- c)")
        return None


class AvlStep(AvlSpec):
    """one iteration of the retracing loop of insert / remove, rebalance and the rotations included"""
    INTVARS = ["side"]
    ARGS = [("b", "Z"), ("side", "Z"), ("lb", "Z"), ("rb", "Z"), ("lrb", "Z"), ("rlb", "Z"), ("hp", "bool"), ("il", "bool")]

    def classify(self, ex, kind, st, loopnode, value):
        self.lazy_ids.update(st.lazy)
        self.loop_id = loopnode["id"] if loopnode is not None else getattr(self, "loop_id", None)
        bal = []
        for o, a in AVL_NODES:
            v = st.heap.get((o, "balance"))
            bal.append(a if v is None else ztext(v, o + "->balance"))
        par = st.heap.get(("N", "parent"))
        if par is None:
            rot = 0
        elif is_obj(par) and objname(par) in AVL_ROT:
            rot = AVL_ROT[objname(par)]
        else:
            raise LeafError("after the rotation the node hangs below an unexpected node")
        if kind == "ret":
            return bal + [str(rot), "0", "0"]
        if kind == "back":
            if not is_obj(self.var(st, "N"), "N.parent"):
                raise LeafError("retracing continues at a node that is not the parent")
            return bal + [str(rot), "1", ztext(self.var(st, "int#1"), "the side carried to the next iteration")]
        raise LeafError("the retracing iteration runs into another loop")


class AvlFindStep(AvlSpec):
    ARGS = [("c", "Z")]

    def classify(self, ex, kind, st, loopnode, value):
        if kind == "ret" and is_obj(value, "N"):
            return ["0"]
        if kind == "back":
            nm = objname(self.var(st, "N"))
            code = {"N.left": "1", "N.right": "2", "N": "3"}.get(nm)
            if code:
                return [code]
        raise LeafError("find: unexpected outcome of one descent step")


class AvlInsDescend(AvlSpec):
    ARGS = [("c", "Z"), ("hl", "bool"), ("hr", "bool")]

    def __init__(self, step):
        Spec.__init__(self)
        self.step = step

    def classify(self, ex, kind, st, loopnode, value):
        if kind == "ret":
            if value == S.NULL:
                return ["0", "0"]
            raise LeafError("insert: the descent returns something else than NULL")
        if kind == "back":
            code = {"N.left": "1", "N.right": "2", "N": "5"}.get(objname(self.var(st, "N")))
            if code:
                return [code, "0"]
            raise LeafError("insert: the descent continues at an unexpected node")
        if loopnode["id"] != getattr(self.step, "loop_id", None):
            raise LeafError("insert: the descent runs into a loop that is not the retracing loop")
        new = None
        for fld, code in (("left", "3"), ("right", "4")):
            v = st.heap.get(("N", fld))
            if is_obj(v) and re.match(r"^A\d+$", objname(v)):
                if new is not None:
                    raise LeafError("insert: both child links were written")
                new = (objname(v), code)
        if new is None:
            raise LeafError("insert: the retracing loop is reached without a new node linked below the parent")
        a, code = new
        if not is_obj(st.heap.get((a, "parent")), "N"):
            raise LeafError("insert: the new node's parent is not the node it hangs below")
        b0 = st.heap.get((a, "balance"))
        if not (a in st.zeroed and b0 is None) and not (b0 is not None and b0[0] == "z" and b0[2] == 0):
            raise LeafError("insert: the new node's balance is not 0")
        for ch in ("left", "right"):
            if not (a in st.zeroed and (a, ch) not in st.heap) and st.heap.get((a, ch)) != S.NULL:
                raise LeafError("insert: the new node's %s link is not NULL" % ch)
        fi, did = self.step.lazy_ids["N"]
        if not is_obj(st.frames[fi].get(did), "N"):
            raise LeafError("insert: retracing does not start at the parent of the new node")
        fi, did = self.step.lazy_ids["int#1"]
        return [code, ztext(st.frames[fi].get(did), "the side handed to the retracing loop")]


class AvlRemEnter(AvlSpec):
    """from the head of the data-swap loop of remove: keep swapping / the last node goes / unlink the leaf and
    enter the retracing loop at its parent"""
    ARGS = [("hl", "bool"), ("hr", "bool"), ("hp", "bool"), ("il", "bool"),
            ("hk", "bool"), ("hv", "bool"), ("fk", "bool"), ("fv", "bool")]
    # muggle_avl_tree_remove(tree, node, key_func_free, key_pool, value_func_free, value_pool)
    FACTS = dict(AvlSpec.FACTS, **{"nn:X3": ("fk", True), "nn:X5": ("fv", True),
                                   "nn:N.key": ("hk", True), "nn:N.value": ("hv", True)})

    def __init__(self, step):
        Spec.__init__(self)
        self.step = step

    def callbacks(self, st):
        out = []
        for fn_, fld in (("X3", "N.key"), ("X5", "N.value")):
            calls = [e for e in st.events if e[0] == "call" and e[1] == fn_]
            if any(len(e[2]) != 2 or not is_obj(e[2][1], fld) for e in calls) or len(calls) > 1:
                raise LeafError("remove: a free callback is called with something else than the node's data, or twice")
            out.append("1" if calls else "0")
        return out

    def classify(self, ex, kind, st, loopnode, value):
        if kind == "ret":
            if st.heap.get(("T", "root")) == S.NULL:
                return ["1", "0", "0", "0"] + self.callbacks(st)
            raise LeafError("remove: returns without retracing and without emptying the tree")
        if kind == "back":
            raise LeafError("remove: the swap loop iterates without walking to the swap target")
        if loopnode["id"] != getattr(self.step, "loop_id", None):
            return ["0", "0", "0", "0", "0", "0"]
        fi, did = self.step.lazy_ids["N"]
        if not is_obj(st.frames[fi].get(did), "N.parent"):
            raise LeafError("remove: retracing does not start at the parent of the removed leaf")
        fi, did = self.step.lazy_ids["int#1"]
        side = ztext(st.frames[fi].get(did), "the side handed to the retracing loop")
        wl = "1" if st.heap.get(("N.parent", "left")) == S.NULL else "0"
        wr = "1" if st.heap.get(("N.parent", "right")) == S.NULL else "0"
        return ["2", side, wl, wr] + self.callbacks(st)


def avl_ties(ex_of):
    out = []
    steps = {}
    for nm, fn in (("ins", "muggle_avl_tree_insert"), ("rem", "muggle_avl_tree_remove")):
        sp = AvlStep()
        steps[nm] = sp

        def mk(sp=sp, fn=fn):
            ex = ex_of(sp)
            lp = ex.select_loop(fn, writes_field("balance"), "last")
            sp.loop_id = lp["id"]
            return ex.run_loop(fn, lp, True)
        out.append(("gen_avl_%s_step" % nm, sp.ARGS, mk))
    sp = AvlFindStep()

    def mkf(sp=sp):
        ex = ex_of(sp)
        return ex.run_loop("muggle_avl_tree_find", ex.select_loop("muggle_avl_tree_find", calls_through("cmp")), False)
    out.append(("gen_avl_find_step", sp.ARGS, mkf))
    sd = AvlInsDescend(steps["ins"])

    def mkd(sp=sd):
        ex = ex_of(sp)
        return ex.run_loop("muggle_avl_tree_insert", ex.select_loop("muggle_avl_tree_insert", calls_through("cmp")), False)
    out.append(("gen_avl_ins_descend", sd.ARGS, mkd))
    se = AvlRemEnter(steps["rem"])

    def mke(sp=se):
        ex = ex_of(sp)
        return ex.run_loop("muggle_avl_tree_remove", ex.select_loop("muggle_avl_tree_remove", writes_field("key")), False)
    out.append(("gen_avl_rem_enter", se.ARGS, mke))
    return out


# --------------------------------------------------------------------------
# hash table

def loop_ptr(ex, st, loopnode):
    """value of the (first) pointer variable tested by the condition of the loop"""
    _i, c, _n, _b = ex.parts(loopnode)
    found = []

    def visit(n):
        if n.get("kind") == "DeclRefExpr" and S.tkind(n) == "ptr" and n["referencedDecl"].get("kind") in ("VarDecl", "ParmVarDecl"):
            found.append(n["referencedDecl"]["id"])
    if c is not None:
        S.walk(c, visit)
    for did in found:
        v = st.frames[-1].get(did)
        if v is not None:
            return v
    return None


class HtSpec(Spec):
    OBJS = [("muggle_hash_table_node", ["C"]), ("muggle_hash_table_t", ["T"])]
    NONNULL = ("T",)
    INTS = {"T.table_size": "ts"}
    FACTS = {"nn:C": ("hn", True)}

    def indirect(self, ex, st, obj, args):
        if obj == "T.hash" and len(args) == 1:
            return S.Zt("hv")
        if obj == "T.cmp" and len(args) == 2:
            # only compared with 0: the argument order does not matter, but one argument must be the node's key
            if is_obj(args[0], "C.key") != is_obj(args[1], "C.key"):
                return S.Zt("c")
        return None


class HtIdx(HtSpec):
    """entry of find / put up to the chain loop: which bucket's chain is walked"""
    ARGS = [("hv", "Z"), ("ts", "Z")]

    def classify(self, ex, kind, st, loopnode, value):
        if kind != "reach":
            raise LeafError("the chain loop is not reached")
        v = loop_ptr(ex, st, loopnode)
        m = re.match(r"^T\.nodes\[(.*)\]\.next$", objname(v) or "")
        if not m:
            raise LeafError("the chain walk does not start at nodes[i].next")
        return [m.group(1)]


class HtFindStep(HtSpec):
    ARGS = [("hn", "bool"), ("c", "Z")]

    def classify(self, ex, kind, st, loopnode, value):
        if kind == "ret" and value == S.NULL:
            return ["0"]
        if kind == "ret" and is_obj(value, "C"):
            return ["1"]
        if kind == "back" and is_obj(self.var(st, "C"), "C.next"):
            return ["2"]
        raise LeafError("find: unexpected outcome of one step along the chain")


class HtPutStep(HtSpec):
    ARGS = [("hn", "bool"), ("c", "Z")]

    def classify(self, ex, kind, st, loopnode, value):
        if kind == "back":
            if is_obj(self.var(st, "C"), "C.next"):
                return ["2", "0"]
            raise LeafError("put: the scan continues at an unexpected node")
        if kind != "ret":
            raise LeafError("put: runs into another loop")
        if value == S.NULL:
            return ["0", "0"]
        a = objname(value)
        if not a or not re.match(r"^A\d+$", a):
            raise LeafError("put: returns neither NULL nor the new node")
        heads = [o for (o, f), v in st.heap.items() if f == "next" and is_obj(v, a)]
        linked = len(heads) == 1 and is_obj(st.heap.get((a, "prev")), heads[0]) and \
            is_obj(st.heap.get((a, "next")), heads[0] + ".next") and \
            is_obj(st.heap.get((a, "key")), "X2") and is_obj(st.heap.get((a, "value")), "X3")
        return ["1", "1" if linked else "0"]


class HtInit(Spec):
    """muggle_hash_table_init from entry to return: result, table size stored, node pool created"""
    OBJS = [("muggle_hash_table_t", ["T"]), ("muggle_dsaa_data_cmp", ["Fcmp"]), ("func_muggle_hash", ["Fhash"])]
    NONNULL = ("T",)
    INTS = {"intparam#2": "ts", "intparam#5": "cap"}
    FACTS = {"nn:Fcmp": ("has_cmp", True)}
    POLICY = "skip"
    ARGS = [("ts", "Z"), ("cap", "Z"), ("has_cmp", "bool")]

    def external(self, ex, st, name):
        if name == "muggle_memory_pool_init":
            return S.Zc(1)          # allocation succeeds (failure is property C18)
        return None

    def classify(self, ex, kind, st, loopnode, value):
        if kind != "ret" or value is None or value[0] != "z" or value[2] not in (0, 1):
            raise LeafError("init: does not return a decided boolean")
        if value[2] == 0:
            return ["0", "0", "0"]
        ts = st.heap.get(("T", "table_size"))
        pool = st.heap.get(("T", "pool"))
        return ["1", ztext(ts, "table_size stored by init"), "1" if is_obj(pool) else "0"]


class HtRemove(Spec):
    """muggle_hash_table_remove(table, node, key_func_free, key_pool, value_func_free, value_pool): which callbacks
    are called with the node's key / value, and the node is unlinked whatever the callbacks are"""
    OBJS = [("muggle_hash_table_node", ["C"]), ("muggle_hash_table_t", ["T"])]
    NONNULL = ("T", "C")
    FACTS = {"nn:X3": ("fk", True), "nn:X5": ("fv", True), "nn:C.key": ("hk", True), "nn:C.value": ("hv", True)}
    ARGS = [("hk", "bool"), ("hv", "bool"), ("fk", "bool"), ("fv", "bool")]

    def classify(self, ex, kind, st, loopnode, value):
        if kind != "ret":
            raise LeafError("remove: runs into a loop")
        out = []
        for fn_, fld in (("X3", "C.key"), ("X5", "C.value")):
            calls = [e for e in st.events if e[0] == "call" and e[1] == fn_]
            if any(len(e[2]) != 2 or not is_obj(e[2][1], fld) for e in calls) or len(calls) > 1:
                raise LeafError("remove: a free callback is called with something else than the node's data, or twice")
            out.append("1" if calls else "0")
        nxt = st.heap.get(("C.prev", "next"))
        ok = nxt is not None and (is_obj(nxt, "C.next") or (nxt == S.NULL and "C.next" in st.null))
        if ok and "C.next" not in st.null:
            ok = is_obj(st.heap.get(("C.next", "prev")), "C.prev")
        return out + ["1" if ok else "0"]


def ht_ties(ex_of):
    out = []
    for nm in ("find", "put"):
        fn = "muggle_hash_table_" + nm
        sp = HtIdx()
        out.append(("gen_ht_%s_idx" % nm, sp.ARGS, lambda sp=sp, fn=fn: ex_of(sp).run_prefix(fn)))
    for nm, cls in (("find", HtFindStep), ("put", HtPutStep)):
        fn = "muggle_hash_table_" + nm
        sp = cls()

        def mk(sp=sp, fn=fn):
            ex = ex_of(sp)
            return ex.run_loop(fn, ex.select_loop(fn, calls_through("cmp")), False)
        out.append(("gen_ht_%s_step" % nm, sp.ARGS, mk))
    sp = HtInit()
    out.append(("gen_ht_init", sp.ARGS, lambda sp=sp: ex_of(sp).run_prefix("muggle_hash_table_init")))
    sr = HtRemove()
    out.append(("gen_ht_remove", sr.ARGS, lambda sp=sr: ex_of(sp).run_prefix("muggle_hash_table_remove")))
    return out


# --------------------------------------------------------------------------
# trie

class TrieSpec(Spec):
    OBJS = [("muggle_trie_node", ["N"]), ("muggle_trie_t", ["T"])]
    NONNULL = ("T", "N")
    CHARPTR = "S"
    INTS = {"S[0]": "c"}
    FACT_RE = [(r"^nn:(N|T\.root)\.children\[.*\]$", ("hc", True))]

    def child_reads(self, st, objs):
        return [e[3] for e in st.events if e[0] == "idx" and e[1] in objs and e[2] == "children"]

    def child_writes(self, st, objs):
        return [(e[2][len("children["):-1], e[3]) for e in st.events
                if e[0] == "wr" and e[1] in objs and e[2].startswith("children[")]

    def one(self, xs, what):
        if len(set(xs)) != 1:
            raise LeafError("%s: %d different child indices on one path" % (what, len(set(xs))))
        return xs[0]


class TrieFindEntry(TrieSpec):
    ARGS = [("c", "Z")]

    def classify(self, ex, kind, st, loopnode, value):
        if kind == "reach":
            return ["0", "0"]
        m = re.match(r"^T\.root\.children\[(.*)\]$", objname(value) or "")
        if kind == "ret" and m:
            return ["1", m.group(1)]
        raise LeafError("find: the entry neither reaches the walk nor returns a child of the root")


class TrieFindStep(TrieSpec):
    ARGS = [("c", "Z"), ("hc", "bool")]

    def classify(self, ex, kind, st, loopnode, value):
        if kind == "ret" and is_obj(value, "N"):
            return ["0", "0"]
        idx = self.one(self.child_reads(st, ("N",)), "find")
        if kind == "ret" and value == S.NULL:
            return ["2", idx]
        if kind == "back" and is_obj(self.var(st, "N"), "N.children[%s]" % idx):
            if self.var(st, "chr") != ("p", ("chr", "S", 1)):
                raise LeafError("find: the key cursor does not advance by one")
            return ["1", idx]
        raise LeafError("find: unexpected outcome of one step of the walk")


class TrieInsertEntry(TrieSpec):
    ARGS = [("c", "Z"), ("hc", "bool")]

    def classify(self, ex, kind, st, loopnode, value):
        if kind == "reach":
            return ["0", "0", "0", "0"]
        if kind != "ret" or not is_obj(value):
            raise LeafError("insert: the empty key does not return a node")
        idx = self.one(self.child_reads(st, ("T.root",)), "insert")
        if not is_obj(st.heap.get((objname(value), "data")), "X3"):
            raise LeafError("insert: the empty key's node does not receive the value")
        ws = self.child_writes(st, ("T.root",))
        if is_obj(value, "T.root.children[%s]" % idx) and not ws:
            return ["1", idx, "0", "0"]
        if len(ws) == 1 and ws[0][1] == value and re.match(r"^A\d+$", objname(value)):
            return ["1", idx, "1", ws[0][0]]
        raise LeafError("insert: the empty key's node is neither the existing child nor a newly stored one")


class TrieInsertStep(TrieSpec):
    ARGS = [("c", "Z"), ("hc", "bool")]

    def classify(self, ex, kind, st, loopnode, value):
        if kind == "ret":
            return ["0", "0", "0", "0"]
        if kind != "back":
            raise LeafError("insert: the walk runs into another loop")
        idx = self.one(self.child_reads(st, ("N",)), "insert")
        if self.var(st, "chr") != ("p", ("chr", "S", 1)):
            raise LeafError("insert: the key cursor does not advance by one")
        cur = self.var(st, "N")
        ws = self.child_writes(st, ("N",))
        if is_obj(cur, "N.children[%s]" % idx) and not ws:
            return ["1", idx, "0", "0"]
        if len(ws) == 1 and ws[0][1] == cur and re.match(r"^A\d+$", objname(cur) or ""):
            return ["1", idx, "1", ws[0][0]]
        raise LeafError("insert: the walk continues at a node that is neither the existing child nor a newly stored one")


class TrieRemove(TrieSpec):
    """muggle_trie_remove(trie, key, func_free, pool): the node found (the walk of find is stepped over) loses its
    data whatever the callback is; the callback, when passed, is called with that data"""
    POLICY = "skip"
    FACTS = {"nn:N": ("hn", True), "nn:T.root.children[0]": ("hn", True), "nn:X3": ("f", True)}
    FACT_RE = []
    NONNULL = ("T",)
    ARGS = [("c", "Z"), ("hn", "bool"), ("f", "bool")]

    def classify(self, ex, kind, st, loopnode, value):
        if kind != "ret" or value is None or value[0] != "z" or value[2] not in (0, 1):
            raise LeafError("remove: does not return a decided boolean")
        nodes = ("N", "T.root.children[0]")
        cleared = [o for o in nodes if st.heap.get((o, "data")) == S.NULL]
        calls = [e for e in st.events if e[0] == "call" and e[1] == "X3"]
        def data_of(v):      # the lazily named data block of one of the nodes (read after the stepped-over walk)
            return is_obj(v) and re.sub(r"@\d+$", "", objname(v)) in [o + ".data" for o in nodes]
        if len(calls) > 1 or any(len(e[2]) != 2 or not data_of(e[2][1]) for e in calls):
            raise LeafError("remove: the free callback is called with something else than the node's data, or twice")
        return [str(value[2]), "1" if cleared else "0", "1" if calls else "0"]


def trie_ties(ex_of):
    out = []
    sizes = {}
    for nm, ecls, scls in (("find", TrieFindEntry, TrieFindStep), ("insert", TrieInsertEntry, TrieInsertStep)):
        fn = "muggle_trie_" + nm
        se = ecls()

        def mke(sp=se, fn=fn):
            ex = ex_of(sp)
            t = ex.run_prefix(fn)
            sizes.update(ex.array_sizes)
            return t
        out.append(("gen_trie_%s_entry" % nm, se.ARGS, mke))
        ss = scls()

        def mks(sp=ss, fn=fn):
            ex = ex_of(sp)
            t = ex.run_loop(fn, ex.select_loop(fn, lambda n: n.get("kind") == "MemberExpr" and n.get("name") == "children"), False)
            sizes.update(ex.array_sizes)
            return t
        out.append(("gen_trie_%s_step" % nm, ss.ARGS, mks))

    sr = TrieRemove()
    out.append(("gen_trie_remove", sr.ARGS, lambda sp=sr: ex_of(sp).run_prefix("muggle_trie_remove")))

    def mksize():
        if "children" not in sizes:
            raise LeafError("the size of the children array was not seen")
        return ("leaf", (str(sizes["children"]),))
    out.append(("gen_trie_children_size", [], mksize))
    return out


def emit(ties):
    lines = []
    for name, args, mk in ties:
        try:
            lines.append(S.definition(name, args, mk()))
        except LeafError as e:
            lines.append("(* slicer error for %s: %s *)\n" % (name, str(e).replace("*)", "* )")))
        except RecursionError:
            lines.append("(* slicer failure for %s: recursion limit *)\n" % name)
        except Exception as e:      # a broken AST must break the obligation, not the machinery
            lines.append("(* slicer failure for %s: %s: %s *)\n" % (name, type(e).__name__, str(e)[:200].replace("*)", "* )")))
    return lines


def generate(repo, cflags):
    lines = []
    for rel, mk in (("muggle/c/dsaa/avl_tree.c", avl_ties), ("muggle/c/dsaa/hash_table.c", ht_ties),
                    ("muggle/c/dsaa/trie.c", trie_ties)):
        src = os.path.join(repo, rel)
        try:
            fns = S.load_all(src, cflags)
        except Exception as e:
            lines.append("(* %s could not be parsed: %s *)\n" % (rel, str(e)[:200].replace("*)", "* )")))
            continue
        lines.append("(* --- %s --- *)" % rel)
        lines += emit(mk(lambda sp, fns=fns, src=src: S.Ex(fns, sp, src, cflags)))
    return lines


if __name__ == "__main__":
    import sys
    repo = sys.argv[1] if len(sys.argv) > 1 else "/repo"
    inc = sys.argv[2] if len(sys.argv) > 2 else "/tmp/vb-c09/build/gen"
    print("\n".join(generate(repo, ["-std=gnu11", "-I" + repo, "-I" + inc, "-DNDEBUG"])))
