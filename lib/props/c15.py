"""C15 — socket contexts (announced once, bytes in order, closed/released/freed exactly once at
zero, no use after release, no leak at exit) and the event-loop pipe: plugin for bin/check."""
import os
import re
import vcommon as V

ID = "C15"
COQ_DIRS = ["C15"]
MODEL_BASE = "c15_model"
OCAML_DRIVER = "ocaml/c15_driver.ml"
C_DRIVER = "harness/drivers/c15_driver.c"
EXTRA_C = ["harness/c15_shim.c"]
WRAPS = ["muggle_evloop_add_ctx", "close", "accept", "read", "write", "poll", "select", "epoll_wait",
         "malloc", "free", "calloc", "realloc"]
LINK_FLAGS = ["-Wl,--wrap=" + w for w in WRAPS]
HEADER_LINES = 1
# no verdict depends on elapsed time: the driver waits for states (harness/drivers/c15_driver.c, BIG_WAIT) and marks a
# case INCONCLUSIVE when a machine too loaded to make progress ends such a wait; the time-outs here only end real hangs
CASE_TIMEOUT = 240.0
MODEL_CASE_TIMEOUT = 120.0
SHRINK_BUDGET = 60
PROOF_TIMEOUT = 2400


def _sources():
    return [s for s in V.all_repo_sources()
            if not s.startswith("muggle/c/crypt/") and not s.startswith("muggle/c/encoding/")]


REPO_SOURCES = _sources()


def build_impl(ctx):
    """One driver for both kinds of scenario: linked with the deterministic scheduler (harness/vsched: atomics
    hooked by forced include, pthread mutex / condvar / yield interposed).  Threads that the scheduler did not start
    (every thread of the real-thread scenarios) see transparent hooks; the scheduled scenarios ("vs" cases) run
    under it.  The waits of the loop thread and the event signal are interposed by harness/c15_shim.c."""
    return V.build_vsched_driver(ID, C_DRIVER, REPO_SOURCES, extra_c=EXTRA_C, extra_wraps=WRAPS)


_VS_LINE = re.compile(r"^(E \d+ |P \d+$|X \d+$)")


def canon(lines):
    """the scheduler's own event lines of a scheduled scenario are not part of the compared callback log"""
    return [ln for ln in lines if not _VS_LINE.match(ln)]

RULE = ("seeded random scenarios on real loopback TCP / UNIX sockets and real threads: 1..32 connections (accepted or "
        "handed over from another thread), random payload sizes and write fragmentation (TCP_NODELAY + yields), random "
        "server read-buffer sizes, client / server / worker-side close order, extra retains held by worker threads, "
        "injected cb_alloc / muggle_evloop_add_ctx (wrapped or node-allocation) / accept failures and natural poll "
        "capacity rejection, exit from the loop thread, from another thread, or with a context still queued; bursts of "
        "2..4 hand-overs from one or several threads whose wake-ups coalesce (before the loop thread exists / while it "
        "is held in a callback) followed by data to each and a bounded wait for delivery; peers that write 1 byte .. "
        "several read buffers and close at once / reply after a local half-close / reset with data queued while the "
        "loop thread is held, so that data and hang-up arrive in one readiness report (AF_UNIX pairs, AF_UNIX and TCP "
        "accepted, registered before or after); a callback that shuts another context down and exits; the user's wake "
        "callback handing 1..2 contexts over itself on its 1st..3rd invocation (inside the back-end's wake-up handling, "
        "after the queue was drained) followed by data and a bounded wait; each on select, poll and epoll.  Scheduled "
        "scenarios (real loop, real eventfd, real back-end under the deterministic scheduler harness/vsched, the loop "
        "thread's wait repeated with timeout 0): loop thread + creator + 1..4 handing threads (+ the wake callback "
        "handing over), each hand-over followed by 0..200 bytes; a complete sweep placing another thread's "
        "muggle_socket_evloop_add_ctx at every scheduling decision of the loop thread's first wake-up handling (as one "
        "block, and split after each of its own points with 1..6 loop points in between) plus seeded random schedules "
        "(switch density 15..90 %); every log contains the event signal's writes / reads and every wait of the loop "
        "thread that found nothing ready.  Callback-presence x allocator matrix (14 x 3 x 3 back-ends): each optional "
        "callback of the handle NULL alone / installed alone / all / none (without cb_msg on_read's default loop drains; "
        "the shim logs its reads) x the harness's allocator, the library's default allocator (malloc / free interposed) "
        "and a non-NULL pool object whose pointer every cb_alloc / cb_free call must be given, over a history that takes "
        "every release path (on_close, on_clear, refused registration on the accept path); the random family also picks "
        "the allocator.  No verdict depends on elapsed time (state-based waits; a wait nothing ends marks the case "
        "INCONCLUSIVE = no verdict); event-loop pipe: 1..8 writer threads, injected partial reads / writes / EAGAIN / EINTR; "
        "non-trivial = the log contains a failure branch, a worker release, or a fragmented read; distinct = distinct log text")
TRUSTED_BASE = [
    "modelled, not verified: kernel socket semantics (per-connection FIFO byte stream, EOF after the peer's close, "
    "readiness reporting of select/poll/epoll; the dispatch step is the shape the three loops share: readable => "
    "cb_read first, CLOSED flag tested afterwards; a reset may drop queued bytes), accept errors other than the three branches in the code, the "
    "spinlock (C04) and the kernel pipe as an atomic FIFO per write(2) call",
    "the reference counter is the sequential saturating counter rspec of C04/Model.v; its use as an atomic step is "
    "justified by C04's refcnt_linearizable (imported, not re-proved)",
    "tie = trace inclusion: the extracted model replays the implementation's callback log (ocaml/c15_driver.ml); silent "
    "steps (a release that does not reach zero, leaving the run loop, on_wake taking / releasing the queue mutex) are "
    "inferred by the acceptor; the enqueue of a hand-over is placed between its 'hand' and 'handed' log lines",
    "harness/c15_shim.c interposers (-Wl,--wrap) for muggle_evloop_add_ctx, close, accept, read, write, malloc family, "
    "and for poll / select / epoll_wait of the loop thread: the wait is first executed with timeout 0 under the log lock "
    "('idle' iff nothing is ready; a non-empty result is returned as it is), signal reads / writes are executed and logged "
    "under the same lock, so the order of the sigw / sigr / idle lines is the order of the system calls",
    "modelled, not verified: the event signal as one flag (eventfd counter > 0; a write sets it, the clear-up read unsets "
    "it), reported by the back-end's wait whenever it is set (select / poll level-triggered; epoll edge-triggered: every "
    "write re-arms the report); a spurious report (clear-up with the flag unset) is allowed",
    "scheduled scenarios: harness/vsched (one thread runs at a time, schedule in the case) with the shim's re-polled "
    "wait; the driver is always linked with the scheduler, whose hooks are transparent for threads it did not start",
]
ASSUMPTIONS = [
    "documented usage: every worker retain is paired with exactly one release; the thread whose release returns 0 "
    "calls the release duty (user data, muggle_socket_ctx_close, free); a context handed over after on_exit has drained "
    "the queue stays queued and remains the caller's (the driver takes such a 'late' context back and the monitor accepts "
    "that only when the hand-over was not complete before the loop was asked to leave); one reader on the pipe; "
    "callbacks do not block; worker retains are generated only in configurations that install every callback",
]
EVIDENCE_NOTES = [
    "audit follow-up (a): verdicts no longer depend on elapsed time.  Every wait of the driver waits for a state: the "
    "thing waited for happened, or the loop thread is QUIET (it sits in its back-end's wait and the very set it waits on "
    "- saved by the shim - is asked again from the waiting thread with timeout 0, nothing consumed, and no TCP segment "
    "of a live client connection is unacknowledged), or run() returned; await / sync / waitstall / waithand / waiteof / "
    "burst / worker-retain / end-of-script all use it; a wait that none of these ends within 45 s marks the case "
    "INCONCLUSIVE (monitor: no verdict, counted in the input distribution).  The only remaining time bounds detect "
    "hangs of the code under test (run() not returning after an exit request: 90 s; pipe reader / writer stuck in a "
    "library call: 45 s without any progress) and are reported as such.  Two genuine harness races found this way and "
    "removed: (1) worker structures were initialised AFTER the loop thread was started, so a retain trigger with "
    "threshold 0 firing in the first cb_add_ctx could have its reference wiped (false 'N allocated, N-1 freed', 2 in "
    "400 runs, the flake reported by the audit; 0 in 1500 afterwards); (2) the acceptor placed an enqueue seen between "
    "a clear-up and its cb_wake line before on_wake's silent drain (now decided by looking ahead for the context's "
    "registration).  A hand-over that loses the race with the end of run() is taken back by the driver ('late', outside "
    "the property) unless it was complete before the loop was asked to leave",
    "audit follow-up (b): callback-presence x allocator matrix (gen_matrix) and model configuration [cbflags]; "
    "all theorems quantify over the configuration, callbacks_follow_configuration is new.  Hand-made edits now caught: "
    "close+free only inside if (cb_release); default handle_free not freeing; cb_free(NULL, ..) / cb_alloc(NULL) with a "
    "non-NULL mempool; cb_conn skipped when cb_msg is missing; default drain loop reading once",
    "audit follow-up (c): the pipe shim injects EINTR (nothing transferred) on reads and writes besides EAGAIN and "
    "partial transfers; block_write failing on EINTR is caught (torn pointer: reader hang / pwfail).  EINTR on the read "
    "side never reaches muggle_socket_evloop_pipe_read (muggle_ev_ctx_read retries it), so that branch is dead code; "
    "hard errors after a partial write and read(2) returning 0 are still not driven",
    "round 5: seeded change C15-9 (all three back-ends call muggle_ev_signal_clearup AFTER the wake callback: a hand-over "
    "landing between on_wake's drain and the clear-up has its wake-up swallowed, the context stays queued, is never "
    "announced and gets no bytes; at exit on_exit releases it, so ownership accounting stays clean) was missed: no "
    "scenario handed a context over from inside cb_wake or from another thread inside that window, the monitor had no "
    "liveness clause and the model started on_wake from idle without a signal.  Now: wake-callback hand-overs and a "
    "scheduler-controlled window sweep, the monitor's 'idle' clause (a completed hand-over still queued / bytes "
    "undelivered when the loop thread blocks), the signal / queue protocol in the model (handover_never_stranded, "
    "loop_sleeps_only_without_completed_handover, wake_handling_clears_signal_first; the swapped order is refuted by "
    "clearup_after_wake_callback_strands_handover) and trace acceptance of the sigw / sigr / idle lines",
    "on_wake is modelled in the repaired form of fixes/C14-add-ctx-failure.patch (registration failure => release_ctx, "
    "no cb_add_ctx); on the unchanged tree the monitor reports the leak and the acceptor rejects the addctx line",
    "observation (outside C15's statement): with the epoll back-end (edge-triggered) the accept loop returns after a "
    "cb_alloc / add_ctx failure without draining the backlog, so already-queued connections are accepted only when a "
    "further connection arrives",
]

BACKENDS = ["select", "poll", "epoll"]
M64 = 0xFFFFFFFFFFFFFFFF


def pay(seed, k, j):
    x = (seed * 0x9E3779B97F4A7C15 + (k + 1) * 0xBF58476D1CE4E5B9 + (j + 1) * 0x94D049BB133111EB) & M64
    x ^= x >> 29
    x = (x * 0xBF58476D1CE4E5B9) & M64
    x ^= x >> 32
    return x & 0xFF


# --------------------------------------------------------------------------
# generator

def _chunks(rng, n):
    if n <= 1 or rng.chance(1, 3):
        return []
    out, left = [], n
    while left > 0 and len(out) < 40:
        c = rng.choice([1, 1, 2, 3, 5, 8, 13, 64, 500])
        c = min(c, left)
        out.append(c)
        left -= c
    return out


def gen_socket(rng, name, be, tier, force=None):
    force = force or {}
    fam = force.get("fam", rng.choice(["tcp", "unix"]))
    big = tier == "thorough"
    nconn = force.get("nconn", rng.choice([1, 1, 2, 2, 3, 4, 5, 8, 12, 32 if rng.chance(1, 3) else 6]))
    hints = force.get("hints", rng.choice([64, 64, 64, 8, 4, 2, 40]))
    pool = rng.choice([0, 0, 1])
    rbuf = rng.choice([1, 3, 7, 16, 64, 4096])
    workers = rng.choice([0, 1, 2, 3])
    seed = rng.below(1 << 30) + 1
    alloc = rng.choice(["user", "user", "user", "user", "default", "pool"])
    lines = ["cfg be=%s fam=%s hints=%d pool=%d seed=%d rbuf=%d workers=%d" % (be, fam, hints, pool, seed, rbuf, workers)]
    # faults
    if force.get("faults", True):
        if alloc != "default" and rng.chance(1, 4):
            lines.append("fault alloc " + " ".join(str(rng.range(1, max(1, nconn))) for _ in range(rng.range(1, 2))))
        if rng.chance(1, 3):
            # index 1 is the listener's own registration
            idx = sorted(set(rng.range(1 if rng.chance(1, 6) else 2, nconn + 2) for _ in range(rng.range(1, 3))))
            lines.append("fault add " + " ".join("%d:%s" % (i, rng.choice("wm")) for i in idx))
        if rng.chance(1, 10):
            lines.append("fault accept %d" % rng.range(1, nconn + 1))
    handed = set(k for k in range(nconn) if rng.chance(1, 5))
    size = {}
    for k in range(nconn):
        size[k] = rng.choice([0, 1, 7, 8, 9, 64, 200, 1000, 4000 if nconn <= 8 else 300,
                              (60000 if big else 9000) if nconn <= 3 else 100])
    if max(size.values()) > 20000:
        rbuf = 4096          # keeps the number of logged read fragments (and the acceptor's work) bounded
    elif max(size.values()) > 2000:
        rbuf = max(rbuf, 64)
    lines[0] = "cfg be=%s fam=%s hints=%d pool=%d seed=%d rbuf=%d workers=%d%s" % (
        be, fam, hints, pool, seed, rbuf, workers, "" if alloc == "user" else " alloc=" + alloc)
    # triggers
    exit_conn = None
    mode = force.get("exit", rng.choice(["end", "end", "xmid", "trig", "handexit", "trig"]))
    for k in range(nconn):
        if workers and rng.chance(1, 2):
            for _ in range(rng.range(1, 2)):
                lines.append("trig %d %d retain %d" % (k, rng.range(0, size[k]), rng.below(workers)))
        if rng.chance(1, 6):
            # select back-end before its fix (13141b0): a context registered and shut down in the same dispatch
            # pass left its descriptor in allset and the loop exited on EBADF (C13's territory; C15's model and
            # monitor accept a loop that leaves on a back-end error) -> keep threshold >= 1 there
            lo = 1 if be == "select" else 0
            if size[k] >= lo:
                lines.append("trig %d %d shut" % (k, rng.range(lo, size[k])))
    if mode in ("trig", "handexit"):
        exit_conn = rng.below(nconn)
        thr = rng.range(0, size[exit_conn])
        if mode == "trig":
            lines.append("trig %d %d exit" % (exit_conn, thr))
        else:
            lines.append("trig %d %d handexit %d" % (exit_conn, thr, nconn))
    # per-connection programs, randomly interleaved
    progs = {}
    for k in range(nconn):
        p = [("hand %d" if k in handed else "conn %d") % k]
        left = size[k]
        while left > 0:
            n = left if rng.chance(1, 2) else rng.range(1, left)
            p.append("send %d %d %s" % (k, n, " ".join(map(str, _chunks(rng, n)))))
            left -= n
            if rng.chance(1, 5):
                p.append("sync")
        if rng.chance(2, 3):
            p.append("cclose %d" % k)
        progs[k] = p
    steps = []
    if len(handed) >= 2 and rng.chance(1, 3):
        # hand-overs whose wake-ups coalesce: all before the loop thread exists
        for k in sorted(handed):
            progs[k].pop(0)
        steps.append("prehand " + " ".join(map(str, sorted(handed))))
    elif exit_conn is not None:
        # hand-overs happen-before anything that can make the loop thread exit
        for k in sorted(handed):
            steps.append(progs[k].pop(0))
    alive = [k for k in range(nconn) if progs[k]]
    wsteps = []
    for w in range(workers):
        for _ in range(rng.range(0, 3)):
            wsteps.append(rng.choice(["wrel %d", "wrel %d", "wshut %d"]) % w)
    total = sum(len(p) for p in progs.values())
    xmid_at = rng.below(total + 1) if mode == "xmid" else -1
    cnt = 0
    while alive:
        k = rng.choice(alive)
        steps.append(progs[k].pop(0))
        cnt += 1
        if not progs[k]:
            alive.remove(k)
        if wsteps and rng.chance(1, 6):
            steps.append("sync")
            steps.append(wsteps.pop(0))
        if cnt == xmid_at:
            steps.append("xexit")
    steps.append("sync")
    steps += wsteps
    if rng.chance(1, 2):
        steps.append("sync")
    return V.Case(name, lines + steps, {"kind": "sock", "be": be, "seed": seed})


def gen_burst(rng, name, be, tier):
    """Directed: 2..4 muggle_socket_evloop_add_ctx calls land between two wake-up handlings (before the loop
    thread exists, or while it is held inside a callback), from one or several threads; every handed-over
    context then gets data and the script waits for its delivery."""
    fam = rng.choice(["tcp", "unix"])
    seed = rng.below(1 << 30) + 1
    m = rng.range(2, 4)
    kind = rng.choice(["prehand", "stall", "stallmt", "plain", "plainmt"])
    lines = ["cfg be=%s fam=%s hints=64 pool=%d seed=%d rbuf=%d workers=%d" % (
        be, fam, rng.choice([0, 1]), seed, rng.choice([7, 64, 4096]), 1)]
    steps = []
    if kind == "prehand":
        ks = list(range(m))
        steps.append("prehand " + " ".join(map(str, ks)))
        if rng.chance(1, 2):
            steps.append("conn %d" % m)
            ks.append(m)
    else:
        # connection 0 is accepted; the loop thread is held in its cb_msg while the burst happens
        ks = list(range(1, m + 1))
        steps.append("conn 0")
        if kind.startswith("stall"):
            lines.append("trig 0 3 stall")
        steps.append("send 0 5 2 3")
        if not kind.startswith("stall"):
            steps.append("sync")
        steps.append(("burstmt " if kind.endswith("mt") else "burst ") + " ".join(map(str, ks)))
        ks = [0] + ks
    if rng.chance(1, 2):
        lines.append("trig %d %d retain 0" % (ks[-1], rng.range(0, 8)))
    for k in rng.shuffle(ks):
        n = rng.choice([1, 9, 200, 4000])
        steps.append("send %d %d %s" % (k, n, " ".join(map(str, _chunks(rng, n)))))
    for k in ks:
        steps.append("await %d" % k)
    if rng.chance(1, 2):
        # a second burst: wake-ups after the first backlog must still drain everything
        ks2 = list(range(10, 10 + rng.range(2, 3)))
        steps.append("burst " + " ".join(map(str, ks2)))
        for k in ks2:
            steps.append("send %d 33 5 28" % k)
        for k in ks2:
            steps.append("await %d" % k)
        ks += ks2
    for k in rng.shuffle(ks):
        if rng.chance(1, 2):
            steps.append("cclose %d" % k)
    steps.append("sync")
    steps.append("wrel 0")
    return V.Case(name, lines + steps, {"kind": "sock", "be": be, "seed": seed})


def gen_hup(rng, name, be, tier):
    """Directed: data and the hang-up of a connection reach the loop as ONE readiness report.  The loop thread is
    held in connection 0's cb_msg (stall trigger) while peers write and close at once (AF_UNIX pairs, AF_UNIX or TCP
    accepted connections, also connections accepted / handed over only afterwards), reply after the local side
    half-closed, or reset with data queued; sizes from 1 byte to several read buffers."""
    fam = rng.choice(["tcp", "unix", "unix"])
    seed = rng.below(1 << 30) + 1
    rbuf = rng.choice([1, 7, 16, 64, 4096])
    lines = ["cfg be=%s fam=%s hints=64 pool=%d seed=%d rbuf=%d workers=1" % (be, fam, rng.choice([0, 1]), seed, rbuf),
             "trig 0 3 stall"]
    sizes = [1, max(1, rbuf - 1), rbuf, rbuf + 1, 3 * rbuf + 5, 2 * rbuf, 4000 if rbuf >= 16 else 200]
    pre, during, k = ["conn 0"], [], 1
    for _ in range(rng.range(2, 5)):
        kind = rng.choice(["pair", "pair", "acc", "late-pair", "late-acc", "half", "reset"])
        n = rng.choice(sizes)
        snd = "send %d %d %s" % (k, n, " ".join(map(str, _chunks(rng, n))) if rng.chance(1, 3) else "")
        if kind in ("pair", "acc"):
            pre.append(("hand %d" if kind == "pair" else "conn %d") % k)
            if rng.chance(1, 2):
                pre.append("send %d 2" % k)
            during += [snd, "cclose %d" % k]
        elif kind in ("late-pair", "late-acc"):
            during += [("hand %d" if kind == "late-pair" else "conn %d") % k, snd, "cclose %d" % k]
        elif kind == "half":
            lines.append("trig %d 2 halfclose" % k)
            pre += ["conn %d" % k if rng.chance(1, 2) else "hand %d" % k, "send %d 2" % k]
            during += ["waiteof %d" % k, snd, "cclose %d" % k]
        else:
            pre.append("conn %d" % k if rng.chance(1, 2) else "hand %d" % k)
            during += [snd, "creset %d" % k]
        if rng.chance(1, 4):
            lines.append("trig %d %d retain 0" % (k, rng.range(0, n)))
        k += 1
    steps = pre + ["sync", "send 0 5 2 3", "waitstall"] + during + ["unstall", "sync", "sync"]
    if rng.chance(1, 2):
        steps.append("wrel 0")
    return V.Case(name, lines + steps, {"kind": "sock", "be": be, "seed": seed})


def gen_shutexit(rng, name, be, tier):
    """Directed: a callback of one context shuts ANOTHER registered context down and leaves the loop in the same
    round: the victim's CLOSED flag is set but its close is never dispatched; on_clear has to release it."""
    fam = rng.choice(["tcp", "unix"])
    seed = rng.below(1 << 30) + 1
    m = rng.range(2, 5)
    victim = rng.range(1, m - 1) if m > 2 else 1
    lines = ["cfg be=%s fam=%s hints=64 pool=%d seed=%d rbuf=64 workers=1" % (be, fam, rng.choice([0, 1]), seed),
             "trig 0 4 shutexit %d" % victim]
    if rng.chance(1, 2):
        lines.append("trig %d 1 retain 0" % victim)
    steps = []
    for k in range(m):
        steps.append(("hand %d" if rng.chance(1, 3) else "conn %d") % k)
    for k in range(1, m):
        steps.append("send %d 3" % k)
    steps += ["sync", "send 0 9 4 5", "sync", "wrel 0"]
    return V.Case(name, lines + steps, {"kind": "sock", "be": be, "seed": seed})


def gen_wakehand(rng, name, be, tier):
    """Directed: the user's own wake callback hands a context over (an application serving its 'please add this
    connection' requests from cb_wake).  The hand-over happens inside the back-end's wake-up handling, after on_wake
    has drained the queue and released the mutex; its wake-up must survive the rest of that handling.  The script
    waits for the connection to exist, sends to it and waits (bounded) for the delivery."""
    fam = rng.choice(["tcp", "unix"])
    seed = rng.below(1 << 30) + 1
    nth = rng.choice([1, 1, 1, 2, 2, 3])
    ks = [20]
    ow = "%d:20" % nth
    if rng.chance(1, 3):
        # two hand-overs from the same invocation, or one more from a later invocation
        ow += ",%d:21" % (nth if rng.chance(1, 2) else nth + 1)
        ks.append(21)
    # the directive sits in the header line: shrinking a failing case cannot drop it
    lines = ["cfg be=%s fam=%s hints=64 pool=%d seed=%d rbuf=%d workers=1 onwake=%s" % (
        be, fam, rng.choice([0, 1]), seed, rng.choice([3, 64, 4096]), ow)]
    steps = []
    # wake-ups number 2.. are produced by ordinary hand-overs from the script thread
    for j in range(nth - 1):
        steps += ["hand %d" % (30 + j), "send %d 4" % (30 + j), "await %d" % (30 + j)]
    if rng.chance(1, 2):
        steps.insert(0, "conn 0")
        steps.insert(1, "send 0 6 1 5")
    if rng.chance(1, 3):
        lines.append("trig 20 %d retain 0" % rng.range(0, 4))
    for k in ks:
        steps.append("waithand %d" % k)
    for k in rng.shuffle(ks):
        n = rng.choice([1, 5, 64, 900])
        steps.append("send %d %d %s" % (k, n, " ".join(map(str, _chunks(rng, n)))))
    if rng.chance(1, 2):
        steps.append("quiet")
    for k in ks:
        steps.append("await %d" % k)
    if rng.chance(1, 2):
        steps.append("hand 40")
        steps.append("send 40 9 4 5")
        steps.append("await 40")
    for k in rng.shuffle(ks):
        if rng.chance(1, 2):
            steps.append("cclose %d" % k)
    steps += ["sync", "wrel 0"]
    return V.Case(name, lines + steps, {"kind": "sock", "be": be, "seed": seed})


# scheduled scenarios: T0 creates the loop and hands context 0 over, T1 runs the loop, T2.. are handers.
# Every operation (mutex lock / unlock, signal read / write, wait attempt, harness point) takes two scheduling
# decisions (before and after it).  Measured on all three back-ends: T0 reaches its wait loop after 14 decisions,
# a hander's whole hand-over takes 14, the loop thread's first wake-up handling (wait returns, clear-up, on_wake's
# lock, registration, unlock, cb_wake, next wait) about 12; both constants leave a wide margin (further decisions are
# spent on T0's wait loop / the sleeping loop thread's repeated wait and change nothing).
VS_PREFIX = 24
VS_WINDOW = 40


def _vs_case(name, be, seed, nh, nbytes, gate, sched, onwake=()):
    lines = ["vs be=%s hints=64 seed=%d rbuf=64 nh=%d bytes=%d gate=%d budget=30000%s" % (
        be, seed, nh, nbytes, gate, (" onwake=" + ",".join("%d:%d" % nk for nk in onwake)) if onwake else "")]
    lines.append("sched " + sched)
    return V.Case(name, lines, {"kind": "vs", "be": be, "seed": seed})


def vs_window_sched(k, j=None, m=0):
    """T0 up to its wait loop; the loop thread k points into its wake-up handling; then the hander: all of its
    hand-over at once (j None), or j points of it, m more points of the loop thread, and the rest."""
    sl = [0] * VS_PREFIX + [1] * k
    if j is None:
        sl += [2] * 48
    else:
        sl += [2] * j + [1] * m + [2] * 48
    return "list - " + " ".join(map(str, sl))


def gen_windows(be, tier, tag=""):
    """Deterministic sweep: another thread's muggle_socket_evloop_add_ctx lands at EVERY scheduling point of the loop
    thread between the start of run() and the end of its first wake-up handling (poll return, signal clear-up, on_wake's
    lock, registration of context 0, unlock, cb_wake, ...): as one block, and split after each of its own points
    (lock, enqueue+unlock, signal write) with 1..3 loop points in between."""
    out = []
    for k in range(0, VS_WINDOW):
        out.append(_vs_case("%sw-%s-k%d" % (tag, be, k), be, 11 + k, 1, 3, 1, vs_window_sched(k)))
    dense = tier != "quick" or bool(tag)
    if True:
        for k in range(0, VS_WINDOW, 1 if dense else 4):
            for j in (range(1, 14) if dense else (4, 8)):
                for m in ((1, 2, 3, 4, 6) if dense else (2,)):
                    out.append(_vs_case("%sw-%s-k%d-j%d-m%d" % (tag, be, k, j, m), be, 11 + k, 1, 3, 1,
                                        vs_window_sched(k, j, m)))
    return out


def gen_vs_random(rng, name, be, tier):
    nh = rng.choice([1, 1, 2, 2, 3, 4])
    onwake = []
    if rng.chance(1, 3):
        onwake.append((rng.choice([1, 1, 2]), 20))
    sched = "rand %d %d 0 0" % (rng.below(1 << 30), rng.choice([15, 40, 70, 90]))
    return _vs_case(name, be, rng.below(1 << 30) + 1, nh, rng.choice([0, 1, 3, 200]), rng.choice([0, 1, 1]), sched, onwake)


def gen_matrix(be):
    """Callback-presence x allocator matrix: every optional callback of the handle (cb_conn, cb_msg - without it
    on_read's default loop drains -, cb_close, cb_release, cb_add_ctx, cb_wake) NULL alone, installed alone, all, none;
    x the allocator: the harness's (pool argument NULL), the library's DEFAULT alloc / free (nothing set; malloc and
    free interposed), a non-NULL pool object that every cb_alloc / cb_free call has to be given back.  One fixed
    history that goes through every release path: 0 accepted, read, closed by its peer (on_close); 1 handed over,
    read, still open at exit (on_clear); 2 accepted but its registration is refused (accept path: cb_free + close);
    3 handed over, gets a burst and its peer's close at once; 4 accepted, read, open at exit; bursts larger than the
    default loop's buffer with a wait for their delivery; exit with everything quiet."""
    out = []
    variants = [ALL_CBS, "-"] + [ALL_CBS.replace(ch, "") for ch in ALL_CBS] + [ch for ch in ALL_CBS]
    for vi, cb in enumerate(variants):
        for ai, al in enumerate(("user", "default", "pool")):
            fam = "unix" if (vi + ai) % 2 else "tcp"
            seed = 1000 + 10 * vi + ai
            lines = ["cfg be=%s fam=%s hints=64 pool=%d seed=%d rbuf=%d workers=0 cbs=%s alloc=%s" % (
                be, fam, vi % 2, seed, [64, 3, 4096][ai], cb, al),
                     "fault add 4:w"]      # add_ctx calls: 1 listener, 2 conn 0, 3 hand 1, 4 conn 2 (refused), 5 hand 3, 6 conn 4
            # bursts of more than the default loop's 1024-byte buffer: without cb_msg on_read has to go on reading
            # until the descriptor is drained (edge-triggered back-end: nobody reports the rest again), also when the
            # burst comes together with the peer's close (context 3)
            steps = ["conn 0", "sync", "hand 1", "sync", "send 0 7 3 4", "send 1 5", "sync", "cclose 0", "sync",
                     "conn 2", "sync", "hand 3", "sync", "conn 4", "send 4 3", "send 1 2", "sync",
                     "send 1 2600", "send 4 2100 1500 600", "await 1", "await 4",
                     "send 3 1500", "cclose 3", "sync", "quiet"]
            out.append(V.Case("m-%s-%s-%s" % (be, cb.replace("-", "none"), al), lines + steps,
                              {"kind": "sock", "be": be, "seed": seed}))
    return out


def gen_pipe(rng, name, tier):
    w = rng.choice([1, 2, 3, 4, 8])
    per = rng.choice([1, 5, 20, 100, 600 if tier == "quick" else 3000])
    psize = rng.choice([0, 0, 4096])
    return V.Case(name, ["pipe writers=%d per=%d seed=%d rfrag=%d wfrag=%d psize=%d" % (
        w, per, rng.below(1 << 30) + 1, rng.choice([0, 1, 2]), rng.choice([0, 1]), psize)],
        {"kind": "pipe", "writers": w, "per": per})


def corpus_cases(ctx):
    out = []
    d = os.path.join(V.VERIF, "corpus", ID)
    if os.path.isdir(d):
        for f in sorted(os.listdir(d)):
            if f.endswith(".case"):
                out.append(V.Case.load(os.path.join(d, f)))
    return out


def generate(rng, tier):
    cases = []
    n = 60 if tier == "quick" else 400
    for be in BACKENDS:
        r = rng.fork("sock/" + be)
        for i in range(n):
            cases.append(gen_socket(r, "s-%s-%d" % (be, i), be, tier))
        # directed: hand-over whose registration fails (poll capacity / injected), queued at exit
        for i in range(4 if tier == "quick" else 20):
            c = gen_socket(r, "h-%s-%d" % (be, i), be, tier, {"nconn": r.range(2, 5), "hints": 2 if be == "poll" else 64})
            cases.append(c)
        for i in range(8 if tier == "quick" else 40):
            cases.append(gen_burst(r, "b-%s-%d" % (be, i), be, tier))
        for i in range(10 if tier == "quick" else 50):
            cases.append(gen_hup(r, "u-%s-%d" % (be, i), be, tier))
        for i in range(3 if tier == "quick" else 12):
            cases.append(gen_shutexit(r, "x-%s-%d" % (be, i), be, tier))
        for i in range(6 if tier == "quick" else 40):
            cases.append(gen_wakehand(r, "k-%s-%d" % (be, i), be, tier))
        cases += gen_matrix(be)
        cases += gen_windows(be, tier)
        for i in range(40 if tier == "quick" else 1500):
            cases.append(gen_vs_random(r, "v-%s-%d" % (be, i), be, tier))
    r = rng.fork("pipe")
    for i in range(12 if tier == "quick" else 80):
        cases.append(gen_pipe(r, "p-%d" % i, tier))
    return cases


def search(rng, diverging, tier):
    out = []
    for be in BACKENDS:
        for i in range(60):
            out.append(gen_socket(rng, "search-%s-%d" % (be, i), be, tier))
        for i in range(20):
            out.append(gen_burst(rng, "search-b-%s-%d" % (be, i), be, tier))
        for i in range(20):
            out.append(gen_hup(rng, "search-u-%s-%d" % (be, i), be, tier))
        for i in range(10):
            out.append(gen_shutexit(rng, "search-x-%s-%d" % (be, i), be, tier))
        for i in range(12):
            out.append(gen_wakehand(rng, "search-k-%s-%d" % (be, i), be, tier))
        out += gen_matrix(be)
        out += gen_windows(be, tier, tag="search-")
        for i in range(200):
            out.append(gen_vs_random(rng, "search-v-%s-%d" % (be, i), be, tier))
    for i in range(20):
        out.append(gen_pipe(rng, "search-p-%d" % i, tier))
    return out


# --------------------------------------------------------------------------
# model side: the acceptor gets the script and the implementation's log

def model_cases(cases, impl_results):
    out = []
    for c in cases:
        r = impl_results.get(c.name)
        lines = list(c.lines) + ["TRACE"] + (list(r["lines"]) if r else [])
        out.append(V.Case(c.name, lines, c.meta))
    return out


# --------------------------------------------------------------------------
# independent monitor: ownership automaton per context, byte equality per connection,
# pipe multiset / per-writer order, accounting

class _Ctx:
    __slots__ = ("by", "conn", "handed", "reg", "ann", "closecb", "rel", "relby", "fdc", "free", "holds",
                 "got", "eof", "shut", "loopheld", "wzero", "freed_line", "hand_at", "handed_at", "rderr", "sig_at", "annpt")

    def __init__(self, by, conn):
        self.by, self.conn = by, conn
        self.handed = False
        self.hand_at = self.handed_at = None     # log lines of "hand" (before add_ctx) / "handed" (after it returned)
        self.sig_at = None                       # log line of its wake-up write ("sigw <id>": enqueue done, signal written)
        self.reg = None
        self.annpt = 0          # the announcement point was passed (cb_conn / cb_add_ctx ran, or is not installed)
        self.ann = self.closecb = self.rel = self.fdc = self.free = 0
        self.relby = None
        self.holds = {}
        self.got = bytearray()
        self.eof = False
        self.rderr = False
        self.shut = False
        self.loopheld = 1        # the loop side (queue / ctx_list / pending release) still owns a reference
        self.wzero = False
        self.freed_line = None


DISPATCH_OPS = {"addctx", "accepterr", "accepted", "allocfail", "alloc", "conn", "msg", "rd", "shut", "retain",
                "close", "exitreq", "wake", "stalled", "unstall", "halfclose", "sigr", "idle"}
LOOP_OPS = {"reg", "addctx", "accepterr", "accepted", "allocfail", "alloc", "conn", "free", "msg", "rd", "shut",
            "retain", "close", "release", "exitreq", "wake", "stalled", "unstall", "halfclose", "sigr", "idle"}
# lines only the script thread (or, in a scheduled scenario, a thread that is not pre-empted between the line and
# the call it announces) writes: one of them after a "send" line means that send has returned
SCRIPT_OPS = {"send", "cclose", "creset", "cconn", "cfail", "sendfail", "await", "xexit", "quiet"}


def monitor(case, lines):
    if not lines:
        return "no output"
    # a wait of the harness that nothing ended (machine too loaded, or a harness defect): no verdict, never a violation
    if any(ln.startswith("INCONCLUSIVE") for ln in lines):
        return None
    if case.lines and case.lines[0].startswith("pipe"):
        for ln in lines:
            if ln.startswith(("HANG", "LOGOVERFLOW", "SETUPFAIL", "EXN")):
                return "driver reported: " + ln
        return _monitor_pipe(case, lines)
    lines = canon(lines)
    for ln in lines:
        if ln.startswith(("HANG", "LOGOVERFLOW", "SETUPFAIL", "EXN")):
            return "driver reported: " + ln
        if ln.startswith(("DEADLOCK", "LIVELOCK")):
            return "scheduled scenario did not finish: " + ln
    return _monitor_sock(case, lines)


def _kv(line, key, dflt=None):
    m = re.search(r"(?:^| )%s=(\S+)" % key, line)
    return m.group(1) if m else dflt


def _monitor_pipe(case, lines):
    writers = int(_kv(case.lines[0], "writers", "1"))
    per = int(_kv(case.lines[0], "per", "1"))
    nxt = [0] * writers
    done = None
    for n, ln in enumerate(lines):
        w = ln.split()
        if not w:
            continue
        if w[0] == "pr":
            a, i = int(w[1]), int(w[2])
            if not (0 <= a < writers):
                return "line %d: pointer from unknown writer read from the pipe: %s" % (n, ln)
            if i != nxt[a]:
                return "line %d: writer %d's pointer #%d delivered when #%d was due (%s)" % (
                    n, a, i, nxt[a], "duplicate or out of order" if i < nxt[a] else "lost pointer")
            nxt[a] += 1
        elif w[0] == "pwfail":
            return "line %d: pipe write failed: %s" % (n, ln)
        elif w[0] == "pdone":
            done = int(w[1])
        elif w[0] == "F":
            e = _check_f(ln)
            if e:
                return e
    if done is None:
        return "pipe run did not finish"
    if nxt != [per] * writers:
        return "pipe: delivered per writer %s, written %d each (lost pointers)" % (nxt, per)
    return None


def _check_f(ln):
    for key in ("heap_delta", "fd_delta", "badclose"):
        v = _kv(ln, key)
        if v is not None and int(v) != 0:
            return "accounting at exit: %s=%s (%s)" % (key, v, ln)
    a, f, lt = _kv(ln, "alloc"), _kv(ln, "freed"), _kv(ln, "late", "0")
    if a is not None and int(a) != int(f) + int(lt):
        return "accounting at exit: %s contexts allocated, %s freed (+ %s taken back after a late hand-over)" % (a, f, lt)
    return None


ALL_CBS = "cmlraw"       # cb_conn cb_msg cb_close(l) cb_release cb_add_ctx cb_wake


def _cbs(case):
    v = _kv(case.lines[0], "cbs") if case.lines else None
    return set(ALL_CBS) if v is None else set(v.replace("-", ""))


def _monitor_sock(case, lines):
    seed = int(_kv(case.lines[0], "seed", "1"))
    F = _cbs(case)           # which optional callbacks of the handle this case installs
    ctxs = {}
    sent = {}          # conn -> bytearray logged as sent so far
    exiting = False          # an exit request was logged
    clearing = False         # the run loop has left: a registered, not closed context was released
    returned = False
    nextid = 0
    seenF = 0
    wakes = []               # log lines of cb_wake = ends of on_wake
    peer_closed, peer_reset = set(), set()     # connections whose client end closed gracefully / with a reset
    sent_done = {}           # conn -> bytes whose send() has returned (a later line of the sending side exists)
    send_open = None         # conn of the last "send" line not yet known to have returned
    vs = bool(case.lines) and case.lines[0].startswith("vs ")
    leave_at = None          # first line showing that the loop was asked to leave / has left its run loop

    def bad(n, msg):
        return "line %d (%s): %s" % (n, lines[n], msg)

    for n, ln in enumerate(lines):
        w = ln.split()
        if not w:
            continue
        op = w[0]
        if op == "F":
            e = _check_f(ln)
            if e:
                return e
            seenF += 1
            continue
        if op == "badclose":
            return bad(n, "close() failed: descriptor closed twice or never open")
        if op in SCRIPT_OPS and send_open is not None:
            sent_done[send_open] = len(sent.get(send_open, b""))
            send_open = None
        if returned and op in LOOP_OPS:
            return bad(n, "loop-thread activity after muggle_evloop_run returned")
        if clearing and op in DISPATCH_OPS:
            return bad(n, "dispatch callback after the run loop started clearing its contexts")
        cid = None
        if op == "sigw" and w[1] == "x":
            continue
        if op == "sigwfail":
            return bad(n, "the wake-up write to the event signal failed")
        if op == "badpool":
            return bad(n, "cb_alloc / cb_free was called with a pool argument that is not the one given to "
                          "muggle_socket_evloop_handle_set_alloc_free")
        cbletter = {"conn": "c", "msg": "m", "close": "l", "release": "r", "addctx": "a", "wake": "w"}.get(op)
        if cbletter is not None and cbletter not in F:
            return bad(n, "callback invoked although the case did not install it")
        if op in ("hand", "handed", "reg", "addctx", "alloc", "conn", "free", "msg", "rd", "shut", "retain", "close", "release",
                  "wrel", "wrelease", "wfree", "wshut", "halloc", "fdclose", "accepterr", "halfclose", "sigw", "late", "latefree",
                  "conn0", "addctx0"):
            if w[1] == "new":
                continue
            try:
                cid = int(w[1])
            except ValueError:
                return bad(n, "unparsable context id")
            if cid < 0:
                return bad(n, "callback on a pointer that is not a live context (use after free)")
        if op in ("alloc", "halloc"):
            if cid != nextid:
                return bad(n, "context ids out of order")
            nextid += 1
            if op == "alloc":
                ctxs[cid] = _Ctx("accept", None)
            else:
                ctxs[cid] = _Ctx("user", None if w[2] == "L" else int(w[2]))
            continue
        if cid is not None:
            c = ctxs.get(cid)
            if c is None:
                return bad(n, "unknown context")
            # "handed" only records that muggle_socket_evloop_add_ctx has returned in the handing thread: the loop
            # may already have registered, closed and freed the context by then
            if op not in ("handed", "sigw") and c.free and not (op == "fdclose" and c.by == "accept" and c.reg == -1 and c.fdc == 0):
                return bad(n, "context used after it was freed (freed at line %s)" % c.freed_line)
            if c.rel and op in ("msg", "rd", "close", "addctx", "conn", "retain", "shut", "halfclose", "reg", "hand", "release",
                                "wrelease", "wshut", "wrel", "conn0", "addctx0"):
                return bad(n, "context used after release")
        if op == "hand":
            if c.by != "user" or c.handed:
                return bad(n, "hand-over of a context that is not a fresh user context")
            c.handed = True
            c.hand_at = n
        elif op == "handed":
            if not c.handed or c.handed_at is not None:
                return bad(n, "hand-over completed twice or never started")
            c.handed_at = n
        elif op == "late":
            # still in the hand-over queue after run() returned; the driver (its owner) takes it back.  Legitimate only
            # for a hand-over that lost the race with the end of the loop: one that was complete before the loop was
            # asked to leave (or started clearing) had to be released by on_exit
            if c.by != "user" or not c.handed or c.reg is not None or c.rel:
                return bad(n, "context reported as still queued although it was registered / released / never handed over")
            if not returned:
                return bad(n, "hand-over queue inspected before muggle_evloop_run returned")
            done_at = c.sig_at if c.sig_at is not None else c.handed_at
            if done_at is not None and leave_at is not None and done_at < leave_at:
                return bad(n, "context %d was handed over (line %d) before the loop was asked to leave (line %d) and is still "
                              "queued after muggle_evloop_run returned: on_exit did not release it" % (cid, done_at, leave_at))
            c.rel, c.relby, c.loopheld = 1, "late", 0
        elif op == "latefree":
            if c.relby != "late" or not c.fdc or c.free:
                return bad(n, "late context freed out of order")
            c.free = 1
            c.freed_line = n
        elif op == "sigw":
            # the wake-up write of this context's hand-over: enqueued and signalled from here on
            if not c.handed or c.sig_at is not None:
                return bad(n, "wake-up write of a hand-over that was not started / written twice")
            c.sig_at = n
        elif op == "idle":
            # LIVENESS: the loop thread's wait found nothing ready and it blocks.  Every hand-over whose wake-up
            # was written before this point has been taken from the queue (registered + announced, or released
            # when its registration failed), and every byte whose send() had returned before this point and that
            # went to a registered, open, handed-over context has been given to cb_msg.
            if not clearing and not returned:
                for d, x in sorted(ctxs.items()):
                    if x.by != "user" or not x.handed:
                        continue
                    done_at = x.sig_at if x.sig_at is not None else x.handed_at
                    if done_at is not None and x.reg is None and not x.rel:
                        return bad(n, "lost wake-up: context %d was handed over (enqueued and wake-up written at line %d) "
                                      "and is still queued - not registered, never announced - while the loop thread goes to "
                                      "sleep with nothing ready" % (d, done_at))
                    if x.reg == 0 and not x.annpt:
                        return bad(n, "context %d is registered but was not announced before the loop thread went to sleep" % d)
                    if (x.reg == 0 and x.annpt and x.conn is not None and not x.shut and not x.closecb and not x.rel
                            and not x.rderr and not x.eof and x.conn not in peer_reset
                            and len(x.got) < sent_done.get(x.conn, 0)):
                        return bad(n, "context %d (handed over, registered, open): %d of the %d bytes written to it are not "
                                      "delivered although the loop thread goes to sleep with nothing ready" % (
                                          d, sent_done.get(x.conn, 0) - len(x.got), sent_done.get(x.conn, 0)))
        elif op == "wake":
            # on_wake drains the whole queue: a context whose hand-over had returned before the previous
            # on_wake ended was in the queue when this on_wake took the mutex
            if wakes:
                for d, x in sorted(ctxs.items()):
                    if x.by == "user" and x.handed_at is not None and x.handed_at < wakes[-1] and x.reg is None and not x.rel:
                        return bad(n, "context %d was handed over (line %d) before the previous wake-up handling ended "
                                      "(line %d) and is still not registered after this one: on_wake left it queued" % (
                                          d, x.handed_at, wakes[-1]))
            wakes.append(n)
        elif op == "await":
            k, got_, sent_ = int(w[1]), int(w[2]), int(w[3])
            if got_ < sent_ and not exiting and not clearing and not returned:
                for d, x in sorted(ctxs.items()):
                    if x.conn == k and (x.by == "user" or x.annpt) and x.reg != -1 and not x.shut and not x.closecb and not x.rel:
                        return bad(n, "context %d (%s): %d of %d bytes sent to it were not delivered while the loop was "
                                      "running (registered=%s announced=%d)" % (
                                          d, "handed over" if x.by == "user" else "accepted", sent_ - got_, sent_, x.reg, x.ann))
        elif op == "reg":
            if c.by == "user":
                # the queue is FIFO: nothing enqueued earlier may still be waiting
                for d, x in sorted(ctxs.items()):
                    if (x.by == "user" and d != cid and x.handed_at is not None and c.hand_at is not None
                            and x.handed_at < c.hand_at and x.reg is None and not x.rel):
                        return bad(n, "context %d registered although context %d, handed over earlier, is still queued" % (cid, d))
            if c.reg is not None:
                return bad(n, "context registered twice")
            if c.by == "user" and not c.handed:
                return bad(n, "registration of a context that was never handed over")
            c.reg = int(w[2])
        elif op in ("addctx", "conn"):
            if c.ann:
                return bad(n, "context announced twice")
            if c.reg != 0:
                return bad(n, "context announced although its registration %s" % (
                    "failed" if c.reg is not None else "has not happened"))
            if (op == "addctx") != (c.by == "user"):
                return bad(n, "wrong announcement callback for this context")
            c.ann = 1
            c.annpt = 1
            if op == "conn":
                c.conn = int(w[2]) if int(w[2]) >= 0 else None
        elif op in ("addctx0", "conn0"):
            # the registration succeeded and the announcement callback of this path is not installed: the point
            # where it would have run (logged by the harness right after muggle_evloop_add_ctx returned 0)
            if ("a" if op == "addctx0" else "c") in F:
                return bad(n, "registration not followed by its announcement callback although it is installed")
            if c.annpt:
                return bad(n, "announcement point passed twice")
            if c.reg != 0:
                return bad(n, "announcement point of a context whose registration %s" % (
                    "failed" if c.reg is not None else "has not happened"))
            if (op == "addctx0") != (c.by == "user"):
                return bad(n, "wrong announcement path for this context")
            c.annpt = 1
            if op == "conn0":
                c.conn = int(w[2]) if int(w[2]) >= 0 else None
        elif op in ("msg", "rd", "shut", "retain", "halfclose"):
            if not c.annpt:
                return bad(n, "callback on / read of a context that was never announced")
            if c.closecb:
                return bad(n, "callback after cb_close")
            if op == "rd":
                if w[2] == "eof":
                    c.eof = True
                    if (c.conn is not None and not c.shut and c.conn not in peer_reset
                            and bytes(c.got) != bytes(sent.get(c.conn, b""))):
                        return bad(n, "end of stream after %d bytes but the peer sent %d: bytes lost" % (
                            len(c.got), len(sent.get(c.conn, b""))))
                elif w[2] == "err":
                    c.rderr = True
                else:
                    c.got += bytes.fromhex(w[2])
                    s = sent.get(c.conn, b"") if c.conn is not None else b""
                    if bytes(c.got) != bytes(s[:len(c.got)]):
                        return bad(n, "bytes handed to cb_msg differ from the bytes sent (offset %d)" % (
                            len(c.got) - len(bytes.fromhex(w[2]))))
            elif op == "shut":
                c.shut = True
            elif op == "retain":
                r, wk = int(w[3]), int(w[2])
                exp = c.loopheld + sum(c.holds.values()) + 1
                if r != exp:
                    return bad(n, "retain returned %d, owners say %d" % (r, exp))
                c.holds[wk] = c.holds.get(wk, 0) + 1
        elif op == "close":
            if c.closecb:
                return bad(n, "cb_close invoked twice")
            if c.reg != 0:
                return bad(n, "cb_close on a context that is not registered")
            # a context that nobody shut down locally, whose reads never failed and whose connection was
            # not reset is closed because its peer closed: everything the peer wrote before closing was
            # readable and must have been handed to cb_msg before cb_close
            if (c.conn is not None and c.conn in peer_closed and c.conn not in peer_reset
                    and not c.shut and not c.rderr and bytes(c.got) != bytes(sent.get(c.conn, b""))):
                return bad(n, "cb_close after the peer's close with %d of the %d bytes it had sent never handed to cb_msg "
                              "(read %d)" % (len(sent.get(c.conn, b"")) - len(c.got), len(sent.get(c.conn, b"")), len(c.got)))
            c.closecb = 1
        elif op == "release":
            if c.rel:
                return bad(n, "released twice")
            if sum(c.holds.values()) > 0:
                return bad(n, "cb_release while a worker still holds a reference")
            if not (c.closecb or c.reg == -1) and "l" in F:
                # on_clear / on_exit: the run loop has ended (exit request, or a back-end error)
                if not (c.reg == 0 or c.handed):
                    return bad(n, "cb_release of a context the loop never owned")
                clearing = True
                if leave_at is None:
                    leave_at = n
            if c.loopheld == 0:
                return bad(n, "loop released a context it no longer owned")
            c.rel, c.relby, c.loopheld = 1, "loop", 0
        elif op == "wrel":
            wk, r = int(w[2]), int(w[3])
            if c.holds.get(wk, 0) <= 0:
                return bad(n, "worker releases a context it does not hold")
            c.holds[wk] -= 1
            others = sum(c.holds.values())
            if c.loopheld == 1 and (exiting or clearing or c.closecb or returned or "l" not in F):
                # the loop's own (silent) release may or may not have happened: the value tells
                if r == others:
                    c.loopheld = 0
                elif r != others + 1:
                    return bad(n, "release returned %d with %d other worker holds" % (r, others))
            elif r != others + c.loopheld:
                return bad(n, "release returned %d, owners say %d" % (r, others + c.loopheld))
            if r == 0:
                c.wzero = True
        elif op == "wrelease":
            if not c.wzero or c.rel:
                return bad(n, "worker-side release duty without a release that returned 0")
            c.rel, c.relby = 1, "worker"
        elif op == "wshut":
            if c.holds.get(int(w[2]), 0) <= 0:
                return bad(n, "worker shuts down a context it does not hold")
            c.shut = True
        elif op == "fdclose":
            if c.fdc:
                return bad(n, "descriptor closed twice")
            if ("r" not in F and not c.rel and not c.wzero and c.relby is None
                    and not (c.by == "accept" and c.reg == -1 and not c.annpt)):
                # no cb_release installed: the loop side's release point shows only through the close that follows it
                if sum(c.holds.values()) > 0:
                    return bad(n, "loop side closes the descriptor while a worker still holds a reference")
                if c.loopheld == 0:
                    return bad(n, "loop released a context it no longer owned")
                if "l" in F and not c.closecb and c.reg != -1:
                    if not (c.reg == 0 or c.handed):
                        return bad(n, "release of a context the loop never owned")
                    clearing = True
                    if leave_at is None:
                        leave_at = n
                c.rel, c.relby, c.loopheld = 1, "loop", 0
            if not (c.rel or (c.by == "accept" and c.reg == -1 and c.free)):
                return bad(n, "descriptor closed before release")
            c.fdc = 1
        elif op in ("free", "wfree"):
            if c.free:
                return bad(n, "freed twice")
            if c.by == "accept" and c.reg == -1 and not c.ann and op == "free":
                pass
            elif not (c.rel and c.fdc):
                return bad(n, "freed before release and close")
            elif (op == "wfree") != (c.relby == "worker"):
                return bad(n, "freed by the wrong party")
            if sum(c.holds.values()) > 0:
                return bad(n, "freed while a worker still holds a reference")
            c.free = 1
            c.freed_line = n
        elif op == "send":
            k = int(w[1])
            b = bytes.fromhex(w[2]) if len(w) > 2 else b""
            cur = sent.setdefault(k, bytearray())
            exp = bytes(pay(seed, k, len(cur) + j) for j in range(len(b)))
            if b != exp:
                return bad(n, "driver sent bytes that are not the scripted payload")
            cur += b
            if vs:
                sent_done[k] = len(cur)        # no pre-emption between the line and the write of a scheduled thread
            else:
                send_open = k
        elif op == "cclose":
            peer_closed.add(int(w[1]))
        elif op == "creset":
            peer_reset.add(int(w[1]))
        elif op in ("exitreq", "xexit"):
            exiting = True
            if leave_at is None:
                leave_at = n
        elif op == "returned":
            returned = True
    if not returned:
        return "muggle_evloop_run did not return"
    if seenF < 2:
        return "accounting lines missing"
    for cid, c in sorted(ctxs.items()):
        if c.free != 1:
            return "context %d (%s, conn %s) was never freed: leaked (registered=%s announced=%d closed=%d released=%d)" % (
                cid, c.by, c.conn, c.reg, c.ann, c.closecb, c.rel)
        if c.fdc != 1:
            return "context %d: descriptor never closed" % cid
        if c.annpt and c.rel != 1:
            return "context %d announced but never released" % cid
        if sum(c.holds.values()) != 0:
            return "context %d: worker hold outstanding at the end" % cid
    return None


# --------------------------------------------------------------------------

def _sig_windows(lines):
    """hand-over wake-ups written (a) inside a wake-up handling (between its clear-up and its cb_wake), (b) after
    cb_wake and before the loop thread's next clear-up / empty wait"""
    inside = after = 0
    state = 0        # 0 outside, 1 between sigr and wake, 2 after wake
    for l in lines:
        w = l.split()
        if not w:
            continue
        if w[0] == "sigr":
            state = 1
        elif w[0] == "wake":
            state = 2
        elif w[0] == "idle":
            state = 0
        elif w[0] == "sigw" and w[1] != "x":
            if state == 1:
                inside += 1
            elif state == 2:
                after += 1
    return inside, after


def nontrivial_key(case, lines):
    lines = canon(lines)
    t = "\n".join(lines)
    if any(k in t for k in ("allocfail", " -1", "wrel ", "accepterr", "R again", "stalled")) or len(lines) > 40:
        return t
    if sum(_sig_windows(lines)) > 0:
        return t
    return None


def tally(dist, case, lines):
    def inc(k, d=1):
        dist[k] = dist.get(k, 0) + d
    head = case.lines[0] if case.lines else ""
    if head.startswith("pipe"):
        inc("pipe_cases")
        inc("pipe_pointers", sum(1 for l in lines if l.startswith("pr ")))
        inc("pipe_partial_reads", sum(1 for l in lines if l.startswith("R ") and len(l) < 18))
        inc("pipe_eintr_injected", sum(1 for l in lines if l.endswith(" intr")))
        if any(l.startswith("INCONCLUSIVE") for l in lines):
            inc("inconclusive_cases_no_verdict")
        return
    lines = canon(lines)
    if any(l.startswith("INCONCLUSIVE") for l in lines):
        inc("inconclusive_cases_no_verdict")
    inc("late_handovers_taken_back", sum(1 for l in lines if l.startswith("late ")))
    inc("backend=%s" % _kv(head, "be"))
    if head.startswith("vs "):
        inc("scheduled_scenarios")
    else:
        inc("family=%s" % _kv(head, "fam"))
    if " onwake=" in head:
        inc("wake_callback_handover_cases")
    if " cbs=" in head:
        inc("callback_matrix_cases")
        for ch in ALL_CBS:
            if ch not in _cbs(case):
                inc("cases_without_cb_%s" % {"c": "conn", "m": "msg", "l": "close", "r": "release", "a": "add_ctx", "w": "wake"}[ch])
    inc("allocator=%s" % (_kv(head, "alloc") or "user"))
    a, b = _sig_windows(lines)
    inc("handover_wakeups_inside_a_wake_handling", a)
    inc("handover_wakeups_after_wake_callback_before_next_wait", b)
    inc("loop_sleeps_observed", sum(1 for l in lines if l == "idle"))
    nregs, users = 0, set()
    for l in lines:
        w = l.split()
        if not w:
            continue
        if w[0] in ("alloc", "halloc"):
            inc("contexts")
        elif w[0] == "allocfail":
            inc("accept_alloc_failures")
        elif w[0] == "accepterr":
            inc("accept_errors")
        elif w[0] == "reg" and w[2] != "0":
            inc("registration_failures")
        elif w[0] == "rd" and w[2] not in ("eof", "err"):
            inc("read_fragments")
            inc("bytes_delivered", len(w[2]) // 2)
        elif w[0] == "retain":
            inc("worker_retains")
        elif w[0] == "wrel" and w[3] == "0":
            inc("last_release_by_worker")
        elif w[0] == "release":
            inc("last_release_by_loop")
        elif w[0] in ("exitreq", "xexit"):
            inc("exit_" + w[0])
        elif w[0] == "wake":
            inc("wakeups_handled")
            if nregs >= 2:
                inc("wakeups_draining_2_or_more")
            nregs = 0
        if w[0] == "halloc":
            users.add(w[1])
        if w[0] == "reg" and w[1] in users:
            nregs += 1


MANIFEST = {
    "level_text": ("Unbounded Coq theorems over an executable life-cycle model of socket_evloop_handle.c (accept loop with "
                   "its three failure branches, hand-over queue, on_wake in the repaired form, on_close / on_clear / "
                   "on_exit, release_ctx over C04's saturating counter, worker retains) and of socket_evloop_pipe.c "
                   "(spin-locked whole-pointer writes, reassembling reads): for every history each context is announced "
                   "at most once, the bytes given to cb_msg are a prefix of the bytes sent and all of them at end of "
                   "stream, cb_close / cb_release / descriptor close / free happen at most once and free only at count "
                   "zero, nothing touches a released context, every context is freed once the loop has returned and the "
                   "workers have released; on_wake cannot end before the hand-over queue is empty and takes it in queue "
                   "order, however many add_ctx calls coalesced into the wake-up; for every interleaving a queued context has "
                   "its signaller in flight, or the event signal set, or a wake-up handling in progress that has cleared "
                   "the signal and not yet drained the queue, or the loop leaving (on_exit drains), hence the loop thread "
                   "never blocks with a completed hand-over still queued, while the variant that clears the signal after "
                   "the wake callback is refuted; a hang-up closes an unflagged context only "
                   "after every byte the peer sent was handed to cb_msg; the pipe delivers exactly the completed "
                   "writes in lock order. Tied to the "
                   "code by trace inclusion of the real callback log (loopback TCP / UNIX sockets, real threads, and "
                   "scheduler-controlled window sweeps; signal writes / reads and the loop thread's empty waits are part "
                   "of the log; ASan) in the extracted model, plus an independent ownership / byte-equality / accounting / "
                   "no-lost-wake-up monitor."),
    "design_ref": "DESIGN.md section 6 / C15",
    "level_note": ("Trusted: Coq kernel, extraction, the trace acceptor and harness; kernel socket/pipe semantics and the "
                   "back-ends' readiness are an oracle; counter atomicity is C04's theorem."),
    "technique": "Coq invariants over an event-labelled transition system + trace inclusion of real runs + independent monitor",
}



def extra_violations(ctx, stats):
    """muggle/c/sync/ref_cnt.c is an anchor of C15 and sock_freed_exactly_once_at_zero rests on
    C04's linearizability theorem for it.  The socket scenarios run real threads and rarely
    contend on a counter, so the retain/release scenarios of C04 (deterministic scheduler, trace
    monitor) are run here as well: a counter that loses updates under contention is a C15 violation
    (context freed while held / never freed)."""
    import os
    import props.c04 as C4
    exe = C4.build_driver(ID, out_name="refcnt_driver")
    cases = [c for c in C4.generate(ctx.rng.fork("refcnt"), ctx.tier) if c.lines[0].startswith("refcnt")]
    res = V.run_batch(exe, cases, per_case_timeout=120.0)
    out = []
    for c in cases:
        r = res.get(c.name)
        if not r or r["status"] == "skipped":
            continue
        stats["evaluations"] += 1
        stats["dist"]["refcnt_scenarios"] = stats["dist"].get("refcnt_scenarios", 0) + 1
        msg = ("implementation %s: %s" % (r["status"], r["detail"])) if r["status"] != "ok" else C4.monitor(c, r["lines"])
        if msg:
            path = c.save(os.path.join(ctx.replay_dir, "refcnt-%s.case" % c.name),
                          header=["property=C15 (reference counter scenario of C04; replay with: bin/check C04 --replay <file>)",
                                  "monitor: %s" % msg])
            out.append((path, "reference counter: " + msg))
            if len(out) >= 3:
                break
    return out
