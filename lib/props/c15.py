"""C15 — socket contexts (announced once, bytes in order, closed/released/freed exactly once at
zero, no use after release, no leak at exit) and the event-loop pipe: plugin for bin/check."""
import os
import re
import vcommon as V

ID = "C15"
COQ_DIRS = ["C15"]
MODEL_BASE = "c15_model"
OCAML_DRIVER = "ocaml/c15_driver.ml"
C_DRIVER = "harness/drivers/c15_driver.c"
EXTRA_C = ["harness/c15_shim.c"]
WRAPS = ["muggle_evloop_add_ctx", "close", "accept", "read", "write", "malloc", "free", "calloc", "realloc"]
LINK_FLAGS = ["-Wl,--wrap=" + w for w in WRAPS]
HEADER_LINES = 1
CASE_TIMEOUT = 12.0
MODEL_CASE_TIMEOUT = 30.0
SHRINK_BUDGET = 60
PROOF_TIMEOUT = 2400


def _sources():
    return [s for s in V.all_repo_sources()
            if not s.startswith("muggle/c/crypt/") and not s.startswith("muggle/c/encoding/")]


REPO_SOURCES = _sources()

RULE = ("seeded random scenarios on real loopback TCP / UNIX sockets and real threads: 1..32 connections (accepted or "
        "handed over from another thread), random payload sizes and write fragmentation (TCP_NODELAY + yields), random "
        "server read-buffer sizes, client / server / worker-side close order, extra retains held by worker threads, "
        "injected cb_alloc / muggle_evloop_add_ctx (wrapped or node-allocation) / accept failures and natural poll "
        "capacity rejection, exit from the loop thread, from another thread, or with a context still queued; bursts of "
        "2..4 hand-overs from one or several threads whose wake-ups coalesce (before the loop thread exists / while it "
        "is held in a callback) followed by data to each and a bounded wait for delivery; peers that write 1 byte .. "
        "several read buffers and close at once / reply after a local half-close / reset with data queued while the "
        "loop thread is held, so that data and hang-up arrive in one readiness report (AF_UNIX pairs, AF_UNIX and TCP "
        "accepted, registered before or after); a callback that shuts another context down and exits; each on "
        "select, poll and epoll; event-loop pipe: 1..8 writer threads, injected partial reads / writes / EAGAIN; "
        "non-trivial = the log contains a failure branch, a worker release, or a fragmented read; distinct = distinct log text")
TRUSTED_BASE = [
    "modelled, not verified: kernel socket semantics (per-connection FIFO byte stream, EOF after the peer's close, "
    "readiness reporting of select/poll/epoll; the dispatch step is the shape the three loops share: readable => "
    "cb_read first, CLOSED flag tested afterwards; a reset may drop queued bytes), accept errors other than the three branches in the code, the "
    "spinlock (C04) and the kernel pipe as an atomic FIFO per write(2) call",
    "the reference counter is the sequential saturating counter rspec of C04/Model.v; its use as an atomic step is "
    "justified by C04's refcnt_linearizable (imported, not re-proved)",
    "tie = trace inclusion: the extracted model replays the implementation's callback log (ocaml/c15_driver.ml); silent "
    "steps (a release that does not reach zero, leaving the run loop, on_wake taking / releasing the queue mutex) are "
    "inferred by the acceptor; the enqueue of a hand-over is placed between its 'hand' and 'handed' log lines",
    "harness/c15_shim.c interposers (-Wl,--wrap) for muggle_evloop_add_ctx, close, accept, read, write, malloc family",
]
ASSUMPTIONS = [
    "documented usage: every worker retain is paired with exactly one release; the thread whose release returns 0 "
    "calls the release duty (user data, muggle_socket_ctx_close, free); contexts are handed over only while the "
    "loop has not finished draining (no hand-over after run() returned); one reader on the pipe; callbacks do not block",
]
EVIDENCE_NOTES = [
    "on_wake is modelled in the repaired form of fixes/C14-add-ctx-failure.patch (registration failure => release_ctx, "
    "no cb_add_ctx); on the unchanged tree the monitor reports the leak and the acceptor rejects the addctx line",
    "observation (outside C15's statement): with the epoll back-end (edge-triggered) the accept loop returns after a "
    "cb_alloc / add_ctx failure without draining the backlog, so already-queued connections are accepted only when a "
    "further connection arrives",
]

BACKENDS = ["select", "poll", "epoll"]
M64 = 0xFFFFFFFFFFFFFFFF


def pay(seed, k, j):
    x = (seed * 0x9E3779B97F4A7C15 + (k + 1) * 0xBF58476D1CE4E5B9 + (j + 1) * 0x94D049BB133111EB) & M64
    x ^= x >> 29
    x = (x * 0xBF58476D1CE4E5B9) & M64
    x ^= x >> 32
    return x & 0xFF


# --------------------------------------------------------------------------
# generator

def _chunks(rng, n):
    if n <= 1 or rng.chance(1, 3):
        return []
    out, left = [], n
    while left > 0 and len(out) < 40:
        c = rng.choice([1, 1, 2, 3, 5, 8, 13, 64, 500])
        c = min(c, left)
        out.append(c)
        left -= c
    return out


def gen_socket(rng, name, be, tier, force=None):
    force = force or {}
    fam = force.get("fam", rng.choice(["tcp", "unix"]))
    big = tier == "thorough"
    nconn = force.get("nconn", rng.choice([1, 1, 2, 2, 3, 4, 5, 8, 12, 32 if rng.chance(1, 3) else 6]))
    hints = force.get("hints", rng.choice([64, 64, 64, 8, 4, 2, 40]))
    pool = rng.choice([0, 0, 1])
    rbuf = rng.choice([1, 3, 7, 16, 64, 4096])
    workers = rng.choice([0, 1, 2, 3])
    seed = rng.below(1 << 30) + 1
    lines = ["cfg be=%s fam=%s hints=%d pool=%d seed=%d rbuf=%d workers=%d" % (be, fam, hints, pool, seed, rbuf, workers)]
    # faults
    if force.get("faults", True):
        if rng.chance(1, 4):
            lines.append("fault alloc " + " ".join(str(rng.range(1, max(1, nconn))) for _ in range(rng.range(1, 2))))
        if rng.chance(1, 3):
            # index 1 is the listener's own registration
            idx = sorted(set(rng.range(1 if rng.chance(1, 6) else 2, nconn + 2) for _ in range(rng.range(1, 3))))
            lines.append("fault add " + " ".join("%d:%s" % (i, rng.choice("wm")) for i in idx))
        if rng.chance(1, 10):
            lines.append("fault accept %d" % rng.range(1, nconn + 1))
    handed = set(k for k in range(nconn) if rng.chance(1, 5))
    size = {}
    for k in range(nconn):
        size[k] = rng.choice([0, 1, 7, 8, 9, 64, 200, 1000, 4000 if nconn <= 8 else 300,
                              (60000 if big else 9000) if nconn <= 3 else 100])
    if max(size.values()) > 20000:
        rbuf = 4096          # keeps the number of logged read fragments (and the acceptor's work) bounded
    elif max(size.values()) > 2000:
        rbuf = max(rbuf, 64)
    lines[0] = "cfg be=%s fam=%s hints=%d pool=%d seed=%d rbuf=%d workers=%d" % (be, fam, hints, pool, seed, rbuf, workers)
    # triggers
    exit_conn = None
    mode = force.get("exit", rng.choice(["end", "end", "xmid", "trig", "handexit", "trig"]))
    for k in range(nconn):
        if workers and rng.chance(1, 2):
            for _ in range(rng.range(1, 2)):
                lines.append("trig %d %d retain %d" % (k, rng.range(0, size[k]), rng.below(workers)))
        if rng.chance(1, 6):
            # select back-end before its fix (13141b0): a context registered and shut down in the same dispatch
            # pass left its descriptor in allset and the loop exited on EBADF (C13's territory; C15's model and
            # monitor accept a loop that leaves on a back-end error) -> keep threshold >= 1 there
            lo = 1 if be == "select" else 0
            if size[k] >= lo:
                lines.append("trig %d %d shut" % (k, rng.range(lo, size[k])))
    if mode in ("trig", "handexit"):
        exit_conn = rng.below(nconn)
        thr = rng.range(0, size[exit_conn])
        if mode == "trig":
            lines.append("trig %d %d exit" % (exit_conn, thr))
        else:
            lines.append("trig %d %d handexit %d" % (exit_conn, thr, nconn))
    # per-connection programs, randomly interleaved
    progs = {}
    for k in range(nconn):
        p = [("hand %d" if k in handed else "conn %d") % k]
        left = size[k]
        while left > 0:
            n = left if rng.chance(1, 2) else rng.range(1, left)
            p.append("send %d %d %s" % (k, n, " ".join(map(str, _chunks(rng, n)))))
            left -= n
            if rng.chance(1, 5):
                p.append("sync")
        if rng.chance(2, 3):
            p.append("cclose %d" % k)
        progs[k] = p
    steps = []
    if len(handed) >= 2 and rng.chance(1, 3):
        # hand-overs whose wake-ups coalesce: all before the loop thread exists
        for k in sorted(handed):
            progs[k].pop(0)
        steps.append("prehand " + " ".join(map(str, sorted(handed))))
    elif exit_conn is not None:
        # hand-overs happen-before anything that can make the loop thread exit
        for k in sorted(handed):
            steps.append(progs[k].pop(0))
    alive = [k for k in range(nconn) if progs[k]]
    wsteps = []
    for w in range(workers):
        for _ in range(rng.range(0, 3)):
            wsteps.append(rng.choice(["wrel %d", "wrel %d", "wshut %d"]) % w)
    total = sum(len(p) for p in progs.values())
    xmid_at = rng.below(total + 1) if mode == "xmid" else -1
    cnt = 0
    while alive:
        k = rng.choice(alive)
        steps.append(progs[k].pop(0))
        cnt += 1
        if not progs[k]:
            alive.remove(k)
        if wsteps and rng.chance(1, 6):
            steps.append("sync")
            steps.append(wsteps.pop(0))
        if cnt == xmid_at:
            steps.append("xexit")
    steps.append("sync")
    steps += wsteps
    if rng.chance(1, 2):
        steps.append("sync")
    return V.Case(name, lines + steps, {"kind": "sock", "be": be, "seed": seed})


def gen_burst(rng, name, be, tier):
    """Directed: 2..4 muggle_socket_evloop_add_ctx calls land between two wake-up handlings (before the loop
    thread exists, or while it is held inside a callback), from one or several threads; every handed-over
    context then gets data and the script waits for its delivery."""
    fam = rng.choice(["tcp", "unix"])
    seed = rng.below(1 << 30) + 1
    m = rng.range(2, 4)
    kind = rng.choice(["prehand", "stall", "stallmt", "plain", "plainmt"])
    lines = ["cfg be=%s fam=%s hints=64 pool=%d seed=%d rbuf=%d workers=%d" % (
        be, fam, rng.choice([0, 1]), seed, rng.choice([7, 64, 4096]), 1)]
    steps = []
    if kind == "prehand":
        ks = list(range(m))
        steps.append("prehand " + " ".join(map(str, ks)))
        if rng.chance(1, 2):
            steps.append("conn %d" % m)
            ks.append(m)
    else:
        # connection 0 is accepted; the loop thread is held in its cb_msg while the burst happens
        ks = list(range(1, m + 1))
        steps.append("conn 0")
        if kind.startswith("stall"):
            lines.append("trig 0 3 stall")
        steps.append("send 0 5 2 3")
        if not kind.startswith("stall"):
            steps.append("sync")
        steps.append(("burstmt " if kind.endswith("mt") else "burst ") + " ".join(map(str, ks)))
        ks = [0] + ks
    if rng.chance(1, 2):
        lines.append("trig %d %d retain 0" % (ks[-1], rng.range(0, 8)))
    for k in rng.shuffle(ks):
        n = rng.choice([1, 9, 200, 4000])
        steps.append("send %d %d %s" % (k, n, " ".join(map(str, _chunks(rng, n)))))
    for k in ks:
        steps.append("await %d" % k)
    if rng.chance(1, 2):
        # a second burst: wake-ups after the first backlog must still drain everything
        ks2 = list(range(10, 10 + rng.range(2, 3)))
        steps.append("burst " + " ".join(map(str, ks2)))
        for k in ks2:
            steps.append("send %d 33 5 28" % k)
        for k in ks2:
            steps.append("await %d" % k)
        ks += ks2
    for k in rng.shuffle(ks):
        if rng.chance(1, 2):
            steps.append("cclose %d" % k)
    steps.append("sync")
    steps.append("wrel 0")
    return V.Case(name, lines + steps, {"kind": "sock", "be": be, "seed": seed})


def gen_hup(rng, name, be, tier):
    """Directed: data and the hang-up of a connection reach the loop as ONE readiness report.  The loop thread is
    held in connection 0's cb_msg (stall trigger) while peers write and close at once (AF_UNIX pairs, AF_UNIX or TCP
    accepted connections, also connections accepted / handed over only afterwards), reply after the local side
    half-closed, or reset with data queued; sizes from 1 byte to several read buffers."""
    fam = rng.choice(["tcp", "unix", "unix"])
    seed = rng.below(1 << 30) + 1
    rbuf = rng.choice([1, 7, 16, 64, 4096])
    lines = ["cfg be=%s fam=%s hints=64 pool=%d seed=%d rbuf=%d workers=1" % (be, fam, rng.choice([0, 1]), seed, rbuf),
             "trig 0 3 stall"]
    sizes = [1, max(1, rbuf - 1), rbuf, rbuf + 1, 3 * rbuf + 5, 2 * rbuf, 4000 if rbuf >= 16 else 200]
    pre, during, k = ["conn 0"], [], 1
    for _ in range(rng.range(2, 5)):
        kind = rng.choice(["pair", "pair", "acc", "late-pair", "late-acc", "half", "reset"])
        n = rng.choice(sizes)
        snd = "send %d %d %s" % (k, n, " ".join(map(str, _chunks(rng, n))) if rng.chance(1, 3) else "")
        if kind in ("pair", "acc"):
            pre.append(("hand %d" if kind == "pair" else "conn %d") % k)
            if rng.chance(1, 2):
                pre.append("send %d 2" % k)
            during += [snd, "cclose %d" % k]
        elif kind in ("late-pair", "late-acc"):
            during += [("hand %d" if kind == "late-pair" else "conn %d") % k, snd, "cclose %d" % k]
        elif kind == "half":
            lines.append("trig %d 2 halfclose" % k)
            pre += ["conn %d" % k if rng.chance(1, 2) else "hand %d" % k, "send %d 2" % k]
            during += ["waiteof %d" % k, snd, "cclose %d" % k]
        else:
            pre.append("conn %d" % k if rng.chance(1, 2) else "hand %d" % k)
            during += [snd, "creset %d" % k]
        if rng.chance(1, 4):
            lines.append("trig %d %d retain 0" % (k, rng.range(0, n)))
        k += 1
    steps = pre + ["sync", "send 0 5 2 3", "waitstall"] + during + ["unstall", "sync", "sync"]
    if rng.chance(1, 2):
        steps.append("wrel 0")
    return V.Case(name, lines + steps, {"kind": "sock", "be": be, "seed": seed})


def gen_shutexit(rng, name, be, tier):
    """Directed: a callback of one context shuts ANOTHER registered context down and leaves the loop in the same
    round: the victim's CLOSED flag is set but its close is never dispatched; on_clear has to release it."""
    fam = rng.choice(["tcp", "unix"])
    seed = rng.below(1 << 30) + 1
    m = rng.range(2, 5)
    victim = rng.range(1, m - 1) if m > 2 else 1
    lines = ["cfg be=%s fam=%s hints=64 pool=%d seed=%d rbuf=64 workers=1" % (be, fam, rng.choice([0, 1]), seed),
             "trig 0 4 shutexit %d" % victim]
    if rng.chance(1, 2):
        lines.append("trig %d 1 retain 0" % victim)
    steps = []
    for k in range(m):
        steps.append(("hand %d" if rng.chance(1, 3) else "conn %d") % k)
    for k in range(1, m):
        steps.append("send %d 3" % k)
    steps += ["sync", "send 0 9 4 5", "sync", "wrel 0"]
    return V.Case(name, lines + steps, {"kind": "sock", "be": be, "seed": seed})


def gen_pipe(rng, name, tier):
    w = rng.choice([1, 2, 3, 4, 8])
    per = rng.choice([1, 5, 20, 100, 600 if tier == "quick" else 3000])
    psize = rng.choice([0, 0, 4096])
    return V.Case(name, ["pipe writers=%d per=%d seed=%d rfrag=%d wfrag=%d psize=%d" % (
        w, per, rng.below(1 << 30) + 1, rng.choice([0, 1, 2]), rng.choice([0, 1]), psize)],
        {"kind": "pipe", "writers": w, "per": per})


def corpus_cases(ctx):
    out = []
    d = os.path.join(V.VERIF, "corpus", ID)
    if os.path.isdir(d):
        for f in sorted(os.listdir(d)):
            if f.endswith(".case"):
                out.append(V.Case.load(os.path.join(d, f)))
    return out


def generate(rng, tier):
    cases = []
    n = 60 if tier == "quick" else 400
    for be in BACKENDS:
        r = rng.fork("sock/" + be)
        for i in range(n):
            cases.append(gen_socket(r, "s-%s-%d" % (be, i), be, tier))
        # directed: hand-over whose registration fails (poll capacity / injected), queued at exit
        for i in range(4 if tier == "quick" else 20):
            c = gen_socket(r, "h-%s-%d" % (be, i), be, tier, {"nconn": r.range(2, 5), "hints": 2 if be == "poll" else 64})
            cases.append(c)
        for i in range(8 if tier == "quick" else 40):
            cases.append(gen_burst(r, "b-%s-%d" % (be, i), be, tier))
        for i in range(10 if tier == "quick" else 50):
            cases.append(gen_hup(r, "u-%s-%d" % (be, i), be, tier))
        for i in range(3 if tier == "quick" else 12):
            cases.append(gen_shutexit(r, "x-%s-%d" % (be, i), be, tier))
    r = rng.fork("pipe")
    for i in range(12 if tier == "quick" else 80):
        cases.append(gen_pipe(r, "p-%d" % i, tier))
    return cases


def search(rng, diverging, tier):
    out = []
    for be in BACKENDS:
        for i in range(60):
            out.append(gen_socket(rng, "search-%s-%d" % (be, i), be, tier))
        for i in range(20):
            out.append(gen_burst(rng, "search-b-%s-%d" % (be, i), be, tier))
        for i in range(20):
            out.append(gen_hup(rng, "search-u-%s-%d" % (be, i), be, tier))
        for i in range(10):
            out.append(gen_shutexit(rng, "search-x-%s-%d" % (be, i), be, tier))
    for i in range(20):
        out.append(gen_pipe(rng, "search-p-%d" % i, tier))
    return out


# --------------------------------------------------------------------------
# model side: the acceptor gets the script and the implementation's log

def model_cases(cases, impl_results):
    out = []
    for c in cases:
        r = impl_results.get(c.name)
        lines = list(c.lines) + ["TRACE"] + (list(r["lines"]) if r else [])
        out.append(V.Case(c.name, lines, c.meta))
    return out


# --------------------------------------------------------------------------
# independent monitor: ownership automaton per context, byte equality per connection,
# pipe multiset / per-writer order, accounting

class _Ctx:
    __slots__ = ("by", "conn", "handed", "reg", "ann", "closecb", "rel", "relby", "fdc", "free", "holds",
                 "got", "eof", "shut", "loopheld", "wzero", "freed_line", "hand_at", "handed_at", "rderr")

    def __init__(self, by, conn):
        self.by, self.conn = by, conn
        self.handed = False
        self.hand_at = self.handed_at = None     # log lines of "hand" (before add_ctx) / "handed" (after it returned)
        self.reg = None
        self.ann = self.closecb = self.rel = self.fdc = self.free = 0
        self.relby = None
        self.holds = {}
        self.got = bytearray()
        self.eof = False
        self.rderr = False
        self.shut = False
        self.loopheld = 1        # the loop side (queue / ctx_list / pending release) still owns a reference
        self.wzero = False
        self.freed_line = None


DISPATCH_OPS = {"addctx", "accepterr", "accepted", "allocfail", "alloc", "conn", "msg", "rd", "shut", "retain",
                "close", "exitreq", "wake", "stalled", "unstall", "halfclose"}
LOOP_OPS = {"reg", "addctx", "accepterr", "accepted", "allocfail", "alloc", "conn", "free", "msg", "rd", "shut",
            "retain", "close", "release", "exitreq", "wake", "stalled", "unstall", "halfclose"}


def monitor(case, lines):
    if not lines:
        return "no output"
    for ln in lines:
        if ln.startswith(("HANG", "LOGOVERFLOW", "SETUPFAIL", "EXN")):
            return "driver reported: " + ln
    if case.lines and case.lines[0].startswith("pipe"):
        return _monitor_pipe(case, lines)
    return _monitor_sock(case, lines)


def _kv(line, key, dflt=None):
    m = re.search(r"(?:^| )%s=(\S+)" % key, line)
    return m.group(1) if m else dflt


def _monitor_pipe(case, lines):
    writers = int(_kv(case.lines[0], "writers", "1"))
    per = int(_kv(case.lines[0], "per", "1"))
    nxt = [0] * writers
    done = None
    for n, ln in enumerate(lines):
        w = ln.split()
        if not w:
            continue
        if w[0] == "pr":
            a, i = int(w[1]), int(w[2])
            if not (0 <= a < writers):
                return "line %d: pointer from unknown writer read from the pipe: %s" % (n, ln)
            if i != nxt[a]:
                return "line %d: writer %d's pointer #%d delivered when #%d was due (%s)" % (
                    n, a, i, nxt[a], "duplicate or out of order" if i < nxt[a] else "lost pointer")
            nxt[a] += 1
        elif w[0] == "pwfail":
            return "line %d: pipe write failed: %s" % (n, ln)
        elif w[0] == "pdone":
            done = int(w[1])
        elif w[0] == "F":
            e = _check_f(ln)
            if e:
                return e
    if done is None:
        return "pipe run did not finish"
    if nxt != [per] * writers:
        return "pipe: delivered per writer %s, written %d each (lost pointers)" % (nxt, per)
    return None


def _check_f(ln):
    for key in ("heap_delta", "fd_delta", "badclose"):
        v = _kv(ln, key)
        if v is not None and int(v) != 0:
            return "accounting at exit: %s=%s (%s)" % (key, v, ln)
    a, f = _kv(ln, "alloc"), _kv(ln, "freed")
    if a is not None and a != f:
        return "accounting at exit: %s contexts allocated, %s freed" % (a, f)
    return None


def _monitor_sock(case, lines):
    seed = int(_kv(case.lines[0], "seed", "1"))
    ctxs = {}
    sent = {}          # conn -> bytearray logged as sent so far
    exiting = False          # an exit request was logged
    clearing = False         # the run loop has left: a registered, not closed context was released
    returned = False
    nextid = 0
    seenF = 0
    wakes = []               # log lines of cb_wake = ends of on_wake
    peer_closed, peer_reset = set(), set()     # connections whose client end closed gracefully / with a reset

    def bad(n, msg):
        return "line %d (%s): %s" % (n, lines[n], msg)

    for n, ln in enumerate(lines):
        w = ln.split()
        if not w:
            continue
        op = w[0]
        if op == "F":
            e = _check_f(ln)
            if e:
                return e
            seenF += 1
            continue
        if op == "badclose":
            return bad(n, "close() failed: descriptor closed twice or never open")
        if returned and op in LOOP_OPS:
            return bad(n, "loop-thread activity after muggle_evloop_run returned")
        if clearing and op in DISPATCH_OPS:
            return bad(n, "dispatch callback after the run loop started clearing its contexts")
        cid = None
        if op in ("hand", "handed", "reg", "addctx", "alloc", "conn", "free", "msg", "rd", "shut", "retain", "close", "release",
                  "wrel", "wrelease", "wfree", "wshut", "halloc", "fdclose", "accepterr", "halfclose"):
            if w[1] == "new":
                continue
            try:
                cid = int(w[1])
            except ValueError:
                return bad(n, "unparsable context id")
            if cid < 0:
                return bad(n, "callback on a pointer that is not a live context (use after free)")
        if op in ("alloc", "halloc"):
            if cid != nextid:
                return bad(n, "context ids out of order")
            nextid += 1
            if op == "alloc":
                ctxs[cid] = _Ctx("accept", None)
            else:
                ctxs[cid] = _Ctx("user", None if w[2] == "L" else int(w[2]))
            continue
        if cid is not None:
            c = ctxs.get(cid)
            if c is None:
                return bad(n, "unknown context")
            # "handed" only records that muggle_socket_evloop_add_ctx has returned in the handing thread: the loop
            # may already have registered, closed and freed the context by then
            if op != "handed" and c.free and not (op == "fdclose" and c.by == "accept" and c.reg == -1 and c.fdc == 0):
                return bad(n, "context used after it was freed (freed at line %s)" % c.freed_line)
            if c.rel and op in ("msg", "rd", "close", "addctx", "conn", "retain", "shut", "halfclose", "reg", "hand", "release",
                                "wrelease", "wshut", "wrel"):
                return bad(n, "context used after release")
        if op == "hand":
            if c.by != "user" or c.handed:
                return bad(n, "hand-over of a context that is not a fresh user context")
            c.handed = True
            c.hand_at = n
        elif op == "handed":
            if not c.handed or c.handed_at is not None:
                return bad(n, "hand-over completed twice or never started")
            c.handed_at = n
        elif op == "wake":
            # on_wake drains the whole queue: a context whose hand-over had returned before the previous
            # on_wake ended was in the queue when this on_wake took the mutex
            if wakes:
                for d, x in sorted(ctxs.items()):
                    if x.by == "user" and x.handed_at is not None and x.handed_at < wakes[-1] and x.reg is None and not x.rel:
                        return bad(n, "context %d was handed over (line %d) before the previous wake-up handling ended "
                                      "(line %d) and is still not registered after this one: on_wake left it queued" % (
                                          d, x.handed_at, wakes[-1]))
            wakes.append(n)
        elif op == "await":
            k, got_, sent_ = int(w[1]), int(w[2]), int(w[3])
            if got_ < sent_ and not exiting and not clearing and not returned:
                for d, x in sorted(ctxs.items()):
                    if x.conn == k and (x.by == "user" or x.ann) and x.reg != -1 and not x.shut and not x.closecb and not x.rel:
                        return bad(n, "context %d (%s): %d of %d bytes sent to it were not delivered while the loop was "
                                      "running (registered=%s announced=%d)" % (
                                          d, "handed over" if x.by == "user" else "accepted", sent_ - got_, sent_, x.reg, x.ann))
        elif op == "reg":
            if c.by == "user":
                # the queue is FIFO: nothing enqueued earlier may still be waiting
                for d, x in sorted(ctxs.items()):
                    if (x.by == "user" and d != cid and x.handed_at is not None and c.hand_at is not None
                            and x.handed_at < c.hand_at and x.reg is None and not x.rel):
                        return bad(n, "context %d registered although context %d, handed over earlier, is still queued" % (cid, d))
            if c.reg is not None:
                return bad(n, "context registered twice")
            if c.by == "user" and not c.handed:
                return bad(n, "registration of a context that was never handed over")
            c.reg = int(w[2])
        elif op in ("addctx", "conn"):
            if c.ann:
                return bad(n, "context announced twice")
            if c.reg != 0:
                return bad(n, "context announced although its registration %s" % (
                    "failed" if c.reg is not None else "has not happened"))
            if (op == "addctx") != (c.by == "user"):
                return bad(n, "wrong announcement callback for this context")
            c.ann = 1
            if op == "conn":
                c.conn = int(w[2]) if int(w[2]) >= 0 else None
        elif op in ("msg", "rd", "shut", "retain", "halfclose"):
            if not c.ann:
                return bad(n, "callback on a context that was never announced")
            if c.closecb:
                return bad(n, "callback after cb_close")
            if op == "rd":
                if w[2] == "eof":
                    c.eof = True
                    if (c.conn is not None and not c.shut and c.conn not in peer_reset
                            and bytes(c.got) != bytes(sent.get(c.conn, b""))):
                        return bad(n, "end of stream after %d bytes but the peer sent %d: bytes lost" % (
                            len(c.got), len(sent.get(c.conn, b""))))
                elif w[2] == "err":
                    c.rderr = True
                else:
                    c.got += bytes.fromhex(w[2])
                    s = sent.get(c.conn, b"") if c.conn is not None else b""
                    if bytes(c.got) != bytes(s[:len(c.got)]):
                        return bad(n, "bytes handed to cb_msg differ from the bytes sent (offset %d)" % (
                            len(c.got) - len(bytes.fromhex(w[2]))))
            elif op == "shut":
                c.shut = True
            elif op == "retain":
                r, wk = int(w[3]), int(w[2])
                exp = c.loopheld + sum(c.holds.values()) + 1
                if r != exp:
                    return bad(n, "retain returned %d, owners say %d" % (r, exp))
                c.holds[wk] = c.holds.get(wk, 0) + 1
        elif op == "close":
            if c.closecb:
                return bad(n, "cb_close invoked twice")
            if c.reg != 0:
                return bad(n, "cb_close on a context that is not registered")
            # a context that nobody shut down locally, whose reads never failed and whose connection was
            # not reset is closed because its peer closed: everything the peer wrote before closing was
            # readable and must have been handed to cb_msg before cb_close
            if (c.conn is not None and c.conn in peer_closed and c.conn not in peer_reset
                    and not c.shut and not c.rderr and bytes(c.got) != bytes(sent.get(c.conn, b""))):
                return bad(n, "cb_close after the peer's close with %d of the %d bytes it had sent never handed to cb_msg "
                              "(read %d)" % (len(sent.get(c.conn, b"")) - len(c.got), len(sent.get(c.conn, b"")), len(c.got)))
            c.closecb = 1
        elif op == "release":
            if c.rel:
                return bad(n, "released twice")
            if sum(c.holds.values()) > 0:
                return bad(n, "cb_release while a worker still holds a reference")
            if not (c.closecb or c.reg == -1):
                # on_clear / on_exit: the run loop has ended (exit request, or a back-end error)
                if not (c.reg == 0 or c.handed):
                    return bad(n, "cb_release of a context the loop never owned")
                clearing = True
            if c.loopheld == 0:
                return bad(n, "loop released a context it no longer owned")
            c.rel, c.relby, c.loopheld = 1, "loop", 0
        elif op == "wrel":
            wk, r = int(w[2]), int(w[3])
            if c.holds.get(wk, 0) <= 0:
                return bad(n, "worker releases a context it does not hold")
            c.holds[wk] -= 1
            others = sum(c.holds.values())
            if c.loopheld == 1 and (exiting or clearing or c.closecb or returned):
                # the loop's own (silent) release may or may not have happened: the value tells
                if r == others:
                    c.loopheld = 0
                elif r != others + 1:
                    return bad(n, "release returned %d with %d other worker holds" % (r, others))
            elif r != others + c.loopheld:
                return bad(n, "release returned %d, owners say %d" % (r, others + c.loopheld))
            if r == 0:
                c.wzero = True
        elif op == "wrelease":
            if not c.wzero or c.rel:
                return bad(n, "worker-side release duty without a release that returned 0")
            c.rel, c.relby = 1, "worker"
        elif op == "wshut":
            if c.holds.get(int(w[2]), 0) <= 0:
                return bad(n, "worker shuts down a context it does not hold")
            c.shut = True
        elif op == "fdclose":
            if c.fdc:
                return bad(n, "descriptor closed twice")
            if not (c.rel or (c.by == "accept" and c.reg == -1 and c.free)):
                return bad(n, "descriptor closed before release")
            c.fdc = 1
        elif op in ("free", "wfree"):
            if c.free:
                return bad(n, "freed twice")
            if c.by == "accept" and c.reg == -1 and not c.ann and op == "free":
                pass
            elif not (c.rel and c.fdc):
                return bad(n, "freed before release and close")
            elif (op == "wfree") != (c.relby == "worker"):
                return bad(n, "freed by the wrong party")
            if sum(c.holds.values()) > 0:
                return bad(n, "freed while a worker still holds a reference")
            c.free = 1
            c.freed_line = n
        elif op == "send":
            k = int(w[1])
            b = bytes.fromhex(w[2]) if len(w) > 2 else b""
            cur = sent.setdefault(k, bytearray())
            exp = bytes(pay(seed, k, len(cur) + j) for j in range(len(b)))
            if b != exp:
                return bad(n, "driver sent bytes that are not the scripted payload")
            cur += b
        elif op == "cclose":
            peer_closed.add(int(w[1]))
        elif op == "creset":
            peer_reset.add(int(w[1]))
        elif op in ("exitreq", "xexit"):
            exiting = True
        elif op == "returned":
            returned = True
    if not returned:
        return "muggle_evloop_run did not return"
    if seenF < 2:
        return "accounting lines missing"
    for cid, c in sorted(ctxs.items()):
        if c.free != 1:
            return "context %d (%s, conn %s) was never freed: leaked (registered=%s announced=%d closed=%d released=%d)" % (
                cid, c.by, c.conn, c.reg, c.ann, c.closecb, c.rel)
        if c.fdc != 1:
            return "context %d: descriptor never closed" % cid
        if c.ann and c.rel != 1:
            return "context %d announced but never released" % cid
        if sum(c.holds.values()) != 0:
            return "context %d: worker hold outstanding at the end" % cid
    return None


# --------------------------------------------------------------------------

def nontrivial_key(case, lines):
    t = "\n".join(lines)
    if any(k in t for k in ("allocfail", " -1", "wrel ", "accepterr", "R again", "stalled")) or len(lines) > 40:
        return t
    return None


def tally(dist, case, lines):
    def inc(k, d=1):
        dist[k] = dist.get(k, 0) + d
    head = case.lines[0] if case.lines else ""
    if head.startswith("pipe"):
        inc("pipe_cases")
        inc("pipe_pointers", sum(1 for l in lines if l.startswith("pr ")))
        inc("pipe_partial_reads", sum(1 for l in lines if l.startswith("R ") and len(l) < 18))
        return
    inc("backend=%s" % _kv(head, "be"))
    inc("family=%s" % _kv(head, "fam"))
    nregs, users = 0, set()
    for l in lines:
        w = l.split()
        if not w:
            continue
        if w[0] in ("alloc", "halloc"):
            inc("contexts")
        elif w[0] == "allocfail":
            inc("accept_alloc_failures")
        elif w[0] == "accepterr":
            inc("accept_errors")
        elif w[0] == "reg" and w[2] != "0":
            inc("registration_failures")
        elif w[0] == "rd" and w[2] not in ("eof", "err"):
            inc("read_fragments")
            inc("bytes_delivered", len(w[2]) // 2)
        elif w[0] == "retain":
            inc("worker_retains")
        elif w[0] == "wrel" and w[3] == "0":
            inc("last_release_by_worker")
        elif w[0] == "release":
            inc("last_release_by_loop")
        elif w[0] in ("exitreq", "xexit"):
            inc("exit_" + w[0])
        elif w[0] == "wake":
            inc("wakeups_handled")
            if nregs >= 2:
                inc("wakeups_draining_2_or_more")
            nregs = 0
        if w[0] == "halloc":
            users.add(w[1])
        if w[0] == "reg" and w[1] in users:
            nregs += 1


MANIFEST = {
    "level_text": ("Unbounded Coq theorems over an executable life-cycle model of socket_evloop_handle.c (accept loop with "
                   "its three failure branches, hand-over queue, on_wake in the repaired form, on_close / on_clear / "
                   "on_exit, release_ctx over C04's saturating counter, worker retains) and of socket_evloop_pipe.c "
                   "(spin-locked whole-pointer writes, reassembling reads): for every history each context is announced "
                   "at most once, the bytes given to cb_msg are a prefix of the bytes sent and all of them at end of "
                   "stream, cb_close / cb_release / descriptor close / free happen at most once and free only at count "
                   "zero, nothing touches a released context, every context is freed once the loop has returned and the "
                   "workers have released; on_wake cannot end before the hand-over queue is empty and takes it in queue "
                   "order, however many add_ctx calls coalesced into the wake-up; a hang-up closes an unflagged context only "
                   "after every byte the peer sent was handed to cb_msg; the pipe delivers exactly the completed "
                   "writes in lock order. Tied to the "
                   "code by trace inclusion of the real callback log (loopback TCP / UNIX sockets, real threads, "
                   "ASan) in the extracted model, plus an independent ownership / byte-equality / accounting monitor."),
    "design_ref": "DESIGN.md section 6 / C15",
    "level_note": ("Trusted: Coq kernel, extraction, the trace acceptor and harness; kernel socket/pipe semantics and the "
                   "back-ends' readiness are an oracle; counter atomicity is C04's theorem."),
    "technique": "Coq invariants over an event-labelled transition system + trace inclusion of real runs + independent monitor",
}



def extra_violations(ctx, stats):
    """muggle/c/sync/ref_cnt.c is an anchor of C15 and sock_freed_exactly_once_at_zero rests on
    C04's linearizability theorem for it.  The socket scenarios run real threads and rarely
    contend on a counter, so the retain/release scenarios of C04 (deterministic scheduler, trace
    monitor) are run here as well: a counter that loses updates under contention is a C15 violation
    (context freed while held / never freed)."""
    import os
    import props.c04 as C4
    exe = V.build_vsched_driver(ID, C4.C_DRIVER, C4.REPO_SOURCES, out_name="refcnt_driver",
                                extra_c=[getattr(C4, "ATOMICS_C")] if hasattr(C4, "ATOMICS_C") else ())
    cases = [c for c in C4.generate(ctx.rng.fork("refcnt"), ctx.tier) if c.lines[0].startswith("refcnt")]
    res = V.run_batch(exe, cases, per_case_timeout=5.0)
    out = []
    for c in cases:
        r = res.get(c.name)
        if not r or r["status"] == "skipped":
            continue
        stats["evaluations"] += 1
        stats["dist"]["refcnt_scenarios"] = stats["dist"].get("refcnt_scenarios", 0) + 1
        msg = ("implementation %s: %s" % (r["status"], r["detail"])) if r["status"] != "ok" else C4.monitor(c, r["lines"])
        if msg:
            path = c.save(os.path.join(ctx.replay_dir, "refcnt-%s.case" % c.name),
                          header=["property=C15 (reference counter scenario of C04; replay with: bin/check C04 --replay <file>)",
                                  "monitor: %s" % msg])
            out.append((path, "reference counter: " + msg))
            if len(out) >= 3:
                break
    return out
