"""C02 - AST-based scan of ring_buffer.c (clang JSON): the ring must treat message values as OPAQUE.

A message value (payload) is a `void *` that enters through the data argument of the write functions, sits in
`blocks[i].data` and leaves as the return value of the read functions.  The scan computes, over every function
defined in the translation unit, which expressions carry a payload value (taint):

  sources   - an rvalue read of the member `data` of a muggle_ring_buffer_block
            - a variable / parameter that is stored into such a member (backwards: it carries a payload)
  flow      - initialisation / assignment to a variable, conditional operator branches, comma, casts between pointer
              types, return values of functions of this file (direct calls and calls through the file's function
              pointer tables: every function of the file with the same signature whose address is taken),
              arguments of such calls (forwards into the parameter, backwards from a payload parameter into a
              variable passed for it)

and then flags EVERY use of a payload value that is not one of the allowed ones

  allowed   - copying it: initialiser, right-hand side of `=`, argument of a function of this file
            - returning it
            - discarding it: `(void) x`, expression statement, left operand of a comma
            - choosing between values: a BRANCH of `?:` (the result is then itself a payload value)

so a truthiness test (`if (d)`, `!d`, `d ? a : b`, `d && ..`, loop conditions), a comparison, `switch`, arithmetic,
a cast to an integer, a dereference (`*d`, `d[i]`, `d->f`), `&d`, and passing it to any function that is not defined
in this file (memcmp, helpers in other files, unknown function pointers) are all reported.

Anything the scan cannot parse raises ScanError; the caller turns that into a broken obligation.
"""
import json
import os
import subprocess


class ScanError(Exception):
    pass


TRANSPARENT_CASTS = {"LValueToRValue", "BitCast", "NoOp", "NullToPointer", "FunctionToPointerDecay",
                     "ArrayToPointerDecay", "AtomicToNonAtomic", "NonAtomicToAtomic"}
CAST_KINDS = {"ImplicitCastExpr", "CStyleCastExpr"}


def load_tu(src, cflags):
    cmd = ["clang", "-fsyntax-only", "-w"] + list(cflags) + ["-Xclang", "-ast-dump=json", src]
    try:
        p = subprocess.run(cmd, stdout=subprocess.PIPE, stderr=subprocess.PIPE, text=True, timeout=180)
    except Exception as e:                                   # clang missing, timeout
        raise ScanError("clang could not be run: %s" % e)
    if p.returncode != 0:
        raise ScanError("clang failed on %s: %s" % (src, p.stderr[-400:]))
    try:
        return json.loads(p.stdout)
    except Exception as e:
        raise ScanError("clang JSON not parsable: %s" % e)


def kids(n):
    return [c for c in n.get("inner", []) if isinstance(c, dict) and c.get("kind")]


def ikids(n):
    """(raw index, child): clang keeps empty slots ({}) in for / if statements, raw positions identify the condition"""
    return [(i, c) for i, c in enumerate(n.get("inner", [])) if isinstance(c, dict) and c.get("kind")]


def qual(n):
    t = n.get("type", {})
    return (t.get("qualType", ""), t.get("desugaredQualType", t.get("qualType", "")))


def is_block_data(n):
    """member `data` of a ring buffer block (x.data, p->data, through the anonymous union)"""
    if n.get("kind") != "MemberExpr" or n.get("name") != "data":
        return False
    b = n
    # walk down through members of anonymous unions / structs to the object expression
    for _ in range(6):
        ks = kids(b)
        if not ks:
            return False
        b = ks[0]
        q = " ".join(qual(b))
        if "muggle_ring_buffer_block" in q:
            return True
        if b.get("kind") not in ("MemberExpr", "ImplicitCastExpr", "ParenExpr"):
            return False
    return False


class Scan:
    def __init__(self, tu):
        self.funcs = {}            # name -> FunctionDecl with a body (last definition wins)
        self.params = {}           # name -> [ParmVarDecl ids]
        self.sigs = {}             # name -> signature text
        for d in kids(tu):
            if d.get("kind") == "FunctionDecl" and any(c.get("kind") == "CompoundStmt" for c in kids(d)):
                self.funcs[d["name"]] = d
                ps = [c for c in kids(d) if c.get("kind") == "ParmVarDecl"]
                self.params[d["name"]] = [c["id"] for c in ps]
                self.sigs[d["name"]] = d.get("type", {}).get("qualType", "")
        if not self.funcs:
            raise ScanError("no function definition found")
        self.addr_taken = set()    # functions of the file whose address is taken (not as direct callee)
        self.tvars = set()         # ids of variables / parameters that carry a payload
        self.tret = set()          # functions that return a payload
        self.sites_read = 0
        self.sites_store = 0
        self.hits = []
        self._collect_addr_taken(tu)

    # ---- helpers -------------------------------------------------------------------------------------------
    def _collect_addr_taken(self, root):
        def walk(n, callee_pos):
            k = n.get("kind")
            if k == "DeclRefExpr" and n.get("referencedDecl", {}).get("kind") == "FunctionDecl" and not callee_pos:
                self.addr_taken.add(n["referencedDecl"].get("name"))
            ks = kids(n)
            for i, c in enumerate(ks):
                cp = False
                if k == "CallExpr" and i == 0:
                    cp = True
                elif callee_pos and k in ("ImplicitCastExpr", "ParenExpr"):
                    cp = True
                walk(c, cp)
        walk(root, False)

    def strip(self, n):
        """through parentheses and value-preserving casts"""
        while True:
            k = n.get("kind")
            if k == "ParenExpr" and kids(n):
                n = kids(n)[0]
            elif k in CAST_KINDS and n.get("castKind") in TRANSPARENT_CASTS and kids(n):
                n = kids(n)[-1]
            else:
                return n

    def targets(self, call):
        """functions of this file a call may reach; None = unknown / external code"""
        ks = kids(call)
        if not ks:
            return None
        c = self.strip(ks[0])
        if c.get("kind") == "DeclRefExpr" and c.get("referencedDecl", {}).get("kind") == "FunctionDecl":
            nm = c["referencedDecl"].get("name")
            return [nm] if nm in self.funcs else None
        # indirect call: the file's functions of the same type whose address is taken
        q = ks[0].get("type", {})
        sig = (q.get("desugaredQualType") or q.get("qualType", "")).replace("(*)", "").replace("  ", " ").strip()
        cands = [f for f in self.funcs if f in self.addr_taken and
                 self.sigs[f].replace("  ", " ").strip() == sig]
        return cands or None

    def tainted(self, n):
        n = self.strip(n)
        k = n.get("kind")
        if k == "MemberExpr" and is_block_data(n):
            return True
        if k == "DeclRefExpr":
            return n.get("referencedDecl", {}).get("id") in self.tvars
        if k == "CallExpr":
            t = self.targets(n)
            return bool(t) and any(f in self.tret for f in t)
        if k == "ConditionalOperator":
            ks = kids(n)
            return len(ks) == 3 and (self.tainted(ks[1]) or self.tainted(ks[2]))
        if k == "BinaryConditionalOperator":
            return any(self.tainted(c) for c in kids(n))
        if k == "BinaryOperator" and n.get("opcode") == ",":
            return self.tainted(kids(n)[1])
        if k == "BinaryOperator" and n.get("opcode") == "=":
            return self.tainted(kids(n)[1])
        if k in CAST_KINDS and kids(n):
            # a non-transparent cast (to integer, to bool): the result still derives from the payload
            return self.tainted(kids(n)[-1])
        if k in ("OpaqueValueExpr",) and kids(n):
            return self.tainted(kids(n)[0])
        return False

    def var_of(self, n):
        n = self.strip(n)
        if n.get("kind") == "DeclRefExpr" and n.get("referencedDecl", {}).get("kind") in ("VarDecl", "ParmVarDecl"):
            return n["referencedDecl"].get("id")
        return None

    # ---- propagation ---------------------------------------------------------------------------------------
    def propagate(self):
        for _ in range(64):
            before = (len(self.tvars), len(self.tret))
            for fname, f in self.funcs.items():
                self._prop(f, fname)
            if (len(self.tvars), len(self.tret)) == before:
                return
        raise ScanError("taint propagation did not converge")

    def _prop(self, n, fname):
        k = n.get("kind")
        ks = kids(n)
        if k == "VarDecl" and ks and n.get("init") and self.tainted(ks[-1]):
            self.tvars.add(n["id"])
        elif k == "BinaryOperator" and n.get("opcode") == "=" and len(ks) == 2:
            lhs, rhs = self.strip(ks[0]), ks[1]
            if self.tainted(rhs) and self.var_of(lhs):
                self.tvars.add(self.var_of(lhs))
            if lhs.get("kind") == "MemberExpr" and is_block_data(lhs) and self.var_of(rhs):
                self.tvars.add(self.var_of(rhs))       # what is stored into a slot is a payload
        elif k == "ReturnStmt" and ks and self.tainted(ks[0]):
            self.tret.add(fname)
        elif k == "CallExpr":
            t = self.targets(n)
            if t:
                args = ks[1:]
                for f in t:
                    ps = self.params[f]
                    for i, a in enumerate(args):
                        if i >= len(ps):
                            break
                        if self.tainted(a):
                            self.tvars.add(ps[i])
                        elif ps[i] in self.tvars and self.var_of(a):
                            self.tvars.add(self.var_of(a))
        for c in ks:
            self._prop(c, fname)

    # ---- reporting -----------------------------------------------------------------------------------------
    def report(self):
        for fname, f in self.funcs.items():
            for c in kids(f):
                if c.get("kind") == "CompoundStmt":
                    self._visit(c, None, -1, fname)
        return self.hits

    def _line(self, n):
        for key in ("loc", "range"):
            d = n.get(key, {})
            if key == "range":
                d = d.get("begin", {})
            for e in (d, d.get("expansionLoc", {}), d.get("spellingLoc", {})):
                if "line" in e:
                    return e["line"]
        return 0

    def _hit(self, n, fname, what, line):
        self.hits.append("%s line %s: %s" % (fname, line or "?", what))

    def _visit(self, n, parent, idx, fname, line=0):
        """flag payload-valued expressions in a context that is not a copy / return / discard"""
        line = self._line(n) or line
        k = n.get("kind")
        ks = kids(n)
        # store into a slot: the left-hand side member is a write, not a use
        if k == "BinaryOperator" and n.get("opcode") == "=" and len(ks) == 2:
            lhs = self.strip(ks[0])
            if lhs.get("kind") == "MemberExpr" and is_block_data(lhs):
                self.sites_store += 1
                for c in kids(lhs):
                    self._visit(c, lhs, 0, fname, line)
                self._visit(ks[1], n, 1, fname, line)
                return
            if self.var_of(lhs):
                self._visit(ks[1], n, 1, fname, line)
                return
        if k == "MemberExpr" and is_block_data(n):
            self.sites_read += 1
        if k in ("ParenExpr",) or (k in CAST_KINDS and n.get("castKind") in TRANSPARENT_CASTS):
            # transparent: the context of the wrapper decides
            for i, c in enumerate(ks):
                if i == len(ks) - 1:
                    self._visit(c, parent, idx, fname, line)
                else:
                    self._visit(c, n, i, fname, line)
            return
        if self.tainted(n) and not self._allowed(n, parent, idx):
            pk = parent.get("kind") if parent else "?"
            op = parent.get("opcode") or parent.get("castKind") or "" if parent else ""
            self._hit(n, fname, "payload value used by %s %s" % (pk, op), line)
        for i, c in ikids(n):
            self._visit(c, n, i, fname, line)

    def _allowed(self, n, parent, idx):
        if parent is None:
            return True
        pk = parent.get("kind")
        if pk in ("CompoundStmt", "ReturnStmt", "VarDecl", "LabelStmt", "CaseStmt", "DefaultStmt"):
            return True
        if pk in ("IfStmt", "WhileStmt", "DoStmt", "ForStmt", "SwitchStmt"):
            # as a sub-STATEMENT (value discarded) it is fine; as the condition it is a truthiness test
            return not self._is_condition(parent, idx)
        if pk == "BinaryOperator":
            op = parent.get("opcode")
            if op == "=":
                return idx == 1
            if op == ",":
                return True
            return False
        if pk in ("ConditionalOperator",):
            return idx in (1, 2)
        if pk == "CallExpr":
            if idx == 0:
                return False
            t = self.targets(parent)
            return bool(t) and all(idx - 1 < len(self.params[f]) for f in t)
        if pk in CAST_KINDS:
            return parent.get("castKind") == "ToVoid"
        return False

    @staticmethod
    def _is_condition(stmt, idx):
        """is raw child position idx the controlling expression of the statement?"""
        k = stmt.get("kind")
        n = len(stmt.get("inner", []))
        if k == "IfStmt":
            return idx == n - (3 if stmt.get("hasElse") else 2)
        if k in ("WhileStmt", "SwitchStmt"):
            return idx == n - 2
        if k == "DoStmt":
            return idx == n - 1
        if k == "ForStmt":
            return idx == 2 if n == 5 else idx != n - 1
        return True


def scan_payload_uses(src, cflags):
    """returns (hits, payload read sites, payload store sites)"""
    sc = Scan(load_tu(src, cflags))
    sc.propagate()
    hits = sc.report()
    return hits, sc.sites_read, sc.sites_store


INT_WIDTH = {"char": 8, "signed char": 8, "unsigned char": 8, "short": 16, "unsigned short": 16, "int": 32,
             "unsigned int": 32, "long": 64, "unsigned long": 64, "long long": 64, "unsigned long long": 64,
             "_Bool": 1, "__int128": 128, "unsigned __int128": 128}


def int_width(n):
    t = n.get("type", {})
    q = (t.get("desugaredQualType") or t.get("qualType", "")).replace("const ", "").replace("volatile ", "")
    q = q.replace("_Atomic(", "").replace(")", "").strip()
    return INT_WIDTH.get(q)


def scan_narrow_ints(tu):
    """integer variables / parameters and integer conversions narrower than 32 bits in the functions defined in the
    translation unit (system helpers whose name starts with __ excepted): the model keeps every position, cursor value
    and index in (at least) 32 bits"""
    hits = []

    def walk(n, fname):
        k = n.get("kind")
        if k in ("VarDecl", "ParmVarDecl"):
            w = int_width(n)
            if w is not None and 1 < w < 32:
                hits.append("%s: %s %s is %d bits wide" % (fname, k, n.get("name", "?"), w))
        elif k in CAST_KINDS and n.get("castKind") == "IntegralCast":
            w = int_width(n)
            if w is not None and 1 < w < 32:
                hits.append("%s: integer conversion to a %d-bit type" % (fname, w))
        for c in kids(n):
            walk(c, fname)
    found = 0
    for d in kids(tu):
        if d.get("kind") == "FunctionDecl" and not d.get("name", "").startswith("__") and \
                any(c.get("kind") == "CompoundStmt" for c in kids(d)):
            found += 1
            walk(d, d["name"])
    if not found:
        raise ScanError("no function definition found")
    return hits


def scan_all(src, cflags):
    """(payload-use hits, payload read sites, payload store sites, narrow-integer hits)"""
    tu = load_tu(src, cflags)
    sc = Scan(tu)
    sc.propagate()
    hits = sc.report()
    return hits, sc.sites_read, sc.sites_store, scan_narrow_ints(tu)


if __name__ == "__main__":
    import sys
    repo = sys.argv[1] if len(sys.argv) > 1 else "/repo"
    inc = sys.argv[2:] or []
    h, r, s_ = scan_payload_uses(os.path.join(repo, "muggle/c/sync/ring_buffer.c"),
                                 ["-std=gnu11", "-DNDEBUG", "-DMUGGLEC_VERIF", "-DMUGGLE_C_EXPORTS", "-I" + repo] +
                                 ["-I" + i for i in inc])
    print("reads %d stores %d" % (r, s_))
    for x in h:
        print(x)
    for x in scan_narrow_ints(load_tu(os.path.join(repo, "muggle/c/sync/ring_buffer.c"),
                                      ["-std=gnu11", "-DNDEBUG", "-DMUGGLEC_VERIF", "-DMUGGLE_C_EXPORTS", "-I" + repo] +
                                      ["-I" + i for i in inc])):
        print("narrow:", x)
