"""C02 - translator tie for muggle/c/sync/ring_buffer.c (in the manner of lib/props/c08_slice.py).

The integer content of the ring's functions - index arithmetic and the conditions between their atomic / futex
operations - is sliced out of the clang JSON AST of the C text of this run by a small symbolic executor and written
as Gallina over Z (C integer semantics of lib/leaftrans.py: unsigned arithmetic wrapped explicitly, Lib/Leaf.v).

Every function reached through the three dispatch tables (muggle_ring_buffer_write_functions / _wake_functions /
_read_functions) becomes

    gen_fn_<name> (cap cur rc wpos idx : Z) : Z * Z * Z * Z * Z * Z
      inputs : cap = r->capacity, cur = r->cursor (plain read), rc = r->read_cursor, wpos = the value returned by
               the atomic load of r->cursor, idx = the integer parameter
      result : (kind, val, slot_w, cur_st, rc_st, wake)
               kind   0 the call returns (val = index of the slot whose payload is returned, -1 none, -2 NULL)
                      1 it waits on the cursor futex for value val and then starts the loop again
                      2 it starts the loop again without waiting (spin)
               slot_w index of the slot the data argument is stored into, -1 none
               cur_st value stored (atomically) into r->cursor, -1 none
               rc_st  value stored into r->read_cursor, -1 none
               wake   0 none, 1 muggle_sync_wake_one(&r->cursor), 2 muggle_sync_wake_all(&r->cursor)

Loops are the retry loops of the readers: ONE iteration is executed symbolically (variables assigned inside the loop
are undefined at its head, so a loop-carried value is refused); reaching the end of the body or `continue` is
outcome 1 / 2.  Calls of the lock / unlock functions are dropped (their order is the subject of the trace tie);
helpers defined in the file are inlined; everything else is a SliceError, which the caller turns into a broken
obligation.  The entry points muggle_ring_buffer_write / _read are reduced to which table they call with which index
and argument."""
import re

try:
    import leaftrans as L
except ImportError:                                     # pragma: no cover
    from lib import leaftrans as L


class SliceError(Exception):
    pass


TABLES = {"muggle_ring_buffer_write_functions": 0, "muggle_ring_buffer_wake_functions": 1,
          "muggle_ring_buffer_read_functions": 2}
DROP_CALLS = {"muggle_spinlock_lock", "muggle_spinlock_unlock", "muggle_mutex_lock", "muggle_mutex_unlock"}
FIELDS = {"capacity": "cap", "write_mode": "wm", "read_mode": "rm"}
TRANSPARENT = {"LValueToRValue", "NoOp", "BitCast", "FunctionToPointerDecay", "ArrayToPointerDecay"}


def kids(n):
    return [c for c in n.get("inner", []) if isinstance(c, dict) and c.get("kind")]


class St:
    """symbolic state of one path"""

    def __init__(self):
        self.env = {}        # decl id -> value
        self.fld = {}        # cursor / read_cursor after a store on this path
        self.slot_w = self.cur_st = self.rc_st = self.waitv = None
        self.wake = 0
        self.loads = 0
        self.calls = []      # entry points: (table id, index text, [argument texts])

    def copy(self):
        s = St()
        s.env, s.fld = dict(self.env), dict(self.fld)
        s.slot_w, s.cur_st, s.rc_st, s.waitv = self.slot_w, self.cur_st, self.rc_st, self.waitv
        s.wake, s.loads, s.calls = self.wake, self.loads, list(self.calls)
        return s


class Slicer:
    def __init__(self, tu):
        self.funcs, self.tables, self.enums = {}, {}, {}
        self.cnt = 0
        for d in kids(tu):
            k = d.get("kind")
            if k == "FunctionDecl" and any(c.get("kind") == "CompoundStmt" for c in kids(d)):
                self.funcs[d["name"]] = d
            elif k == "VarDecl" and d.get("name") in TABLES:
                self.tables[d["name"]] = self._table(d)
            elif k == "EnumDecl":
                self._enum(d)
        for t in TABLES:
            if t not in self.tables:
                raise SliceError("dispatch table %s not found" % t)

    # ---- declarations ---------------------------------------------------------------------------------------
    def _enum(self, d):
        nxt = 0
        for c in kids(d):
            if c.get("kind") != "EnumConstantDecl":
                continue
            v = None
            for e in kids(c):
                v = self._const(e)
            if v is None:
                v = nxt
            self.enums[c["name"]] = v
            nxt = v + 1

    def _const(self, n):
        if "value" in n and n.get("kind") in ("ConstantExpr", "IntegerLiteral"):
            try:
                return int(n["value"])
            except ValueError:
                return None
        for c in kids(n):
            v = self._const(c)
            if v is not None:
                return v
        return None

    def _table(self, d):
        names = []

        def walk(n):
            if n.get("kind") == "DeclRefExpr" and n.get("referencedDecl", {}).get("kind") == "FunctionDecl":
                names.append(n["referencedDecl"]["name"])
                return
            for c in kids(n):
                walk(c)
        for c in kids(d):
            walk(c)
        if not names:
            raise SliceError("dispatch table %s has no initialiser" % d.get("name"))
        return names

    def fresh(self, base):
        self.cnt += 1
        return "%s_%d" % (re.sub(r"\W", "_", base), self.cnt)

    # ---- expressions ----------------------------------------------------------------------------------------
    def z(self, v):
        if v[0] == "Z":
            return v[1]
        if v[0] == "B":
            return "(b2z %s)" % v[1]
        raise SliceError("integer expected, got %s" % (v,))

    def b(self, v):
        if v[0] == "B":
            return v[1]
        if v[0] == "Z":
            return "(z2b %s)" % v[1]
        raise SliceError("condition on a non-integer value %s" % (v,))

    def wrap(self, n, e):
        ty = L.ctype(n)
        if ty is None:
            raise SliceError("non-integer arithmetic")
        return ("Z", "(wrapu %d %s)" % (ty[1], e)) if not ty[0] else ("Z", e)

    def ev(self, n, st):
        """value of expression n in state st (st is updated by assignments / effects)"""
        k = n.get("kind")
        ks = kids(n)
        if k in ("ParenExpr", "ConstantExpr"):
            return self.ev(ks[0], st)
        if k in ("ImplicitCastExpr", "CStyleCastExpr"):
            ck = n.get("castKind")
            if ck in TRANSPARENT:
                return self.ev(ks[-1], st)
            if ck == "NullToPointer":
                return ("P", ("null",))
            if ck == "ToVoid":
                self.ev(ks[-1], st)
                return ("V",)
            if ck in ("IntegralCast", "IntegralToBoolean", "BooleanToSignedIntegral"):
                v = self.ev(ks[-1], st)
                ty = L.ctype(n)
                if ty is None:
                    raise SliceError("cast to a non-integer type")
                if ck == "IntegralToBoolean" or ty[1] == 1:
                    return ("B", self.b(v))
                e = self.z(v)
                src = L.ctype(ks[-1])
                if not ty[0]:
                    if src and not src[0] and src[1] <= ty[1]:
                        return ("Z", e)
                    return ("Z", "(wrapu %d %s)" % (ty[1], e))
                return ("Z", e)
            raise SliceError("unsupported cast %s" % ck)
        if k == "IntegerLiteral":
            return ("Z", "(%d)" % int(n["value"]))
        if k == "DeclRefExpr":
            rd = n.get("referencedDecl", {})
            rk = rd.get("kind")
            if rk == "EnumConstantDecl":
                if rd["name"] not in self.enums:
                    raise SliceError("unknown enum constant %s" % rd["name"])
                return ("Z", "(%d)" % self.enums[rd["name"]])
            if rk == "FunctionDecl":
                return ("P", ("fn", rd["name"]))
            if rk == "VarDecl" and rd.get("name") in TABLES:
                return ("P", ("tbl", rd["name"]))
            if rd.get("id") in st.env:
                v = st.env[rd["id"]]
                if v is None:
                    raise SliceError("variable %s is used before it is assigned in this loop iteration "
                                     "(loop-carried value)" % rd.get("name"))
                return v
            raise SliceError("unknown variable %s" % rd.get("name"))
        if k == "MemberExpr":
            base = self.ev(ks[0], st)
            nm = n.get("name", "")
            if nm == "":                                   # anonymous struct / union layer
                return base
            if base == ("P", ("ring",)):
                if nm in FIELDS:
                    return ("Z", FIELDS[nm])
                if nm == "cursor":
                    return ("Z", st.fld.get("cursor", "cur"))
                if nm == "read_cursor":
                    return ("Z", st.fld.get("read_cursor", "rc"))
                if nm == "blocks":
                    return ("P", ("blocks",))
                if nm in ("write_spin", "read_mutex", "read_cv", "flag"):
                    return ("P", ("member", nm))
                raise SliceError("unknown ring field %s" % nm)
            if base[0] == "P" and base[1][0] == "block" and nm == "data":
                return ("P", ("slot", base[1][1]))
            raise SliceError("unsupported member access .%s" % nm)
        if k == "ArraySubscriptExpr":
            a, i = self.ev(ks[0], st), self.ev(ks[1], st)
            if a == ("P", ("blocks",)):
                return ("P", ("block", self.z(i)))
            if a[0] == "P" and a[1][0] == "tbl":
                return ("P", ("tblfn", a[1][1], self.z(i)))
            raise SliceError("unsupported subscript")
        if k == "UnaryOperator":
            op = n.get("opcode")
            if op == "&":
                inner = ks[0]
                while inner.get("kind") == "ParenExpr":
                    inner = kids(inner)[0]
                if inner.get("kind") == "MemberExpr" and inner.get("name") in ("cursor", "read_cursor") and \
                        self.ev(kids(inner)[0], st) == ("P", ("ring",)):
                    return ("P", ("addr", inner["name"]))
                v = self.ev(inner, st)
                if v[0] == "P" and v[1][0] in ("member", "block"):
                    return ("P", ("addr",) + v[1])
                raise SliceError("unsupported address-of")
            if op == "*":
                v = self.ev(ks[0], st)
                if v[0] == "P" and v[1][0] in ("tblfn", "fn"):
                    return v
                raise SliceError("unsupported dereference")
            if op == "!":
                return ("B", "(negb %s)" % self.b(self.ev(ks[0], st)))
            if op == "-":
                return self.wrap(n, "(- %s)" % self.z(self.ev(ks[0], st)))
            if op == "+":
                return self.ev(ks[0], st)
            if op == "~":
                ty = L.ctype(n)
                e = self.z(self.ev(ks[0], st))
                return ("Z", "(2 ^ %d - 1 - %s)" % (ty[1], e)) if ty and not ty[0] else ("Z", "(- %s - 1)" % e)
            if op in ("++", "--"):
                one = {"kind": "IntegerLiteral", "value": "1", "type": n["type"]}
                fake = {"kind": "BinaryOperator", "opcode": "+" if op[0] == "+" else "-", "inner": [ks[0], one],
                        "type": n["type"]}
                old = self.ev(ks[0], st)
                new = self.ev(fake, st)
                self.assign(ks[0], new, st)
                return old if n.get("isPostfix") else new
            raise SliceError("unsupported unary %s" % op)
        if k == "ConditionalOperator":
            c = self.b(self.ev(ks[0], st))
            s1, s2 = st.copy(), st.copy()
            a, b_ = self.ev(ks[1], s1), self.ev(ks[2], s2)
            if (s1.env, s1.fld, s1.loads) != (st.env, st.fld, st.loads) or (s2.env, s2.fld) != (st.env, st.fld):
                raise SliceError("side effect inside a conditional operator")
            if a[0] == "P" or b_[0] == "P":
                raise SliceError("conditional operator on pointers")
            return ("Z", "(if %s then %s else %s)" % (c, self.z(a), self.z(b_)))
        if k in ("BinaryOperator", "CompoundAssignOperator"):
            op = n.get("opcode")
            if op == "=":
                v = self.ev(ks[1], st)
                self.assign(ks[0], v, st)
                return v
            if k == "CompoundAssignOperator":
                fake = {"kind": "BinaryOperator", "opcode": op[:-1], "inner": [ks[0], ks[1]],
                        "type": n.get("computeResultType", n["type"])}
                v = self.ev(fake, st)
                ty = L.ctype(n)
                if ty and not ty[0] and v[0] == "Z":
                    v = ("Z", "(wrapu %d %s)" % (ty[1], v[1]))
                self.assign(ks[0], v, st)
                return v
            if op == ",":
                self.ev(ks[0], st)
                return self.ev(ks[1], st)
            if op in ("&&", "||"):
                a = self.b(self.ev(ks[0], st))
                s2 = st.copy()
                b_ = self.b(self.ev(ks[1], s2))
                if (s2.env, s2.fld, s2.loads) != (st.env, st.fld, st.loads):
                    raise SliceError("side effect in the right operand of %s" % op)
                return ("B", "(%s %s %s)" % (a, op, b_))
            a, b_ = self.ev(ks[0], st), self.ev(ks[1], st)
            if a[0] == "P" or b_[0] == "P":
                raise SliceError("pointer operand of %s" % op)
            if op in ("<", "<=", ">", ">=", "=="):
                m = {"<": "<?", "<=": "<=?", ">": ">?", ">=": ">=?", "==": "=?"}
                return ("B", "(%s %s %s)" % (self.z(a), m[op], self.z(b_)))
            if op == "!=":
                return ("B", "(negb (%s =? %s))" % (self.z(a), self.z(b_)))
            x, y = self.z(a), self.z(b_)
            if op in ("+", "-", "*"):
                return self.wrap(n, "(%s %s %s)" % (x, op, y))
            if op == "/":
                return ("Z", "(cdiv %s %s)" % (x, y))
            if op == "%":
                return ("Z", "(crem %s %s)" % (x, y))
            if op == "&":
                return ("Z", "(Z.land %s %s)" % (x, y))
            if op == "|":
                return ("Z", "(Z.lor %s %s)" % (x, y))
            if op == "^":
                return ("Z", "(Z.lxor %s %s)" % (x, y))
            if op == "<<":
                return self.wrap(n, "(Z.shiftl %s %s)" % (x, y))
            if op == ">>":
                return ("Z", "(Z.shiftr %s %s)" % (x, y))
            raise SliceError("unsupported binary %s" % op)
        if k == "CallExpr":
            return self.call(n, st)
        if k == "AtomicExpr":
            # clang's JSON does not name the builtin: __atomic_load_n has (pointer, order) and a value,
            # __atomic_store_n has (pointer, order, value) and type void; anything else is refused
            void = n.get("type", {}).get("qualType") == "void"
            if len(ks) == 2 and not void:
                return self.atomic_load(ks[0], st)
            if len(ks) == 3 and void:
                return self.atomic_store(ks[0], ks[2], st)
            raise SliceError("unsupported atomic operation (%d operands)" % len(ks))
        raise SliceError("unsupported expression kind %s" % k)

    def atomic_load(self, ptr, st):
        if self.ev(ptr, st) != ("P", ("addr", "cursor")):
            raise SliceError("atomic load of something else than r->cursor")
        st.loads += 1
        if st.loads > 1:
            raise SliceError("two atomic loads of the cursor on one path")
        return ("Z", "wpos")

    def atomic_store(self, ptr, val, st):
        if self.ev(ptr, st) != ("P", ("addr", "cursor")):
            raise SliceError("atomic store to something else than r->cursor")
        if st.cur_st is not None:
            raise SliceError("two cursor stores")
        v = self.z(self.ev(val, st))
        st.cur_st = v
        st.fld["cursor"] = v
        return ("V",)

    def assign(self, lhs, v, st):
        while lhs.get("kind") == "ParenExpr":
            lhs = kids(lhs)[0]
        k = lhs.get("kind")
        if k == "DeclRefExpr":
            rd = lhs["referencedDecl"]
            if rd.get("kind") not in ("VarDecl", "ParmVarDecl"):
                raise SliceError("assignment to %s" % rd.get("kind"))
            st.env[rd["id"]] = self.norm(lhs, v)
            return
        if k == "MemberExpr":
            nm = lhs.get("name")
            base = self.ev(kids(lhs)[0], st)
            if base == ("P", ("ring",)) and nm == "read_cursor":
                if st.rc_st is not None:
                    raise SliceError("read_cursor stored twice")
                st.rc_st = self.z(v)
                st.fld["read_cursor"] = st.rc_st
                return
            if base[0] == "P" and base[1][0] == "block" and nm == "data":
                if v != ("P", ("data",)):
                    raise SliceError("a slot is assigned something else than the data argument")
                if st.slot_w is not None:
                    raise SliceError("two slot stores")
                st.slot_w = base[1][1]
                return
            raise SliceError("unsupported store to member %s" % nm)
        raise SliceError("unsupported assignment target %s" % k)

    def norm(self, node, v):
        """value as stored in a variable of node's type (unsigned: wrapped)"""
        if v[0] in ("Z", "B"):
            ty = L.ctype(node)
            if ty is None:
                raise SliceError("integer stored in a non-integer variable")
            return ("Z", self.z(v))
        return v

    def call(self, n, st):
        ks = kids(n)
        callee = self.ev(ks[0], st)
        args = ks[1:]
        if callee[0] != "P":
            raise SliceError("call of a non-function")
        d = callee[1]
        if d[0] == "tblfn":
            if d[1] not in TABLES:
                raise SliceError("call through an unknown table")
            av = []
            for a in args:
                v = self.ev(a, st)
                av.append(v[1] if v[0] in ("Z", "B") else "%s" % (v[1][0],))
            st.calls.append((TABLES[d[1]], d[2], av))
            return ("P", ("callret", len(st.calls) - 1))
        if d[0] != "fn":
            raise SliceError("unsupported callee %s" % (d,))
        name = d[1]
        if name == "__atomic_load_n":
            return self.atomic_load(args[0], st)
        if name == "__atomic_store_n":
            return self.atomic_store(args[0], args[1], st)
        if name in DROP_CALLS:
            v = self.ev(args[0], st)
            if not (v[0] == "P" and v[1][0] == "addr"):
                raise SliceError("%s on an unexpected object" % name)
            return ("Z", "(0)")
        if name == "muggle_sync_wait":
            if self.ev(args[0], st) != ("P", ("addr", "cursor")):
                raise SliceError("futex wait on something else than r->cursor")
            if st.waitv is not None:
                raise SliceError("two futex waits on one path")
            st.waitv = self.z(self.ev(args[1], st))
            return ("Z", "(0)")
        if name in ("muggle_sync_wake_one", "muggle_sync_wake_all"):
            if self.ev(args[0], st) != ("P", ("addr", "cursor")):
                raise SliceError("futex wake on something else than r->cursor")
            if st.wake:
                raise SliceError("two futex wakes on one path")
            st.wake = 1 if name.endswith("one") else 2
            return ("Z", "(0)")
        raise SliceError("call of %s inside an expression" % name)

    # ---- statements (continuation passing) ------------------------------------------------------------------
    def helper_call(self, n, st):
        """CallExpr node that calls a helper defined in the file (to be inlined), else None"""
        while n.get("kind") in ("ParenExpr", "ImplicitCastExpr", "CStyleCastExpr") and kids(n):
            n = kids(n)[-1]
        if n.get("kind") != "CallExpr":
            return None
        c = kids(n)[0]
        while c.get("kind") in ("ParenExpr", "ImplicitCastExpr") and kids(c):
            c = kids(c)[0]
        if c.get("kind") == "DeclRefExpr" and c.get("referencedDecl", {}).get("kind") == "FunctionDecl":
            nm = c["referencedDecl"]["name"]
            if nm in self.funcs and nm not in DROP_CALLS and not nm.startswith("muggle_sync_") and \
                    not nm.startswith("__"):
                return (nm, kids(n)[1:])
        return None

    def inline(self, name, args, st, kret, depth):
        if depth > 6:
            raise SliceError("helper nesting too deep at %s" % name)
        f = self.funcs[name]
        parms = [c for c in kids(f) if c.get("kind") == "ParmVarDecl"]
        if len(parms) != len(args):
            raise SliceError("argument count mismatch calling %s" % name)
        vals = [self.ev(a, st) for a in args]
        for p_, v in zip(parms, vals):
            st.env[p_["id"]] = self.norm(p_, v) if v[0] in ("Z", "B") else v
        body = [c for c in kids(f) if c.get("kind") == "CompoundStmt"][0]
        ctx = {"ret": kret, "brk": None, "cont": None, "depth": depth + 1}
        return self.run([body], st, ctx, lambda s: kret(s, ("V",)))

    def assigned_in(self, n, acc):
        k = n.get("kind")
        if k in ("BinaryOperator", "CompoundAssignOperator") and n.get("opcode", "").endswith("=") and \
                n.get("opcode") not in ("==", "!=", "<=", ">="):
            l = kids(n)[0]
            while l.get("kind") == "ParenExpr":
                l = kids(l)[0]
            if l.get("kind") == "DeclRefExpr":
                acc.add(l["referencedDecl"].get("id"))
        if k == "UnaryOperator" and n.get("opcode") in ("++", "--"):
            l = kids(n)[0]
            if l.get("kind") == "DeclRefExpr":
                acc.add(l["referencedDecl"].get("id"))
        for c in kids(n):
            self.assigned_in(c, acc)

    @staticmethod
    def const_cond(n):
        while n.get("kind") in ("ParenExpr", "ImplicitCastExpr", "ConstantExpr") and kids(n):
            n = kids(n)[0]
        if n.get("kind") == "IntegerLiteral":
            return int(n["value"]) != 0
        return None

    def cond(self, n, st, kt, kf):
        cc = self.const_cond(n)
        if cc is True:
            return kt(st)
        if cc is False:
            return kf(st)
        c = self.b(self.ev(n, st))
        return "(if %s\n   then %s\n   else %s)" % (c, kt(st.copy()), kf(st.copy()))

    def again(self, st):
        """the end of a loop iteration: the loop starts again"""
        return self.outcome(st, 1 if st.waitv is not None else 2, st.waitv if st.waitv is not None else "(-1)")

    def outcome(self, st, kind, val):
        f = lambda x: "(-1)" if x is None else x
        return "(%d, %s, %s, %s, %s, %d)" % (kind, val, f(st.slot_w), f(st.cur_st), f(st.rc_st), st.wake)

    def run(self, ss, st, ctx, k):
        if not ss:
            return k(st)
        s, rest = ss[0], ss[1:]
        kind = s.get("kind")
        nxt = lambda s2: self.run(rest, s2, ctx, k)
        if kind == "CompoundStmt":
            return self.run(kids(s) + rest, st, ctx, k)
        if kind == "NullStmt":
            return nxt(st)
        if kind == "DeclStmt":
            decls = [d for d in kids(s) if d.get("kind") == "VarDecl"]

            def do_decls(ds, s2):
                if not ds:
                    return nxt(s2)
                d = ds[0]
                init = kids(d)
                if not d.get("init") or not init:
                    s2.env[d["id"]] = None
                    return do_decls(ds[1:], s2)
                h = self.helper_call(init[-1], s2)
                if h:
                    def kr(s3, v, d=d):
                        s3.env[d["id"]] = self.norm(d, v) if v[0] in ("Z", "B") else v
                        return do_decls(ds[1:], s3)
                    return self.inline(h[0], h[1], s2, kr, ctx.get("depth", 0))
                v = self.ev(init[-1], s2)
                s2.env[d["id"]] = self.norm(d, v) if v[0] in ("Z", "B") else v
                return do_decls(ds[1:], s2)
            return do_decls(decls, st)
        if kind == "ReturnStmt":
            e = kids(s)
            if not e:
                return ctx["ret"](st, ("V",))
            h = self.helper_call(e[0], st)
            if h:
                return self.inline(h[0], h[1], st, ctx["ret"], ctx.get("depth", 0))
            return ctx["ret"](st, self.ev(e[0], st))
        if kind == "IfStmt":
            inner = kids(s)
            if s.get("hasInit") or s.get("hasVar"):
                raise SliceError("if with a declaration")
            then = [inner[1]]
            els = [inner[2]] if len(inner) > 2 else []
            return self.cond(inner[0], st, lambda s2: self.run(then + rest, s2, ctx, k),
                             lambda s2: self.run(els + rest, s2, ctx, k))
        if kind in ("WhileStmt", "DoStmt", "ForStmt"):
            raw = s.get("inner", [])
            if kind == "WhileStmt":
                init, cnd, inc, body = None, kids(s)[0], None, kids(s)[1]
            elif kind == "DoStmt":
                init, cnd, inc, body = None, kids(s)[1], None, kids(s)[0]
            else:
                if len(raw) != 5:
                    raise SliceError("unexpected for statement")
                g = lambda x: x if isinstance(x, dict) and x.get("kind") else None
                init, cnd, inc, body = g(raw[0]), g(raw[2]), g(raw[3]), g(raw[4])
                if g(raw[1]):
                    raise SliceError("for with a condition variable")
            pre = lambda s2, body_k: body_k(s2)
            if init is not None:
                def with_init(s2):
                    return self.run([init], s2, ctx, lambda s3: loop_head(s3))
            # variables assigned inside the loop are undefined at the head of an iteration
            acc = set()
            for part in (cnd, inc, body):
                if part is not None:
                    self.assigned_in(part, acc)

            def after(s2):
                return self.run(rest, s2, ctx, k)

            def end_iter(s2):
                if inc is not None:
                    self.ev(inc, s2)
                if kind == "DoStmt":
                    return test(s2, lambda s3: self.again(s3), after)
                return self.again(s2)

            def test(s2, kt, kf):
                if cnd is None:
                    return kt(s2)
                return self.cond(cnd, s2, kt, kf)
            lctx = dict(ctx)
            lctx["brk"] = after
            lctx["cont"] = end_iter

            def run_body(s2):
                return self.run([body], s2, lctx, end_iter)

            def loop_head(s2):
                for vid in acc:
                    if vid in s2.env:
                        s2.env[vid] = None
                if kind == "DoStmt":
                    return run_body(s2)
                return test(s2, run_body, after)
            if init is not None:
                return with_init(st)
            return loop_head(st)
        if kind == "BreakStmt":
            if not ctx.get("brk"):
                raise SliceError("break outside a loop")
            return ctx["brk"](st)
        if kind == "ContinueStmt":
            if not ctx.get("cont"):
                raise SliceError("continue outside a loop")
            return ctx["cont"](st)
        # expression statement
        h = self.helper_call(s, st)
        if h:
            return self.inline(h[0], h[1], st, lambda s2, v: nxt(s2), ctx.get("depth", 0))
        if kind in ("BinaryOperator",) and s.get("opcode") == "=":
            hs = self.helper_call(kids(s)[1], st)
            if hs:
                def kr(s2, v):
                    self.assign(kids(s)[0], v, s2)
                    return nxt(s2)
                return self.inline(hs[0], hs[1], st, kr, ctx.get("depth", 0))
        self.ev(s, st)
        return nxt(st)

    # ---- whole functions ------------------------------------------------------------------------------------
    def function(self, name, entry=False):
        if name not in self.funcs:
            raise SliceError("function %s not found" % name)
        f = self.funcs[name]
        self.cnt = 0
        st = St()
        ints = 0
        for p_ in [c for c in kids(f) if c.get("kind") == "ParmVarDecl"]:
            q = p_.get("type", {}).get("qualType", "")
            if L.ctype(p_) is not None:
                ints += 1
                if ints > 1:
                    raise SliceError("%s has more than one integer parameter" % name)
                st.env[p_["id"]] = ("Z", "idx")
            elif "muggle_ring_buffer" in q and q.rstrip().endswith("*"):
                st.env[p_["id"]] = ("P", ("ring",))
            elif q.replace(" ", "") == "void*":
                st.env[p_["id"]] = ("P", ("data",))
            else:
                raise SliceError("unsupported parameter type %s in %s" % (q, name))

        def kret(s2, v):
            if v == ("V",):
                val = "(-1)"
            elif v[0] == "P" and v[1][0] == "slot":
                val = v[1][1]
            elif v == ("P", ("null",)):
                val = "(-2)"
            elif v[0] == "P" and v[1][0] == "callret":
                val = "(-4)"
            elif entry and v[0] in ("Z", "B"):
                val = self.z(v)
            else:
                raise SliceError("%s returns %s" % (name, v))
            return self.outcome(s2, 0, val), s2
        calls_seen = []

        def kret_txt(s2, v):
            t, s3 = kret(s2, v)
            calls_seen.append(list(s3.calls))
            return t
        body = [c for c in kids(f) if c.get("kind") == "CompoundStmt"][0]
        ctx = {"ret": kret_txt, "brk": None, "cont": None, "depth": 0}
        txt = self.run([body], st, ctx, lambda s2: kret_txt(s2, ("V",)))
        return txt, calls_seen


def gallina(tu):
    """Gallina text of the sliced functions (gen_fn_*, the three dispatchers, the entry points)"""
    sl = Slicer(tu)
    out = []
    done = {}
    for tbl in sorted(TABLES, key=lambda t: TABLES[t]):
        for fn in sl.tables[tbl]:
            if fn in done:
                continue
            txt, calls = sl.function(fn)
            if any(calls):
                raise SliceError("%s calls through a dispatch table" % fn)
            done[fn] = True
            out.append("Definition gen_fn_%s (cap cur rc wpos idx : Z) : Z * Z * Z * Z * Z * Z :=\n  %s.\n" % (fn, txt))
    for tbl, gname in (("muggle_ring_buffer_write_functions", "gen_write_fn"),
                       ("muggle_ring_buffer_wake_functions", "gen_wake_fn"),
                       ("muggle_ring_buffer_read_functions", "gen_read_fn")):
        body = "(9, 0, 0, 0, 0, 0)"
        for i, fn in reversed(list(enumerate(sl.tables[tbl]))):
            body = "if m =? %d then gen_fn_%s cap cur rc wpos idx else\n  %s" % (i, fn, body)
        out.append("(* %s: %s *)\nDefinition %s (m cap cur rc wpos idx : Z) : Z * Z * Z * Z * Z * Z :=\n  %s.\n" % (
            tbl, ", ".join(sl.tables[tbl]), gname, body))
        out.append("Definition %s_len : Z := %d.\n" % (gname, len(sl.tables[tbl])))
    # entry points: which table is called with which index and which integer argument
    _, calls = sl.function("muggle_ring_buffer_write", entry=True)
    if len(calls) != 1:
        raise SliceError("muggle_ring_buffer_write has %d paths" % len(calls))
    rows = ["(%d, %s)" % (t, ix) for t, ix, _ in calls[0]]
    out.append("(* muggle_ring_buffer_write: (table, index) of the calls it makes, in order *)\n"
               "Definition gen_write_entry (wm rm : Z) : list (Z * Z) := [%s].\n" % "; ".join(rows))
    _, calls = sl.function("muggle_ring_buffer_read", entry=True)
    if len(calls) != 1 or len(calls[0]) != 1:
        raise SliceError("muggle_ring_buffer_read does not make exactly one table call")
    t, ix, av = calls[0][0]
    ints = [a for a in av if a != "ring"]
    if len(ints) != 1:
        raise SliceError("muggle_ring_buffer_read passes %s" % (av,))
    out.append("(* muggle_ring_buffer_read: table, index and the position it passes on *)\n"
               "Definition gen_read_entry (cap rm idx : Z) : Z * Z * Z := (%d, %s, %s).\n" % (t, ix, ints[0]))
    # the proofs never name a generated function: they unfold this hint database
    out.append("#[global] Hint Unfold %s gen_write_fn gen_wake_fn gen_read_fn gen_write_entry gen_read_entry : c02tie.\n" %
               " ".join("gen_fn_" + f for f in done))
    return "\n".join(out)


if __name__ == "__main__":
    import sys
    import os
    sys.path.insert(0, os.path.dirname(os.path.abspath(__file__)))
    import c02_scan
    repo = sys.argv[1] if len(sys.argv) > 1 else "/repo"
    inc = sys.argv[2:]
    tu = c02_scan.load_tu(os.path.join(repo, "muggle/c/sync/ring_buffer.c"),
                          ["-std=gnu11", "-DNDEBUG", "-DMUGGLEC_VERIF", "-DMUGGLE_C_EXPORTS", "-I" + repo] +
                          ["-I" + i for i in inc])
    print(gallina(tu))
