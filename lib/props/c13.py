"""C13 — event loop life-cycle; select / poll / epoll agree: plugin for bin/check.

One case = one script, run by the C driver on the three back-ends in turn (selected at run time
through muggle_event_loop_init_args_t.evloop_type).  The kernel log of the implementation run
("K" lines) is appended to the case for the model (model_cases), so the extracted model is driven
by what the kernel really reported (comparison 1: callbacks + tables handed to the kernel) and its
own kernel function is compared with the log ("Q" lines, comparison 2).
The monitor below is independent of the Coq model: a per-context life-cycle automaton on the
callback trace of each back-end, byte accounting from the executed actions, and cross-back-end
agreement for scripts of the confluent class S."""
import os
import re
import vcommon as V

ID = "C13"
COQ_DIRS = ["C13"]
MODEL_BASE = "c13_model"
OCAML_DRIVER = "ocaml/c13_driver.ml"
C_DRIVER = "harness/drivers/c13_driver.c"
REPO_SOURCES = [
    "muggle/c/event/event_loop.c", "muggle/c/event/internal/event_loop_epoll.c",
    "muggle/c/event/internal/event_loop_poll.c", "muggle/c/event/internal/event_loop_select.c",
    "muggle/c/event/event_context.c", "muggle/c/event/event_signal.c", "muggle/c/event/event_fd.c",
    "muggle/c/event/event.c", "muggle/c/dsaa/linked_list.c", "muggle/c/memory/memory_pool.c",
    "muggle/c/sync/ref_cnt.c", "muggle/c/time/time_counter.c", "muggle/c/base/thread.c",
]
LINK_FLAGS = ["-Wl,--wrap=poll", "-Wl,--wrap=select", "-Wl,--wrap=epoll_wait", "-Wl,--wrap=epoll_ctl"]
HEADER_LINES = 1
CASE_TIMEOUT = 6.0
MODEL_CASE_TIMEOUT = 6.0
SHRINK_BUDGET = 80
BACKENDS = ("select", "poll", "epoll")

RULE = ("seeded random scripts of 1..16 descriptors (pipes, unix socket pairs, loopback TCP) with actions write / "
        "half-close / close / add / shutdown-context / wakeup / exit executed from inside the loop's callbacks "
        "(byte-threshold triggers, idle phases), each run on select, poll and epoll, with/without node pool, "
        "hints_max_fd from exactly-fitting to too small; four streams: S (confluent class: agreement required), "
        "X (S plus cross-context shutdown / racing exit: the known-finding class), C (capacity rejection), "
        "R (unrestricted races: life-cycle and model tie only); a case is non-trivial when at least one read "
        "callback with bytes and one close or clear callback occurred; distinct = distinct script text")
TRUSTED_BASE = [
    "modelled, not verified: the kernel (readiness of pipes / unix / TCP sockets, level-triggered select and poll, "
    "edge-triggered epoll ready list and its order, one report per registered fd per epoll_wait) - the model's kernel "
    "function is compared with the logged reports on every run (Q lines); timers are not exercised",
    "harness: poll/select/epoll_wait/epoll_ctl are wrapped (-Wl,--wrap) to log; the wrapper's only intervention is the "
    "idle wake-up (muggle_evloop_wakeup when the kernel has nothing to report), which starts the next script phase",
]
ASSUMPTIONS = [
    "add_ctx only from the loop thread, callbacks do not block, a context is added at most once (Appendix B)",
    "read callbacks drain the descriptor (required by the edge-triggered epoll registration)",
    "single-threaded: to_exit status WAKE (cross-thread exit) is C14's",
]
EVIDENCE_NOTES = [
    "evl_backends_agree is proved for the sub-class SWT of S (evl_backends_agree_partial / evl_swt_outcome): every "
    "read-callback trigger WRITES to, HALF-CLOSES or CLOSES some context's peer, or WAKES the loop (threshold >= 1, distinct "
    "trigger lines); a peer terminated from a callback gets all its callback-issued writes/terminators from one context "
    "(S's single-source condition) and the trigger list is then in threshold order (as the drivers order it); every other "
    "action (add, and again write / half-close / close / wake-up) is issued before run() or from an idle phase (wake "
    "callback at quiescence), any number of phases, three descriptor kinds; no scripted exit or shutdown; adds fitting "
    "hints_max_fd.  The specification fires, between two phases, the least fixpoint of 'registered and threshold reached by "
    "the bytes written so far' (Kleene iteration, order-independent); a terminator is one more monotone fact (what reaches a "
    "terminated peer is a prefix of its single source's action sequence).  A context whose peer is terminated while input is "
    "pending is offered that input first by every back-end (EOF is only seen by reading behind the data): no divergence "
    "there, the known class is unchanged.  SW (write-only triggers, any order: evl_backends_agree_sw) and the flat class are "
    "special cases.  NOT proved (monitor-only): scripts of S with a trigger that shuts the ACTING context down at its "
    "threshold, or a trigger that ADDS a context; for those the proved part is evl_backends_agree_visit and the monitor "
    "checks agreement on every generated S script (220 per quick run incl. 20 flat, 30 SW and 30 SWT ones; 3200 per "
    "thorough run); evl_backends_agree_refuted shows agreement fails outside S",
    "evl_read_called_when_pending is proved for the three back-ends; for poll modulo the double decrement of n for an fd "
    "reporting POLLIN and POLLHUP together: read in this pass, or the slot is untouched and the context is reported readable "
    "again by the next kernel call (examples poll_double_decrement_skips_one_pass, read_poll_second_alternative): a delay, "
    "not a loss, hence no patch; combined with an exit requested in the skipping pass it falls in the racing-exit part of "
    "the known finding.  Bound on the delay (evl_poll_delay_step): a pass either reads the ready slot j or closes a context in a higher slot (the one counted twice), and nothing is appended in such a pass, so slot j is read after at most nfd-j passes (the per-pass statement is proved; the induction over passes is the stated consequence)",
    "class S as checked is narrower than DESIGN.md's sketch, because the real loops are order-sensitive in more ways: "
    "no scripted exit (the loop exits at quiescence), self-shutdown only once everything the script can send has been read, "
    "a peer terminated from a callback gets all its callback-issued writes from that same context, contexts <= hints_max_fd",
    "defect found and repaired (fixes/C13-select-stale-fd.patch, applied to /repo): the select back-end left the fd of a "
    "context that was added and closed in the same pass in allset (EBADF -> the loop exited unasked); the model has the "
    "repaired behaviour (evl_add_reject_remove_isolated, part 3)",
    "the node pool (use_mem_pool) grows on demand (muggle_memory_pool_alloc doubles), so hints_max_fd limits the number of "
    "contexts only in the poll back-end; select and epoll never refuse for capacity (observation)",
]



def build_impl(ctx):
    # the extracted model must follow Model.v edits: Extract.vo is not a dependency of the property
    # file, so bring it up to date here
    V.coq_make(["C13/Extract.vo"], timeout=900)
    return V.build_driver(ID, C_DRIVER, REPO_SOURCES, "impl_driver", link_flags=LINK_FLAGS)


ACT_KINDS = ("write", "hclose", "pclose", "add", "shut", "wake", "exit")


# ----------------------------------------------------------------------------------------------
# script parsing (mirrors the drivers: invalid references are dropped)

class Script:
    def __init__(self, lines):
        self.hints, self.pool, self.cls = 8, 0, "R"
        self.kinds = {}
        self.phases = [[]]
        self.trigs = []
        for ln in lines:
            w = ln.split()
            if not w:
                continue
            if w[0] == "LOG":
                break
            if w[0] == "cfg":
                for tok in w[1:]:
                    if tok.startswith("hints="):
                        self.hints = _int(tok[6:], 8)
                    elif tok.startswith("pool="):
                        self.pool = _int(tok[5:], 0)
                    elif tok.startswith("cls="):
                        self.cls = tok[4:]
            elif w[0] == "ctx" and len(w) >= 3:
                i = _int(w[1], -1)
                if 1 <= i < 40:
                    self.kinds[i] = w[2] if w[2] in ("pipe", "unix") else "tcp"
            elif w[0] == "phase":
                self.phases.append([])
            elif w[0] == "do":
                a = _act(w[1:])
                if a:
                    self.phases[-1].append(a)
            elif w[0] == "on" and len(w) >= 4:
                c, b = _int(w[1], -1), _int(w[2], -1)
                a = _act(w[3:])
                if 1 <= c < 40 and b >= 0 and a:
                    self.trigs.append((c, b, a))
        ok = lambda a: a[0] in ("wake", "exit") or a[1] in self.kinds  # noqa: E731
        self.phases = [[a for a in p if ok(a)] for p in self.phases]
        self.trigs = [t for t in self.trigs if ok(t[2])]

    def all_actions(self):
        for k, p in enumerate(self.phases):
            for a in p:
                yield ("phase", k, a)
        for c, b, a in self.trigs:
            yield ("trig", (c, b), a)

    def features(self):
        """static reasons why the script is outside the confluent class S"""
        f = set()
        W = {}
        for _, _, a in self.all_actions():
            if a[0] == "write":
                W[a[1]] = W.get(a[1], 0) + a[2]
        for where, at, a in self.all_actions():
            if a[0] == "exit":
                f.add("exit")
            if a[0] == "shut":
                if where == "phase" or at[0] != a[1]:
                    f.add("xshut")
                elif at[1] < W.get(a[1], 0):
                    f.add("early-selfshut")
        # a terminator issued from a trigger must not race with writes / terminators from other triggers
        for y in self.kinds:
            src_term = set(c for c, b, a in self.trigs if a[0] in ("hclose", "pclose") and a[1] == y)
            src_any = set(c for c, b, a in self.trigs if a[0] in ("hclose", "pclose", "write") and a[1] == y)
            if src_term and len(src_any) > 1:
                f.add("term-race")
        if len(self.kinds) > max(self.hints, 1) and self.hints >= 1:
            f.add("capacity")
        if self.hints < 1 and len(self.kinds) > 8:
            f.add("capacity")
        return f

    def xshut_targets(self):
        t = set()
        for where, at, a in self.all_actions():
            if a[0] == "shut" and (where == "phase" or at[0] != a[1]):
                t.add(a[1])
        return t


def _int(s, d):
    try:
        return int(s)
    except ValueError:
        return d


def _act(w):
    if not w:
        return None
    if w[0] in ("wake", "exit"):
        return (w[0],)
    if len(w) < 2:
        return None
    y = _int(w[1], -1)
    if not (1 <= y < 40):
        return None
    if w[0] == "write":
        if len(w) < 3:
            return None
        k = _int(w[2], -1)
        return ("write", y, k) if 0 <= k <= 4096 else None
    if w[0] in ("hclose", "pclose", "add", "shut"):
        return (w[0], y)
    return None


def _astr(a):
    return " ".join(str(x) for x in a)


# ----------------------------------------------------------------------------------------------
# generator

KINDS = ("pipe", "unix", "tcp")


def _gen_S(rng, name, nmax, cls="S"):
    n = rng.range(1, nmax)
    ids = list(range(1, n + 1))
    kinds = {i: rng.choice(KINDS) for i in ids}
    hints = n + rng.choice([0, 0, 1, 3])
    pool = rng.below(2)
    nph = rng.range(1, 4)
    phases = [[] for _ in range(nph + 1)]
    trigs = []
    # who may terminate y from a trigger (None: terminators only from phases)
    owner = {y: (rng.choice(ids) if rng.chance(1, 3) else None) for y in ids}
    # registration: most contexts before run, the rest from phases or triggers
    late = []
    for y in rng.shuffle(ids):
        if rng.chance(3, 4) or not phases[0]:
            phases[0].append(("add", y))
        else:
            late.append(y)
    for y in late:
        if rng.chance(1, 2):
            phases[rng.range(1, nph)].append(("add", y))
        else:
            trigs.append((rng.choice(ids), rng.range(1, 30), ("add", y)))
            if rng.chance(1, 3):   # a second, racing add: the first one wins
                trigs.append((rng.choice(ids), rng.range(1, 30), ("add", y)))
    # stimulus
    for k in range(nph + 1):
        for _ in range(rng.range(0 if k == 0 else 1, 1 + n // 2 + 1)):
            phases[k].append(("write", rng.choice(ids), rng.range(1, 40)))
    if not any(a[0] == "write" for a in phases[0]) and rng.chance(3, 4):
        phases[0].append(("write", rng.choice(ids), rng.range(1, 40)))
    # triggers: writes, wake-ups, owner-issued terminators
    for _ in range(rng.range(0, 2 * n + 2)):
        x = rng.choice(ids)
        b = rng.range(1, 60)
        r = rng.below(10)
        if r < 6:
            y = rng.choice(ids)
            if owner[y] is not None and owner[y] != x:
                x = owner[y]
            trigs.append((x, b, ("write", y, rng.range(1, 40))))
        elif r < 7:
            trigs.append((x, b, ("wake",)))
        else:
            cand = [y for y in ids if owner[y] is not None]
            if cand:
                y = rng.choice(cand)
                trigs.append((owner[y], b, (rng.choice(["hclose", "pclose"]), y)))
    # terminators from phases
    for y in ids:
        if rng.chance(1, 3):
            phases[rng.range(1, nph)].append((rng.choice(["hclose", "pclose", "pclose"]), y))
    # self shutdown once everything the script can ever send has been read
    W = {}
    for p in phases:
        for a in p:
            if a[0] == "write":
                W[a[1]] = W.get(a[1], 0) + a[2]
    for c, b, a in trigs:
        if a[0] == "write":
            W[a[1]] = W.get(a[1], 0) + a[2]
    for y in ids:
        if W.get(y, 0) > 0 and rng.chance(1, 4):
            trigs.append((y, W[y] + rng.choice([0, 0, 0, 5]), ("shut", y)))
    return _mk(name, hints, pool, cls, kinds, phases, trigs)


def _mk(name, hints, pool, cls, kinds, phases, trigs):
    lines = ["cfg hints=%d pool=%d cls=%s" % (hints, pool, cls)]
    for i in sorted(kinds):
        lines.append("ctx %d %s" % (i, kinds[i]))
    for k, p in enumerate(phases):
        if k > 0:
            lines.append("phase")
        for a in p:
            lines.append("do " + _astr(a))
    for c, b, a in trigs:
        lines.append("on %d %d %s" % (c, b, _astr(a)))
    return V.Case(name, lines, {"cls": cls})


def _relabel(case, cls):
    case.lines[0] = re.sub(r"cls=\S+", "cls=" + cls, case.lines[0])
    case.meta["cls"] = cls
    return case


def _gen_X(rng, name, nmax):
    """an S script plus cross-context shutdowns / racing exits (the known-finding class)"""
    c = _gen_S(rng, name, max(2, nmax), cls="X")
    sc = Script(c.lines)
    ids = sorted(sc.kinds)
    extra = []
    for _ in range(rng.range(1, 3)):
        r = rng.below(4)
        if r < 2 and len(ids) >= 2:
            x = rng.choice(ids)
            y = rng.choice([i for i in ids if i != x])
            extra.append("on %d %d shut %d" % (x, rng.range(1, 40), y))
        elif r == 2:
            extra.append("on %d %d exit" % (rng.choice(ids), rng.range(1, 40)))
        else:
            # shutdown from a phase (wake callback)
            idx = [i for i, ln in enumerate(c.lines) if ln == "phase"]
            y = rng.choice(ids)
            if idx:
                c.lines.insert(rng.choice(idx) + 1, "do shut %d" % y)
            else:
                extra.append("on %d %d shut %d" % (rng.choice(ids), rng.range(1, 40), y))
    c.lines += extra
    return c


def _gen_C(rng, name, nmax):
    """capacity: more contexts than hints_max_fd (only the poll back-end refuses)"""
    c = _gen_S(rng, name, max(3, nmax), cls="C")
    n = len(Script(c.lines).kinds)
    h = rng.range(1, max(1, n - 1))
    c.lines[0] = re.sub(r"hints=\d+", "hints=%d" % h, c.lines[0])
    return c


def _gen_R(rng, name, nmax):
    """unrestricted: every action from every place"""
    n = rng.range(1, nmax)
    ids = list(range(1, n + 1))
    kinds = {i: rng.choice(KINDS) for i in ids}
    hints = rng.choice([n, n, n + 2, max(1, n - 1), max(1, n // 2)])
    nph = rng.range(0, 3)
    phases = [[] for _ in range(nph + 1)]

    def ract(in_phase0=False):
        r = rng.below(20)
        y = rng.choice(ids)
        if r < 8:
            return ("write", y, rng.range(0, 48))
        if r < 10:
            return ("hclose", y)
        if r < 12:
            return ("pclose", y)
        if r < 15:
            return ("add", y)
        if r < 17:
            return ("shut", y)
        if r < 19 or in_phase0:
            return ("wake",)
        return ("exit",)
    for y in rng.shuffle(ids):
        if rng.chance(2, 3):
            phases[0].append(("add", y))
    for k in range(nph + 1):
        for _ in range(rng.range(0, n + 2)):
            phases[k].append(ract(k == 0))
    trigs = [(rng.choice(ids), rng.range(0, 60), ract()) for _ in range(rng.range(0, 3 * n + 2))]
    return _mk(name, hints, rng.below(2), "R", kinds, phases, trigs)


def corpus_cases(ctx):
    out = []
    d = os.path.join(V.VERIF, "corpus", "C13")
    if os.path.isdir(d):
        for f in sorted(os.listdir(d)):
            if f.endswith(".case"):
                out.append(V.Case.load(os.path.join(d, f)))
    return out


def generate(rng, tier):
    quick = tier == "quick"
    nS, nX, nC, nR = (140, 40, 30, 90) if quick else (2400, 500, 400, 1500)
    cases = []
    for i in range(nS):
        nmax = 16 if i % 3 == 0 else (6 if i % 3 == 1 else 3)
        cases.append(_gen_S(rng.fork("S%d" % i), "S-%d" % i, nmax))
    # the flat sub-class of S (no triggers): the one evl_backends_agree_partial is proved for
    for i in range(20 if quick else 200):
        c = _gen_S(rng.fork("F%d" % i), "F-%d" % i, 16 if i % 2 else 5)
        c.lines = [ln for ln in c.lines if not ln.startswith("on ")]
        cases.append(c)
    # the sub-class SW of S (triggers only write): the one evl_backends_agree_partial is proved for
    for i in range(30 if quick else 300):
        c = _gen_S(rng.fork("W%d" % i), "W-%d" % i, 16 if i % 2 else 5)
        keep, seen = [], set()
        for ln in c.lines:
            if ln.startswith("on "):
                w = ln.split()
                if w[3] != "write" or int(w[2]) < 1 or ln in seen:
                    continue
                seen.add(ln)
            keep.append(ln)
        c.lines = keep
        cases.append(c)
    # the sub-class SWT of S (triggers write / half-close / close peers / wake): evl_backends_agree_partial
    for i in range(30 if quick else 300):
        c = _gen_S(rng.fork("T%d" % i), "T-%d" % i, 16 if i % 2 else 5)
        keep, seen = [], set()
        for ln in c.lines:
            if ln.startswith("on "):
                w = ln.split()
                if w[3] not in ("write", "hclose", "pclose", "wake") or int(w[2]) < 1 or ln in seen:
                    continue
                seen.add(ln)
            keep.append(ln)
        c.lines = keep
        cases.append(c)
    for i in range(nX):
        cases.append(_gen_X(rng.fork("X%d" % i), "X-%d" % i, 16 if i % 2 else 4))
    for i in range(nC):
        cases.append(_gen_C(rng.fork("C%d" % i), "C-%d" % i, 16 if i % 2 else 5))
    for i in range(nR):
        cases.append(_gen_R(rng.fork("R%d" % i), "R-%d" % i, 16 if i % 3 == 0 else 5))
    return cases


def search(rng, diverging, tier):
    out = []
    for i in range(150):
        out.append(_gen_R(rng.fork("sR%d" % i), "search-R-%d" % i, 6))
        out.append(_gen_S(rng.fork("sS%d" % i), "search-S-%d" % i, 6))
    return out


# ----------------------------------------------------------------------------------------------
# model side: append the implementation's kernel log

def model_cases(cases, impl_results):
    out = []
    for c in cases:
        r = impl_results.get(c.name)
        lines = list(c.lines)
        if r and r.get("lines"):
            lines.append("LOG")
            for ln in r["lines"]:
                if ln.startswith("B ") or ln.startswith("K "):
                    lines.append(ln)
        out.append(V.Case(c.name, lines, c.meta))
    return out


# ----------------------------------------------------------------------------------------------
# independent monitor

def _sections(lines):
    secs, cur = {}, None
    for ln in lines:
        if ln.startswith("B "):
            cur = ln[2:].strip()
            secs[cur] = []
        elif cur is not None:
            secs[cur].append(ln)
    return secs


def _parse_out(s):
    res = []
    if s:
        for it in s.split(","):
            a, _, b = it.partition(":")
            res.append((_int(a, -1), _int(b, 0)))
    return res


def _field(ln, key):
    m = re.search(r"(?:^| )%s=(\S*)" % key, ln)
    return m.group(1) if m else ""


def _lifecycle(be, lines, sc, info):
    """per-context automaton over one back-end's trace.  Returns an error text or None; fills
    info[ctx] = (offered, end) and info['_x'] = cross-shut targets executed, info['_exit_raced']."""
    state = {y: "new" for y in sc.kinds}       # new -> reg -> closed | cleared ; rej
    written = {y: 0 for y in sc.kinds}
    offered = {y: 0 for y in sc.kinds}
    term = {y: False for y in sc.kinds}        # peer terminated or self shutdown executed
    cur = None                                 # callback being executed: ("r", x) | ("w",) | None
    cur_actions = 0
    exit_req = False
    exit_raced = False
    xshut = set()
    phase = "run"                              # run -> clear -> done
    seen_exit_cb = 0
    pend = None                                # (reported list, poll early-break excuse) of the current pass
    read_in_pass = set()

    def end_pass():
        if pend is None:
            return None
        rep, excuse = pend
        for x, fl in rep:
            if x <= 0 or not (fl & 1):
                continue
            if x in read_in_pass:
                continue
            if be == "poll" and excuse:
                continue
            if state.get(x) not in ("reg",) and x not in reg_at_pass:
                continue
            if x in reg_at_pass:
                return "read callback missing: context %d was reported readable to the %s loop while registered but got no read callback in that pass" % (x, be)
        return None
    reg_at_pass = set()
    for k, ln in enumerate(lines):
        w = ln.split()
        if not w:
            continue
        t = w[0]
        if t == "K":
            if len(w) > 1 and w[1] == "runaway":
                return "%s loop keeps calling the kernel and never exits (a reported descriptor is never served)" % be
            if len(w) > 1 and w[1] == "stuck":
                return "%s loop blocked with nothing to report (lost wake-up or lost registration)" % be
            e = end_pass()
            if e:
                return e
            if exit_req:
                return "%s loop made another kernel call after exit was requested" % be
            if phase != "run":
                return "%s: kernel call after the clear/exit callbacks" % be
            rep = _parse_out(_field(ln, "out"))
            excuse = any((fl & 1) and (fl & 6) for x, fl in rep)
            pend = (rep, excuse)
            read_in_pass = set()
            reg_at_pass = set(y for y in state if state[y] == "reg")
            cur = None
            continue
        if t == "Q":
            continue
        if t == "a":
            kind = w[1]
            res = w[-1]
            cur_actions += 1
            if kind in ("wake", "exit"):
                if kind == "exit" and res == "ok":
                    exit_req = True
                    if cur is None or cur[0] == "r":
                        exit_raced = True
                    info.setdefault("_exit_cb", []).append((cur, k))
                continue
            y = _int(w[2], -1)
            if y not in state:
                return "%s: action on undeclared context in trace: %s" % (be, ln)
            if kind == "write" and res == "ok":
                written[y] += _int(w[3], 0)
            elif kind in ("hclose", "pclose") and res == "ok":
                term[y] = True
            elif kind == "add":
                if res == "ok":
                    if state[y] != "new":
                        return "%s: add of context %d accepted twice" % (be, y)
                    state[y] = "reg"
                elif res == "rej":
                    state[y] = "rej"
            elif kind == "shut" and res == "ok":
                term[y] = True
                if cur is None or cur != ("r", y):
                    xshut.add(y)
            continue
        if phase == "done":
            if t == "F":
                y = _int(w[1], -1)
                if y in state:
                    off = _int(_field(ln, "off"), -1)
                    end = _field(ln, "end")
                    cc, xc = _int(_field(ln, "cc"), 0), _int(_field(ln, "xc"), 0)
                    if cc > 1:
                        return "%s: close callback ran %d times for context %d" % (be, cc, y)
                    if xc > 1:
                        return "%s: clear callback ran %d times for context %d" % (be, xc, y)
                    if cc and xc:
                        return "%s: context %d was both closed and cleared" % (be, y)
                    if end == "lost":
                        return "%s: context %d was registered but neither closed nor cleared" % (be, y)
                    exp = {"closed": "closed", "cleared": "cleared", "new": "unreg", "rej": "rej"}.get(state[y])
                    if exp != end or off != offered[y]:
                        return "%s: summary of context %d (%s, %d bytes) contradicts its trace (%s, %d bytes)" % (be, y, end, off, exp, offered[y])
                    info[y] = (off, end)
                continue
            return "%s: callback after the exit callback: %s" % (be, ln)
        if t == "r":
            x = _int(w[1], -1)
            cur, cur_actions = ("r", x), 0
            if phase != "run":
                return "%s: read callback for context %d after the loop finished" % (be, x)
            if x not in state:
                return "%s: read callback for unknown context %d" % (be, x)
            if w[2] == "afterclose" or state[x] == "closed":
                return "%s: read callback for context %d after its close callback" % (be, x)
            if state[x] != "reg":
                return "%s: read callback for context %d which is not registered (%s)" % (be, x, state[x])
            n = _int(w[2], 0)
            offered[x] += n
            read_in_pass.add(x)
            if offered[x] > written[x]:
                return "%s: context %d was offered %d bytes but only %d were written to it" % (be, x, offered[x], written[x])
        elif t == "c":
            x = _int(w[1], -1)
            cur = ("c", x)
            if phase != "run":
                return "%s: close callback for context %d after the loop finished" % (be, x)
            if state.get(x) == "closed":
                return "%s: close callback ran twice for context %d" % (be, x)
            if state.get(x) != "reg":
                return "%s: close callback for context %d which is not registered (%s)" % (be, x, state.get(x))
            state[x] = "closed"
        elif t == "w":
            cur, cur_actions = ("w",), 0
            if phase != "run":
                return "%s: wake callback after the loop finished" % be
        elif t == "x":
            x = _int(w[1], -1)
            if phase == "run":
                e = end_pass()
                if e:
                    return e
                pend = None
                if not exit_req:
                    return "%s: clear callback although exit was never requested" % be
                phase = "clear"
            if state.get(x) == "cleared":
                return "%s: clear callback ran twice for context %d" % (be, x)
            if state.get(x) == "closed":
                return "%s: clear callback for context %d after its close callback" % (be, x)
            if state.get(x) != "reg":
                return "%s: clear callback for context %d which is not registered (%s)" % (be, x, state.get(x))
            state[x] = "cleared"
        elif t == "e":
            if phase == "run":
                e = end_pass()
                if e:
                    return e
                pend = None
                if not exit_req:
                    return "%s: exit callback although exit was never requested" % be
            seen_exit_cb += 1
            if seen_exit_cb > 1:
                return "%s: exit callback ran twice" % be
            for y in state:
                if state[y] == "reg":
                    return "%s: context %d still registered at exit got neither close nor clear callback" % (be, y)
            phase = "done"
        elif t in ("NOEXIT", "new"):
            return "%s: %s" % (be, ln)
        elif t == "HARNESS-ERROR":
            return "harness error: " + ln
        else:
            return "%s: unexpected trace line %r" % (be, ln)
    if seen_exit_cb != 1:
        return "%s: exit callback ran %d times" % (be, seen_exit_cb)
    for y in sc.kinds:
        if y not in info:
            return "%s: no summary for context %d" % (be, y)
    for cb, k in info.get("_exit_cb", []):
        if cb == ("w",):
            prev_is_w = k > 0 and lines[k - 1].split()[:1] == ["w"]
            next_is_a = k + 1 < len(lines) and lines[k + 1].startswith("a ")
            if not prev_is_w or next_is_a:
                exit_raced = True
    info["_x"] = xshut
    info["_exit_raced"] = exit_raced
    info["_written"] = written
    info["_term"] = term
    info["_state"] = state
    return None


def monitor(case, lines):
    sc = Script(case.lines)
    secs = _sections(lines)
    infos = {}
    for be in BACKENDS:
        if be not in secs:
            return "no output for back-end %s" % be
        info = {}
        e = _lifecycle(be, secs[be], sc, info)
        if e:
            return "life-cycle: " + e
        infos[be] = info
    cls = sc.cls
    feats = sc.features()
    # inside S every byte written reaches the read callback and the outcome is determined by the script
    if cls == "S":
        if feats:
            return "generator error: script tagged S has features %s" % sorted(feats)
        for be in BACKENDS:
            inf = infos[be]
            for y in sorted(sc.kinds):
                off, end = inf[y]
                st = inf["_state"][y]
                if st in ("new", "rej"):
                    continue
                if off != inf["_written"][y]:
                    return "delivery: %s offered context %d %d of the %d bytes written to it before the loop exited at quiescence" % (
                        be, y, off, inf["_written"][y])
                want = "closed" if inf["_term"][y] else "cleared"
                if end != want:
                    return "outcome: %s left context %d %s, expected %s (peer terminated or self shutdown: %s)" % (
                        be, y, end, want, inf["_term"][y])
    # agreement
    if cls in ("S", "X", "C"):
        group = BACKENDS if cls != "C" else ("select", "epoll")
        bad = []
        for y in sorted(sc.kinds):
            vals = [infos[be][y] for be in group]
            if any(v != vals[0] for v in vals):
                bad.append(y)
        if bad:
            xs = set()
            raced = False
            for be in BACKENDS:
                xs |= infos[be]["_x"]
                raced = raced or infos[be]["_exit_raced"]
            y = bad[0]
            return "agreement: contexts %s differ between back-ends; context %d: %s [cross-shutdown executed on: %s; racing exit: %s]" % (
                ",".join(map(str, bad)), y,
                " ".join("%s=(%d bytes,%s)" % (be, infos[be][y][0], infos[be][y][1]) for be in BACKENDS),
                ",".join(map(str, sorted(xs))) or "-", "yes" if raced else "no")
    return None


def known_class(case, failure_text):
    """cross-shutdown: agreement failure caused by a context shut down from ANOTHER context's callback
    (or the wake callback), or by exit requested from a callback, while input is still undelivered."""
    if not failure_text or not failure_text.startswith("agreement:"):
        return None
    sc = Script(case.lines)
    feats = sc.features()
    if not feats or not feats <= {"xshut", "exit"}:
        return None
    m = re.search(r"contexts (\S+) differ.*\[cross-shutdown executed on: (\S+); racing exit: (\w+)\]", failure_text)
    if not m:
        return None
    bad = set(_int(x, -1) for x in m.group(1).split(","))
    xs = set() if m.group(2) == "-" else set(_int(x, -1) for x in m.group(2).split(","))
    raced = m.group(3) == "yes"
    if (xs & bad) or (xs and "xshut" in feats and _downstream(sc, xs) & bad) or (raced and "exit" in feats):
        return "cross-shutdown"
    return None


def _downstream(sc, srcs):
    """contexts whose input can depend on the given ones through trigger actions"""
    reach = set(srcs)
    changed = True
    while changed:
        changed = False
        for c, b, a in sc.trigs:
            if c in reach and len(a) > 1 and a[1] not in reach:
                reach.add(a[1])
                changed = True
    return reach


# ----------------------------------------------------------------------------------------------

def nontrivial_key(case, lines):
    has_r = any(ln.startswith("r ") and not ln.endswith(" 0") for ln in lines)
    has_c = any(ln.startswith("c ") or ln.startswith("x ") for ln in lines)
    return "\n".join(case.lines) if has_r and has_c else None


def tally(dist, case, lines):
    sc = Script(case.lines)

    def inc(k, n=1):
        dist[k] = dist.get(k, 0) + n
    inc("class=%s" % sc.cls)
    if sc.cls == "S" and not sc.trigs:
        inc("class=S-flat")
    elif sc.cls == "S" and all(a[0] == "write" and b >= 1 for c, b, a in sc.trigs) and \
            len(set(sc.trigs)) == len(sc.trigs) and not any(a[0] in ("shut", "exit") for p in sc.phases for a in p):
        inc("class=S-sw")
    elif sc.cls == "S" and all(a[0] in ("write", "hclose", "pclose", "wake") and b >= 1 for c, b, a in sc.trigs) and \
            len(set(sc.trigs)) == len(sc.trigs) and not any(a[0] in ("shut", "exit") for p in sc.phases for a in p):
        inc("class=S-swt")
    inc("contexts", len(sc.kinds))
    inc("pool=%d" % sc.pool)
    for k in sc.kinds.values():
        inc("kind=%s" % k)
    be = None
    for ln in lines:
        if ln.startswith("B "):
            be = ln[2:]
        elif ln.startswith("K "):
            inc("cmp1_oracle_iterations_%s" % be)      # kernel reports fed to the model (bookkeeping comparison)
            if "idle=1" in ln:
                inc("idle_wakeups")
        elif ln.startswith("Q "):
            inc("cmp2_kernel_predictions_%s" % be)     # model kernel function compared with the log
        elif ln.startswith("a "):
            w = ln.split()
            inc("act_%s_%s" % (w[1], w[-1]))
        elif ln.startswith("r "):
            inc("cb_read")
        elif ln.startswith("c "):
            inc("cb_close")
        elif ln.startswith("x "):
            inc("cb_clear")
        elif ln.startswith("w"):
            inc("cb_wake")


MANIFEST = {
    "level_text": ("Unbounded Coq theorems over an executable model transcribing the three back-end loop bodies "
                   "(select's fd-set rebuild while walking ctx_list, poll's reverse walk with swap-with-last and its "
                   "n accounting, epoll's EPOLLIN-else-ERR|HUP branch with edge-triggered registration), "
                   "muggle_evloop_add_ctx and the clear/exit epilogue, with scripted callbacks and the kernel as an "
                   "oracle: for every script, every oracle and every number of iterations each back-end closes a "
                   "context at most once, never calls back after close, clears exactly the still-registered contexts "
                   "once, exits once, reads every context the kernel reported; add / capacity-reject / remove leave "
                   "every other context's registration and data untouched; agreement of the back-ends is proved for the "
                   "sub-class SWT of S (read-callback triggers that write to / half-close / close peers or wake the loop; "
                   "everything else issued from idle phases) via a least-fixpoint specification, and refuted in general "
                   "(known finding cross-shutdown).  Model tied to the code by running "
                   "the real loops on real pipes / socket pairs / loopback TCP and feeding the logged kernel reports to "
                   "the extracted model; independent life-cycle/accounting/agreement monitor."),
    "design_ref": "DESIGN.md section 6 / C13, section 5 row C13",
    "level_note": ("Environment is an oracle: kernel readiness and epoll ready-list order are modelled and compared with the "
                   "log on every run, not verified.  Agreement holds only inside the confluent class S; outside it the "
                   "known finding cross-shutdown applies."),
    "technique": "Coq invariants over a transcribed dispatch model + oracle-driven differential run against the real loops + trace monitor",
}
