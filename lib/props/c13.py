"""C13 — event loop life-cycle; select / poll / epoll agree: plugin for bin/check.

One case = one script, run by the C driver on the three back-ends in turn (selected at run time
through muggle_event_loop_init_args_t.evloop_type).  The kernel log of the implementation run
("K" lines) is appended to the case for the model (model_cases), so the extracted model is driven
by what the kernel really reported (comparison 1: callbacks + tables handed to the kernel) and its
own kernel function is compared with the log ("Q" lines, comparison 2).
The monitor below is independent of the Coq model: a per-context life-cycle automaton on the
callback trace of each back-end, byte accounting from the executed actions, and cross-back-end
agreement for scripts of the confluent class S."""
import os
import re
import vcommon as V

ID = "C13"
COQ_DIRS = ["C13"]
MODEL_BASE = "c13_model"
OCAML_DRIVER = "ocaml/c13_driver.ml"
C_DRIVER = "harness/drivers/c13_driver.c"
REPO_SOURCES = [
    "muggle/c/event/event_loop.c", "muggle/c/event/internal/event_loop_epoll.c",
    "muggle/c/event/internal/event_loop_poll.c", "muggle/c/event/internal/event_loop_select.c",
    "muggle/c/event/event_context.c", "muggle/c/event/event_signal.c", "muggle/c/event/event_fd.c",
    "muggle/c/event/event.c", "muggle/c/dsaa/linked_list.c", "muggle/c/memory/memory_pool.c",
    "muggle/c/sync/ref_cnt.c", "muggle/c/time/time_counter.c", "muggle/c/base/thread.c",
]
LINK_FLAGS = ["-Wl,--wrap=poll", "-Wl,--wrap=select", "-Wl,--wrap=epoll_wait", "-Wl,--wrap=epoll_ctl"]
HEADER_LINES = 1
CASE_TIMEOUT = 6.0
MODEL_CASE_TIMEOUT = 6.0
SHRINK_BUDGET = 80
BACKENDS = ("select", "poll", "epoll")

RULE = ("seeded random scripts of 1..16 descriptors (pipes, unix socket pairs, loopback TCP) with actions write / "
        "half-close / close / RESET (a socket peer closing with SO_LINGER 0 or with unread data: the read behind the "
        "pending data fails with ECONNRESET) / add / shutdown-context / wakeup / exit executed from inside the loop's "
        "callbacks (byte-threshold triggers, idle phases, timer phases), each run on select, poll and epoll, with/without "
        "node pool, hints_max_fd from exactly-fitting to too small and < 1 (default 8); streams: S (confluent class: "
        "every byte delivered, terminated => closed, agreement; with flat / SW / SWT sub-streams), P (exit requested "
        "BEFORE run with 0..16 contexts having pending input / closed peers: exactly one pass, agreement), T (timer of "
        "interval 0 with scripted timer phases, each preceded by enough empty ticks for quiescence: kernel calls "
        "returning n = 0, one tick after every pass, exit from the timer callback, S clauses), X (S plus cross-context "
        "shutdown / racing exit, and pre-run exit with several descriptors reporting input and hang-up together: the "
        "known-finding class, accepted only with per-context evidence), C (capacity rejection), R (unrestricted "
        "races, also timer phases racing with the passes: life-cycle and model tie only), E (monitor-only edge "
        "scenarios: each of the 64 subsets of the six callbacks left NULL x refused registrations - regular file on "
        "epoll, second context on a registered descriptor on epoll, registration from a foreign thread - with the "
        "loop's ctx_list and the tables handed to the kernel as observables); a case is non-trivial when at least "
        "one read callback with bytes and one close or clear callback occurred; distinct = distinct script text")
TRUSTED_BASE = [
    "modelled, not verified: the kernel (readiness of pipes / unix / TCP sockets incl. reset connections, level-triggered "
    "select and poll, edge-triggered epoll ready list and its order, one report per registered fd per epoll_wait) - the "
    "model's kernel function is compared with the logged reports on every run (Q lines); timers: only interval 0 is "
    "executed (a tick after every pass, the kernel call returning n = 0 when nothing is ready); the time source and "
    "positive intervals are covered by the translator obligations only (gen_*_run_timer)",
    "harness: poll/select/epoll_wait/epoll_ctl are wrapped (-Wl,--wrap) to log; the wrapper's only intervention is the "
    "idle wake-up (muggle_evloop_wakeup when the kernel has nothing to report), which starts the next script phase; "
    "with a timer installed there is no intervention (n = 0 is passed through to the loop)",
    "translator tie: lib/props/c13_slice.py (symbolic execution of the clang AST of the event-loop sources, run on every "
    "check) and clang's AST dump; library calls outside the sliced functions (poll/select/epoll_wait as opaque kernel "
    "calls, the linked list, the event signal, the time counter) are summarised by effect tokens",
]
ASSUMPTIONS = [
    "add_ctx only from the loop thread, callbacks do not block, a context is added at most once (Appendix B)",
    "read callbacks drain the descriptor (required by the edge-triggered epoll registration)",
    "single-threaded: to_exit status WAKE (cross-thread exit) is C14's",
]
EVIDENCE_NOTES = [
    "translator tie (second tie, every run): gen_params compiles harness/drivers/c13_params.c (constants, sizeof) and "
    "slices 28 instances of the functions muggle_evloop_run_poll/_epoll/_select, muggle_evloop_add_ctx(_poll/_select/"
    "_epoll), muggle_evloop_init(_poll/_epoll/_select), muggle_evloop_run and muggle_ev_ctx_read out of the C text "
    "into coq/gen/Params_C13.v (nested Gallina ifs over effect-token lists); each gen_* term is proved equal to the "
    "hand-written reference of C13/Decide.v by the shape-independent tactic ev_decide (C13/ProofsGen.v) and the "
    "reference's per-event decision is proved to be the model's step (C13/ProofsGenModel.v: poll_step_is_dec, "
    "ep_step_is_dec, sel_walk_is_dec, slot_remove_is_poll_remove, model_capacity_is_code).  Instances with a timer, "
    "with every callback NULL, with read errors (muggle_ev_ctx_read: EINTR retried, EWOULDBLOCK not flagged, any other "
    "error and end of file flag CLOSED), add_ctx from a foreign thread / failing set_nonblock / refusing back-end "
    "(rollback of the list node), hints_max_fd < 1 (default 8).  A slicer failure is written as a comment in place of "
    "the definition, so the obligation breaks",
    "evl_backends_agree is proved for the sub-class SWT of S (evl_backends_agree_partial / evl_swt_outcome): every "
    "read-callback trigger WRITES to, HALF-CLOSES or CLOSES some context's peer, or WAKES the loop (threshold >= 1, distinct "
    "trigger lines); a peer terminated from a callback gets all its callback-issued writes/terminators from one context "
    "(S's single-source condition) and the trigger list is then in threshold order (as the drivers order it); every other "
    "action (add, and again write / half-close / close / wake-up) is issued before run() or from an idle phase (wake "
    "callback at quiescence), any number of phases, three descriptor kinds; no scripted exit, shutdown or reset, no "
    "timer; adds fitting hints_max_fd.  The boundary of that class is a theorem in both directions: "
    "evl_swt_boundary_complete (swt sc = true iff none of 15 syntactic features occurs) and "
    "evl_swt_boundary_witnesses (for 10 of the features a concrete script with exactly that one feature on which two "
    "back-ends disagree: trigger exit, cross-context shutdown, early self-shutdown, threshold 0, unsorted triggers, "
    "several sources, exit / shutdown from a phase, capacity, timer); for the other 5 (trigger add, self-shutdown "
    "after everything was read, duplicate trigger lines, reset from a trigger or a phase) neither a proof nor a "
    "counterexample is known: the examples agree (open_features_agree_on_examples) and the monitor checks agreement "
    "on every generated S script",
    "exit requested before muggle_evloop_run (seed C13-9): muggle_evloop_exit wakes the loop in both branches, so the "
    "first kernel call returns and the loop performs EXACTLY ONE dispatch pass (evl_prerun_exit_one_pass); for the "
    "class PRX (one phase, no triggers, no shutdown/reset, adds fitting, at most one registered descriptor reporting "
    "input and hang-up together, no timer) the three back-ends agree and the outcome is closed-form "
    "(evl_prerun_exit_outcome / evl_prerun_exit_agree); with two such descriptors the poll back-end's double "
    "decrement stops above a ready slot (evl_prerun_exit_double_refuted, finding C13-prerun-exit-double.case)",
    "known class cross-shutdown is accepted only with evidence computed from the three traces (_known_evidence, "
    "patterns G1..G5): which back-end is the outlier, that input for the context was undelivered at the foreign "
    "shutdown (or a write was skipped after it), that the full-delivery back-ends agree with each other; the outlier "
    "is not always poll (findings C13-cross-shutdown-select.case, -order.case); a divergence on a context unrelated to "
    "the shutdown / exit, or a back-end losing bytes it had no pending shutdown for, is reported",
    "timers and read errors are inside the model's quantifier: scripts may install a timer (interval 0; ETimer, timer "
    "phases, exit after the last) and reset a socket peer (AReset: IN | HUP | ERR, the read behind the pending data "
    "flags the context: evl_read_error_flags); every life-cycle theorem is re-proved for such scripts; "
    "evl_timer_tick_each_pass; the agreement classes exclude both (monitor: S scripts with resets and T scripts must "
    "agree; a timer phase that runs before quiescence races with the passes - class R)",
    "evl_read_called_when_pending is proved for the three back-ends; for poll modulo the double decrement of n for an fd "
    "reporting POLLIN and POLLHUP together: read in this pass, or the slot is untouched and the context is reported readable "
    "again by the next kernel call (examples poll_double_decrement_skips_one_pass, read_poll_second_alternative): a delay, "
    "not a loss, hence no patch; combined with an exit requested in the skipping pass it falls in the racing-exit part of "
    "the known finding.  Bound on the delay (evl_poll_delay_step): a pass either reads the ready slot j or closes a context in a higher slot (the one counted twice), and nothing is appended in such a pass, so slot j is read after at most nfd-j passes (the per-pass statement is proved; the induction over passes is the stated consequence)",
    "class S as checked is narrower than DESIGN.md's sketch, because the real loops are order-sensitive in more ways: "
    "no scripted exit (the loop exits at quiescence), self-shutdown only once everything the script can send has been read, "
    "a peer terminated from a callback gets all its callback-issued writes from that same context, contexts <= hints_max_fd",
    "defect found and repaired (fixes/C13-select-stale-fd.patch, applied to /repo): the select back-end left the fd of a "
    "context that was added and closed in the same pass in allset (EBADF -> the loop exited unasked); the model has the "
    "repaired behaviour (evl_add_reject_remove_isolated, part 3)",
    "the node pool (use_mem_pool) grows on demand (muggle_memory_pool_alloc doubles), so hints_max_fd limits the number of "
    "contexts only in the poll back-end; select and epoll never refuse for capacity (observation)",
    "edge scenarios (class E) have no model run (both drivers print EDGE; canon): their oracle is the Python monitor "
    "alone - callbacks that are not installed never run, exit callback once and last, clear callback exactly for the "
    "contexts left in ctx_list, a context whose end of file was read is removed from ctx_list and from the table handed "
    "to the kernel WITH OR WITHOUT a close callback, a refused registration (regular file on epoll: EPERM, second "
    "context on a registered descriptor: EEXIST, foreign thread) is rolled back (not in ctx_list, no callback, never "
    "handed to the kernel), exit requested before run gives exactly one kernel call.  With a NULL read callback only "
    "the life-cycle clauses are checked (nobody drains the descriptors; which back-end notices a hang-up then differs "
    "by construction: the per-back-end decision is pinned by the gen_*_nocb obligations)",
]



# second tie (translator kind): functions of the event-loop sources sliced into Gallina on every run
_EV = "muggle/c/event/"
CONST_FIELDS = [
    ("k_pollin", "POLLIN"), ("k_pollhup", "POLLHUP"), ("k_pollerr", "POLLERR"), ("k_epin", "EPOLLIN"),
    ("k_ephup", "EPOLLHUP"), ("k_eperr", "EPOLLERR"), ("k_epet", "EPOLLET"), ("k_ctl_add", "EPOLL_CTL_ADD"),
    ("k_ctl_del", "EPOLL_CTL_DEL"), ("k_closed", "MUGGLE_EV_CTX_FLAG_CLOSED"), ("k_exit", "MUGGLE_EV_LOOP_EXIT_STATUS_EXIT"),
    ("k_wake", "MUGGLE_EV_LOOP_EXIT_STATUS_WAKE"), ("k_eintr", "MUGGLE_SYS_ERRNO_INTR"),
    ("k_ewouldblock", "MUGGLE_SYS_ERRNO_WOULDBLOCK"),
    ("k_invalid_fd", "MUGGLE_INVALID_EVENT_FD"), ("k_fd_setsize", "FD_SETSIZE"),
    ("k_sz_pollfd", "sizeof:struct pollfd"), ("k_sz_ptr", "sizeof:void *"), ("k_sz_epev", "sizeof:struct epoll_event"),
    ("k_sz_list", "sizeof:muggle_linked_list_t"), ("k_sz_signal", "sizeof:muggle_event_signal_t"),
]


def gen_instances():
    from props import c13_slice as S
    P, E, SEL = _EV + "internal/event_loop_poll.c", _EV + "internal/event_loop_epoll.c", _EV + "internal/event_loop_select.c"
    L, C = _EV + "event_loop.c", _EV + "event_context.c"
    return [
        ("gen_poll_run_2", P, S.poll_run(2, 1)),
        ("gen_poll_run_3", P, S.poll_run(3, 0)),
        ("gen_poll_run_timer", P, S.poll_run(1, 0, timer=True)),
        ("gen_poll_run_nocb", P, S.poll_run(2, 0, cbs=())),
        ("gen_add_ctx_poll", P, S.add_ctx_poll()),
        ("gen_init_poll", P, S.init_poll()),
        ("gen_epoll_run_none", E, S.epoll_run("none", [])),
        ("gen_epoll_run_err", E, S.epoll_run("err", None)),
        ("gen_epoll_run_c", E, S.epoll_run("c", ["C"])),
        ("gen_epoll_run_s", E, S.epoll_run("s", ["S"])),
        ("gen_epoll_run_cs", E, S.epoll_run("cs", ["C", "S"])),
        ("gen_epoll_run_sc", E, S.epoll_run("sc", ["S", "C"])),
        ("gen_epoll_run_cc", E, S.epoll_run("cc", ["C", "C"])),
        ("gen_epoll_run_timer", E, S.epoll_run("timer", [], timer=True)),
        ("gen_epoll_run_nocb", E, S.epoll_run("nocb", ["C", "S"], cbs=())),
        ("gen_add_ctx_epoll", E, S.add_ctx_epoll()),
        ("gen_init_epoll", E, S.init_epoll()),
        ("gen_select_run_1", SEL, S.select_run(1)),
        ("gen_select_run_2", SEL, S.select_run(2)),
        ("gen_select_run_timer", SEL, S.select_run(0, timer=True)),
        ("gen_select_run_nocb", SEL, S.select_run(1, cbs=())),
        ("gen_add_ctx_select", SEL, S.add_ctx_select()),
        ("gen_init_select", SEL, S.init_select()),
        ("gen_loop_add_ctx", L, S.loop_add_ctx()),
        ("gen_loop_run_2", L, S.loop_run(2)),
        ("gen_loop_run_nocb", L, S.loop_run(2, cbs=())),
        ("gen_loop_init", L, S.loop_init()),
        ("gen_ctx_read", C, S.ctx_read()),
    ]


def gen_params(ctx):
    """coq/gen/Params_C13.v: (i) the constants of the headers of this run (harness/drivers/c13_params.c compiled
    against $VERIF_REPO), (ii) the per-event decision logic of the three back-ends, muggle_evloop_add_ctx and the
    clear / exit epilogue, sliced out of the clang AST of the C text of this run (lib/props/c13_slice.py).  A function
    that cannot be sliced is written as a comment, which breaks its gen_*_matches_model obligation."""
    import leaftrans as L
    from props import c13_slice as S
    V.gen_config_header()
    outdir = os.path.join(V.BUILD, ID)
    os.makedirs(outdir, exist_ok=True)
    exe = os.path.join(outdir, "params.%d" % os.getpid())
    rc, out, err = V.sh([V.CC, "-std=gnu11", "-w", "-I" + V.REPO, "-I" + V.GEN_INC,
                         os.path.join(V.VERIF, "harness/drivers/c13_params.c"), "-o", exe], timeout=120)
    vals = {}
    if rc == 0:
        rc, out, err = V.sh([exe], timeout=20)
        for ln in out.split("\n"):
            k, _, v = ln.rpartition(" ")
            try:
                vals[k.strip()] = int(v)
            except ValueError:
                pass
    try:
        os.remove(exe)
    except OSError:
        pass
    lines = ["(* generated by lib/props/c13.py (harness/drivers/c13_params.c, lib/props/c13_slice.py) from the headers and the",
             "   event-loop sources of this run; do not edit *)",
             "From Coq Require Import ZArith List Bool.", "From MV Require Import Lib.Leaf C13.Decide.",
             "Import ListNotations.", "Local Open Scope Z_scope.", ""]
    missing = [c for _, c in CONST_FIELDS if c not in vals]
    if missing:
        lines.append("(* constants not extracted (params program failed: %s): %s *)" % (
            (err or "")[-200:].replace("*)", "* )"), ", ".join(missing)))
    else:
        lines.append("Definition code_consts : consts :=\n  {| " + ";\n     ".join(
            "%s := %s" % (f, ("(%d)" % vals[c]) if vals[c] < 0 else "%d" % vals[c]) for f, c in CONST_FIELDS) + " |}.")
    lines.append("")
    consts = {k: v for k, v in vals.items() if not k.startswith("sizeof:")}
    sizeofs = {k[7:]: v for k, v in vals.items() if k.startswith("sizeof:")}
    flags = ["-std=gnu11", "-I" + V.REPO, "-I" + V.GEN_INC, "-DNDEBUG",
             "-include", os.path.join(V.VERIF, "harness/c13_slice_shim.h")]
    for gname, src, inst in gen_instances():
        try:
            text, _n = S.translate(os.path.join(V.REPO, src), flags, consts, sizeofs, inst, gname)
            lines.append(text)
        except L.LeafError as e:
            lines.append("(* slicer error for %s: %s *)\n" % (gname, str(e).replace("*)", "* )")))
        except Exception as e:      # a broken AST must break the obligation, not the machinery
            lines.append("(* slicer failure for %s: %s: %s *)\n" % (gname, type(e).__name__, str(e)[:200].replace("*)", "* )")))
    return "\n".join(lines) + "\n"


def build_impl(ctx):
    # the extracted model must follow Model.v edits: Extract.vo is not a dependency of the property
    # file, so bring it up to date here
    V.coq_make(["C13/Extract.vo"], timeout=900)
    return V.build_driver(ID, C_DRIVER, REPO_SOURCES, "impl_driver", link_flags=LINK_FLAGS)


ACT_KINDS = ("write", "hclose", "pclose", "add", "shut", "wake", "exit", "reset")


# ----------------------------------------------------------------------------------------------
# script parsing (mirrors the drivers: invalid references are dropped)

class Script:
    def __init__(self, lines):
        self.hints, self.pool, self.cls = 8, 0, "R"
        self.kinds = {}
        self.phases = [[]]
        self.trigs = []
        self.timer = False
        self.tphases = []
        for ln in lines:
            w = ln.split()
            if not w:
                continue
            if w[0] == "LOG":
                break
            if w[0] == "cfg":
                for tok in w[1:]:
                    if tok.startswith("hints="):
                        self.hints = _int(tok[6:], 8)
                    elif tok.startswith("pool="):
                        self.pool = _int(tok[5:], 0)
                    elif tok.startswith("cls="):
                        self.cls = tok[4:]
                    elif tok == "timer=1":
                        self.timer = True
            elif w[0] == "ctx" and len(w) >= 3:
                i = _int(w[1], -1)
                if 1 <= i < 40:
                    self.kinds[i] = w[2] if w[2] in ("pipe", "unix") else "tcp"
            elif w[0] == "phase":
                self.phases.append([])
            elif w[0] == "do":
                a = _act(w[1:])
                if a:
                    self.phases[-1].append(a)
            elif w[0] == "tphase":
                self.tphases.append([])
            elif w[0] == "tdo":
                a = _act(w[1:])
                if a:
                    if not self.tphases:
                        self.tphases.append([])
                    self.tphases[-1].append(a)
            elif w[0] == "on" and len(w) >= 4:
                c, b = _int(w[1], -1), _int(w[2], -1)
                a = _act(w[3:])
                if 1 <= c < 40 and b >= 0 and a:
                    self.trigs.append((c, b, a))
        ok = lambda a: a[0] in ("wake", "exit") or a[1] in self.kinds  # noqa: E731
        self.phases = [[a for a in p if ok(a)] for p in self.phases]
        self.tphases = [[a for a in p if ok(a)] for p in self.tphases]
        self.trigs = [t for t in self.trigs if ok(t[2])]

    def all_actions(self):
        for k, p in enumerate(self.phases):
            for a in p:
                yield ("phase", k, a)
        for c, b, a in self.trigs:
            yield ("trig", (c, b), a)
        for k, p in enumerate(self.tphases):
            for a in p:
                yield ("phase", -1 - k, a)          # a timer phase: like a phase, not a read-callback trigger

    def features(self):
        """static reasons why the script is outside the confluent class S"""
        f = set()
        W = {}
        for _, _, a in self.all_actions():
            if a[0] == "write":
                W[a[1]] = W.get(a[1], 0) + a[2]
        for where, at, a in self.all_actions():
            if a[0] == "exit":
                f.add("exit")
            if a[0] == "shut":
                if where == "phase" or at[0] != a[1]:
                    f.add("xshut")
                elif at[1] < W.get(a[1], 0):
                    f.add("early-selfshut")
        # a terminator issued from a trigger must not race with writes / terminators from other triggers
        for y in self.kinds:
            src_term = set(c for c, b, a in self.trigs if a[0] in ("hclose", "pclose", "reset") and a[1] == y)
            src_any = set(c for c, b, a in self.trigs if a[0] in ("hclose", "pclose", "reset", "write") and a[1] == y)
            if src_term and len(src_any) > 1:
                f.add("term-race")
        if len(self.kinds) > max(self.hints, 1) and self.hints >= 1:
            f.add("capacity")
        if self.hints < 1 and len(self.kinds) > 8:
            f.add("capacity")
        return f

    def xshut_targets(self):
        t = set()
        for where, at, a in self.all_actions():
            if a[0] == "shut" and (where == "phase" or at[0] != a[1]):
                t.add(a[1])
        return t


def _int(s, d):
    try:
        return int(s)
    except ValueError:
        return d


def _act(w):
    if not w:
        return None
    if w[0] in ("wake", "exit"):
        return (w[0],)
    if len(w) < 2:
        return None
    y = _int(w[1], -1)
    if not (1 <= y < 40):
        return None
    if w[0] == "write":
        if len(w) < 3:
            return None
        k = _int(w[2], -1)
        return ("write", y, k) if 0 <= k <= 4096 else None
    if w[0] in ("hclose", "pclose", "add", "shut", "reset"):
        return (w[0], y)
    return None


def _astr(a):
    return " ".join(str(x) for x in a)


# ----------------------------------------------------------------------------------------------
# generator

KINDS = ("pipe", "unix", "tcp")


def _gen_S(rng, name, nmax, cls="S", parts=False):
    n = rng.range(1, nmax)
    ids = list(range(1, n + 1))
    kinds = {i: rng.choice(KINDS) for i in ids}
    hints = n + rng.choice([0, 0, 1, 3])
    pool = rng.below(2)
    nph = rng.range(1, 4)
    phases = [[] for _ in range(nph + 1)]
    trigs = []
    # who may terminate y from a trigger (None: terminators only from phases)
    owner = {y: (rng.choice(ids) if rng.chance(1, 3) else None) for y in ids}
    # registration: most contexts before run, the rest from phases or triggers
    late = []
    for y in rng.shuffle(ids):
        if rng.chance(3, 4) or not phases[0]:
            phases[0].append(("add", y))
        else:
            late.append(y)
    for y in late:
        if rng.chance(1, 2):
            phases[rng.range(1, nph)].append(("add", y))
        else:
            trigs.append((rng.choice(ids), rng.range(1, 30), ("add", y)))
            if rng.chance(1, 3):   # a second, racing add: the first one wins
                trigs.append((rng.choice(ids), rng.range(1, 30), ("add", y)))
    # stimulus
    for k in range(nph + 1):
        for _ in range(rng.range(0 if k == 0 else 1, 1 + n // 2 + 1)):
            phases[k].append(("write", rng.choice(ids), rng.range(1, 40)))
    if not any(a[0] == "write" for a in phases[0]) and rng.chance(3, 4):
        phases[0].append(("write", rng.choice(ids), rng.range(1, 40)))
    # triggers: writes, wake-ups, owner-issued terminators
    for _ in range(rng.range(0, 2 * n + 2)):
        x = rng.choice(ids)
        b = rng.range(1, 60)
        r = rng.below(10)
        if r < 6:
            y = rng.choice(ids)
            if owner[y] is not None and owner[y] != x:
                x = owner[y]
            trigs.append((x, b, ("write", y, rng.range(1, 40))))
        elif r < 7:
            trigs.append((x, b, ("wake",)))
        else:
            cand = [y for y in ids if owner[y] is not None]
            if cand:
                y = rng.choice(cand)
                trigs.append((owner[y], b, (rng.choice(["hclose", "pclose"]), y)))
    # terminators from phases
    for y in ids:
        if rng.chance(1, 3):
            phases[rng.range(1, nph)].append((rng.choice(["hclose", "pclose", "pclose"]), y))
    # self shutdown once everything the script can ever send has been read
    W = {}
    for p in phases:
        for a in p:
            if a[0] == "write":
                W[a[1]] = W.get(a[1], 0) + a[2]
    for c, b, a in trigs:
        if a[0] == "write":
            W[a[1]] = W.get(a[1], 0) + a[2]
    for y in ids:
        if W.get(y, 0) > 0 and rng.chance(1, 4):
            trigs.append((y, W[y] + rng.choice([0, 0, 0, 5]), ("shut", y)))
    # some socket peers RESET the connection instead of closing it (read error behind the pending data)
    rr = rng.fork("reset")
    if rr.chance(1, 3):
        def rs(a):
            return ("reset", a[1]) if a[0] == "pclose" and kinds[a[1]] != "pipe" and rr.chance(1, 2) else a
        phases = [[rs(a) for a in p] for p in phases]
        trigs = [(c, b, rs(a)) for c, b, a in trigs]
    if parts:
        return hints, pool, kinds, phases, trigs
    return _mk(name, hints, pool, cls, kinds, phases, trigs)


def _mk(name, hints, pool, cls, kinds, phases, trigs, tphases=None):
    lines = ["cfg hints=%d pool=%d cls=%s%s" % (hints, pool, cls, " timer=1" if tphases is not None else "")]
    for i in sorted(kinds):
        lines.append("ctx %d %s" % (i, kinds[i]))
    for k, p in enumerate(phases):
        if k > 0:
            lines.append("phase")
        for a in p:
            lines.append("do " + _astr(a))
    for c, b, a in trigs:
        lines.append("on %d %d %s" % (c, b, _astr(a)))
    for p in tphases or []:
        lines.append("tphase")
        for a in p:
            lines.append("tdo " + _astr(a))
    return V.Case(name, lines, {"cls": cls})


def _relabel(case, cls):
    case.lines[0] = re.sub(r"cls=\S+", "cls=" + cls, case.lines[0])
    case.meta["cls"] = cls
    return case


def _gen_X(rng, name, nmax):
    """an S script plus cross-context shutdowns / racing exits (the known-finding class)"""
    c = _gen_S(rng, name, max(2, nmax), cls="X")
    sc = Script(c.lines)
    ids = sorted(sc.kinds)
    extra = []
    for _ in range(rng.range(1, 3)):
        r = rng.below(4)
        if r < 2 and len(ids) >= 2:
            x = rng.choice(ids)
            y = rng.choice([i for i in ids if i != x])
            extra.append("on %d %d shut %d" % (x, rng.range(1, 40), y))
        elif r == 2:
            extra.append("on %d %d exit" % (rng.choice(ids), rng.range(1, 40)))
        else:
            # shutdown from a phase (wake callback)
            idx = [i for i, ln in enumerate(c.lines) if ln == "phase"]
            y = rng.choice(ids)
            if idx:
                c.lines.insert(rng.choice(idx) + 1, "do shut %d" % y)
            else:
                extra.append("on %d %d shut %d" % (rng.choice(ids), rng.range(1, 40), y))
    c.lines += extra
    return c


def _gen_C(rng, name, nmax):
    """capacity: more contexts than hints_max_fd (only the poll back-end refuses)"""
    c = _gen_S(rng, name, max(3, nmax), cls="C")
    n = len(Script(c.lines).kinds)
    h = rng.range(1, max(1, n - 1))
    c.lines[0] = re.sub(r"hints=\d+", "hints=%d" % h, c.lines[0])
    return c


def _gen_C0(rng, name):
    """capacity with hints_max_fd < 1: the default of 8 applies (poll refuses the contexts beyond it)"""
    n = rng.range(9, 14)
    ids = list(range(1, n + 1))
    kinds = {i: rng.choice(KINDS) for i in ids}
    ph0 = [("add", y) for y in rng.shuffle(ids)]
    for _ in range(rng.range(1, 6)):
        ph0.append(("write", rng.choice(ids), rng.range(1, 40)))
    ph1 = [("write", rng.choice(ids), rng.range(1, 40)) for _ in range(rng.range(0, 4))]
    ph1 += [("pclose", y) for y in ids if rng.chance(1, 4)]
    return _mk(name, rng.choice([0, 0, -1]), rng.below(2), "C", kinds, [ph0, ph1], [])


def _gen_R(rng, name, nmax):
    """unrestricted: every action from every place"""
    n = rng.range(1, nmax)
    ids = list(range(1, n + 1))
    kinds = {i: rng.choice(KINDS) for i in ids}
    hints = rng.choice([n, n, n + 2, max(1, n - 1), max(1, n // 2)])
    nph = rng.range(0, 3)
    phases = [[] for _ in range(nph + 1)]

    def ract(in_phase0=False):
        r = rng.below(20)
        y = rng.choice(ids)
        if r < 8:
            return ("write", y, rng.range(0, 48))
        if r < 10:
            return ("hclose", y)
        if r < 12:
            return ("pclose", y)
        if r < 15:
            return ("add", y)
        if r < 17:
            return ("shut", y) if rng.chance(2, 3) else ("reset", y)
        if r < 19 or in_phase0:
            return ("wake",)
        return ("exit",)
    for y in rng.shuffle(ids):
        if rng.chance(2, 3):
            phases[0].append(("add", y))
    for k in range(nph + 1):
        for _ in range(rng.range(0, n + 2)):
            phases[k].append(ract(k == 0))
    trigs = [(rng.choice(ids), rng.range(0, 60), ract()) for _ in range(rng.range(0, 3 * n + 2))]
    return _mk(name, hints, rng.below(2), "R", kinds, phases, trigs)


def _gen_T(rng, name, nmax):
    """timer-driven loops (class T): an S script whose idle phases become TIMER phases - the loop runs with a timer of
    interval 0 (a tick after every pass, kernel calls returning n = 0 included), the k-th tick runs the k-th timer
    phase and the tick after the last one requests exit.  Before every non-empty timer phase, and before the exit,
    enough empty ticks are left for the loop to become quiescent (a trigger chain has at most #triggers links, and the
    poll back-end skips a ready slot at most once per closed context), so the S clauses (every byte delivered,
    terminated => closed, agreement) apply; a timer phase that runs BEFORE quiescence races with the passes (which
    contexts a pass reads depends on the back-end's visit order): those scripts are class R (_gen_TR)."""
    hints, pool, kinds, phases, trigs = _gen_S(rng, name, nmax, cls="T", parts=True)
    pad = len(trigs) + len(kinds) + 3
    tph = []
    for p in phases[1:]:
        tph += [[] for _ in range(pad + rng.below(3))]      # quiescence first (ticks after kernel calls with n = 0)
        tph.append(p)
    tph += [[] for _ in range(pad)]
    return _mk(name, hints, pool, "T", kinds, [phases[0]], trigs, tph)


def _gen_TR(rng, name, nmax):
    """unrestricted timer script (class R): every action from every place, timer phases racing with the passes"""
    c = _gen_R(rng, name, nmax)
    sc = Script(c.lines)
    tph = []
    for _ in range(rng.range(0, 5)):
        p = []
        for _ in range(rng.range(0, 3)):
            r = rng.below(10)
            y = rng.choice(sorted(sc.kinds))
            p.append(("write", y, rng.range(0, 40)) if r < 4 else ("pclose", y) if r < 5 else ("reset", y) if r < 6
                     else ("hclose", y) if r < 7 else ("add", y) if r < 8 else ("shut", y) if r < 9 else
                     (("exit",) if rng.chance(1, 3) else ("wake",)))
        tph.append(p)
    return _mk(name, sc.hints, sc.pool, "R", sc.kinds, [sc.phases[0]], sc.trigs, tph)


CB_LETTERS = "rcwxet"


def _gen_E(rng, name, mask):
    """edge scenario (class E, monitor-only): the callbacks whose bit is set in `mask` are left NULL; refused
    registrations (regular file on epoll, second context on a registered descriptor on epoll, foreign thread)"""
    nocb = "".join(c for k, c in enumerate(CB_LETTERS) if mask & (1 << k)) or "-"
    n = rng.range(1, 5)
    prerun = "t" in nocb
    if prerun:
        closed = (1 << rng.below(n)) if rng.chance(2, 3) else 0       # one pass: at most one IN+HUP descriptor
    else:
        closed = rng.below(1 << n)
    data = rng.below(1 << n)
    return V.Case(name, ["edge nocb=%s n=%d closed=%d data=%d ticks=%d file=%d dup=%d foreign=%d hints=%d pool=%d" % (
        nocb, n, closed, data, n + 2 + rng.below(3), rng.below(2), rng.below(2), rng.below(2),
        n + 4 + rng.below(4), rng.below(2))], {"cls": "E"})


def _gen_P(rng, name, nmax, doubles=1):
    """exit requested before muggle_evloop_run (class P): one phase, no triggers, no scripted shutdown; contexts with
    pending input, half-closed / closed peers, idle ones; at most `doubles` registered descriptors report input and
    hang-up together when the loop starts (unix socket with a closed peer; pipe with data and a closed writer).
    With doubles <= 1 the three back-ends must perform exactly one pass and agree (evl_prerun_exit_agree); with more
    the poll back-end may stop above a ready slot (evl_prerun_exit_double_refuted: class X, known finding)."""
    n = rng.range(1, nmax)
    ids = list(range(1, n + 1))
    kinds = {i: rng.choice(KINDS) for i in ids}
    hints = rng.choice([n, n, n + 2, 0 if n <= 8 else n])       # 0: the default of 8 (hints_max_fd < 1)
    acts = []
    order = rng.shuffle(ids)
    reg = [y for y in order if rng.chance(5, 6)]
    for y in reg:
        acts.append(("add", y))
    want_double = set(rng.shuffle(reg)[:doubles]) if reg and rng.chance(2, 3) else set()
    for y in ids:
        k = kinds[y]
        if y in want_double and k != "tcp":
            if k == "unix":
                if rng.chance(1, 2):
                    acts.append(("write", y, rng.range(1, 40)))
                acts.append(("pclose", y))
            else:
                acts.append(("write", y, rng.range(1, 40)))
                acts.append((rng.choice(["hclose", "pclose"]), y))
            continue
        r = rng.below(6)
        if r <= 2:
            acts.append(("write", y, rng.range(1, 40)))
            if rng.chance(1, 3):
                acts.append(("write", y, rng.range(1, 40)))
        if k == "pipe":
            if r >= 3 and rng.chance(1, 2):
                acts.append((rng.choice(["hclose", "pclose"]), y))      # closed writer without data: hang-up only
        elif k == "unix":
            if rng.chance(1, 3):
                acts.append(("hclose", y))                              # half-close: readable EOF, no hang-up
        else:
            if rng.chance(1, 3):
                acts.append((rng.choice(["hclose", "pclose"]), y))      # tcp: EOF is readable only
    # late registrations and the exit request anywhere in the phase (everything runs before muggle_evloop_run)
    body = [a for a in acts if a[0] == "add"] + [a for a in acts if a[0] != "add"]
    pos = rng.range(0, len(body))
    body.insert(pos, ("exit",))
    if rng.chance(1, 4):
        body.append(("wake",))
    cls = "P" if doubles <= 1 else "X"
    return _mk(name, hints, rng.below(2), cls, kinds, [body], [])


def corpus_cases(ctx):
    out = []
    d = os.path.join(V.VERIF, "corpus", "C13")
    if os.path.isdir(d):
        for f in sorted(os.listdir(d)):
            if f.endswith(".case"):
                out.append(V.Case.load(os.path.join(d, f)))
    return out


def generate(rng, tier):
    quick = tier == "quick"
    nS, nX, nC, nR = (140, 40, 30, 90) if quick else (2400, 500, 400, 1500)
    cases = []
    for i in range(nS):
        nmax = 16 if i % 3 == 0 else (6 if i % 3 == 1 else 3)
        cases.append(_gen_S(rng.fork("S%d" % i), "S-%d" % i, nmax))
    # the flat sub-class of S (no triggers): the one evl_backends_agree_partial is proved for
    for i in range(20 if quick else 200):
        c = _gen_S(rng.fork("F%d" % i), "F-%d" % i, 16 if i % 2 else 5)
        c.lines = [ln for ln in c.lines if not ln.startswith("on ")]
        cases.append(c)
    # the sub-class SW of S (triggers only write): the one evl_backends_agree_partial is proved for
    for i in range(30 if quick else 300):
        c = _gen_S(rng.fork("W%d" % i), "W-%d" % i, 16 if i % 2 else 5)
        keep, seen = [], set()
        for ln in c.lines:
            if ln.startswith("on "):
                w = ln.split()
                if w[3] != "write" or int(w[2]) < 1 or ln in seen:
                    continue
                seen.add(ln)
            keep.append(ln)
        c.lines = keep
        cases.append(c)
    # the sub-class SWT of S (triggers write / half-close / close peers / wake): evl_backends_agree_partial
    for i in range(30 if quick else 300):
        c = _gen_S(rng.fork("T%d" % i), "T-%d" % i, 16 if i % 2 else 5)
        keep, seen = [], set()
        for ln in c.lines:
            if ln.startswith("on "):
                w = ln.split()
                if w[3] not in ("write", "hclose", "pclose", "wake") or int(w[2]) < 1 or ln in seen:
                    continue
                seen.add(ln)
            keep.append(ln)
        c.lines = keep
        cases.append(c)
    # exit requested before run (evl_prerun_exit_agree); a few with two descriptors reporting input and hang-up
    # together (poll's double decrement: evl_prerun_exit_double_refuted, class X)
    for i in range(40 if quick else 500):
        cases.append(_gen_P(rng.fork("P%d" % i), "P-%d" % i, 16 if i % 3 == 0 else (6 if i % 3 == 1 else 3)))
    for i in range(10 if quick else 100):
        cases.append(_gen_P(rng.fork("PD%d" % i), "PD-%d" % i, 8 if i % 2 else 4, doubles=3))
    # timer-driven loops: class T (S clauses apply), and unrestricted ones (life-cycle and model tie only)
    for i in range(30 if quick else 400):
        cases.append(_gen_T(rng.fork("TM%d" % i), "TM-%d" % i, 6 if i % 2 else 3))
    for i in range(20 if quick else 300):
        cases.append(_gen_TR(rng.fork("TR%d" % i), "TR-%d" % i, 6 if i % 2 else 3))
    # NULL-callback matrix (all 64 subsets of the six callbacks) x refused registrations: monitor-only edge scenarios
    for i in range(64 if quick else 640):
        cases.append(_gen_E(rng.fork("E%d" % i), "E-%d" % i, i % 64))
    for i in range(nX):
        cases.append(_gen_X(rng.fork("X%d" % i), "X-%d" % i, 16 if i % 2 else 4))
    for i in range(nC):
        cases.append(_gen_C(rng.fork("C%d" % i), "C-%d" % i, 16 if i % 2 else 5))
    for i in range(6 if quick else 60):
        cases.append(_gen_C0(rng.fork("C0%d" % i), "C0-%d" % i))
    for i in range(nR):
        cases.append(_gen_R(rng.fork("R%d" % i), "R-%d" % i, 16 if i % 3 == 0 else 5))
    return cases


def search(rng, diverging, tier):
    out = []
    for i in range(150):
        out.append(_gen_R(rng.fork("sR%d" % i), "search-R-%d" % i, 6))
        out.append(_gen_S(rng.fork("sS%d" % i), "search-S-%d" % i, 6))
        if i % 3 == 0:
            out.append(_gen_P(rng.fork("sP%d" % i), "search-P-%d" % i, 5))
        if i % 2 == 0:
            out.append(_gen_E(rng.fork("sE%d" % i), "search-E-%d" % i, i % 64))
        if i % 3 == 1:
            out.append(_gen_T(rng.fork("sT%d" % i), "search-T-%d" % i, 4))
            out.append(_gen_TR(rng.fork("sTR%d" % i), "search-TR-%d" % i, 4))
    return out


# ----------------------------------------------------------------------------------------------
# model side: append the implementation's kernel log

def model_cases(cases, impl_results):
    out = []
    for c in cases:
        r = impl_results.get(c.name)
        lines = list(c.lines)
        if r and r.get("lines") and not _is_edge(c):
            lines.append("LOG")
            for ln in r["lines"]:
                if ln.startswith("B ") or ln.startswith("K "):
                    lines.append(ln)
        out.append(V.Case(c.name, lines, c.meta))
    return out


def _is_edge(case):
    return bool(case.lines) and case.lines[0].startswith("edge")


def canon(lines):
    """edge scenarios have no model run: both drivers announce them with the line EDGE"""
    return ["EDGE"] if lines and lines[0] == "EDGE" else lines


# ----------------------------------------------------------------------------------------------
# edge scenarios: NULL-callback matrix and refused registrations (oracle independent of the Coq model)

def _edge_monitor(case, lines):
    hdr = case.lines[0]

    def num(key, d):
        m = re.search(r" %s=(-?\d+)" % key, hdr)
        return int(m.group(1)) if m else d
    m = re.search(r" nocb=(\S+)", hdr)
    nocb = m.group(1) if m else "-"
    has = lambda c: c not in nocb                                   # noqa: E731
    n = min(max(num("n", 1), 1), 8)
    closed, data, ticks = num("closed", 0), num("data", 0), min(max(num("ticks", 4), 1), 64)
    fil, dup, foreign = num("file", 0) == 1, num("dup", 0) == 1, num("foreign", 0) == 1
    prerun = not has("t")
    if not lines or lines[0] != "EDGE":
        return "edge: driver did not recognise the scenario"
    secs = _sections(lines[1:])
    for be in BACKENDS:
        if be not in secs:
            return "no output for back-end %s" % be
        L, rc, tag = [], {}, {}
        cnt = {}
        order = []
        ks = []
        exit_at = None
        off = {}
        for k, ln in enumerate(secs[be]):
            w = ln.split()
            if not w:
                continue
            t = w[0]
            if t in ("HARNESS-ERROR", "new"):
                return "edge %s: %s" % (be, ln)
            if t == "K":
                if len(w) > 1 and w[1] in ("runaway", "stuck"):
                    return "edge: the %s loop never exits (%s)" % (be, w[1])
                if exit_at is not None and not prerun:
                    return "edge: %s loop made another kernel call after exit was requested from the timer callback" % be
                ids = [_int(x, -9) for x in _field(ln, "in").split(",") if x != ""]
                if -1 in ids:
                    return "edge: %s handed a descriptor to the kernel that belongs to no registered context" % be
                ks.append(ids)
            elif t == "A":
                rc[_int(w[1], -1)] = _int(w[2][3:], 99)
                tag[_int(w[1], -1)] = w[3] if len(w) > 3 else ""
            elif t == "a":
                exit_at = k
            elif t in ("r", "c", "x"):
                y = _int(w[1], -1)
                cnt[(t, y)] = cnt.get((t, y), 0) + 1
                order.append((t, y))
                if t == "r" and cnt.get(("c", y)):
                    return "edge %s: read callback for context %d after its close callback" % (be, y)
                if t != "r" and ks == []:
                    return "edge %s: %s callback before the first kernel call" % (be, t)
            elif t in ("e", "w", "t"):
                cnt[t] = cnt.get(t, 0) + 1
                order.append((t, 0))
            elif t == "L":
                L.append(_int(w[1], -1))
            elif t == "F":
                off[_int(w[1], -1)] = _int(_field(ln, "off"), -1)
            elif t != "Q":
                return "edge %s: unexpected line %r" % (be, ln)
        for t, letter in (("r", "r"), ("c", "c"), ("x", "x")):
            if not has(letter) and any(k[0] == t for k in cnt if isinstance(k, tuple)):
                return "edge %s: a %s callback ran although none was installed" % (be, t)
        for t in ("e", "w", "t"):
            if not has(t) and cnt.get(t):
                return "edge %s: a %s callback ran although none was installed" % (be, t)
        if cnt.get("e", 0) != (1 if has("e") else 0):
            return "edge %s: exit callback ran %d times" % (be, cnt.get("e", 0))
        if has("e") and order and order[-1] != ("e", 0):
            return "edge %s: callback after the exit callback" % be
        if has("t") and cnt.get("t", 0) != ticks:
            return "edge: the %s loop ran %d timer ticks, exit was requested at tick %d" % (be, cnt.get("t", 0), ticks)
        if prerun and len(ks) != 1:
            return "edge: exit requested before run, the %s loop made %d kernel calls (exactly one pass is due)" % (be, len(ks))
        pop = bin(closed & ((1 << n) - 1)).count("1")
        if be == "poll" and prerun and has("w") and pop >= 1 and cnt.get("w", 0) == 0:
            pass        # poll counts a descriptor reporting input and hang-up twice and may stop above slot 0 (known)
        elif cnt.get("w", 0) != (1 if prerun and has("w") else 0):
            return "edge %s: wake callback ran %d times (the only wake-up is the one of an exit requested before run)" % (be, cnt.get("w", 0))
        if len(set(L)) != len(L):
            return "edge %s: ctx_list holds a context twice after run: %s" % (be, L)
        ids = sorted(rc)
        for y in ids:
            c, x = cnt.get(("c", y), 0), cnt.get(("x", y), 0)
            if c > 1 or x > 1 or (c and x):
                return "edge %s: context %d got %d close and %d clear callbacks" % (be, y, c, x)
            if c and y in L:
                return "edge %s: context %d got its close callback but is still in ctx_list" % (be, y)
            if has("x") and (x == 1) != (y in L):
                return "edge %s: context %d: clear callback ran %d times, in ctx_list at exit: %s" % (be, y, x, y in L)
            refused = rc[y] != 0
            if refused and (y in L or c or x or cnt.get(("r", y))):
                return ("edge: %s refused context %d (%s) but did not roll the registration back: in ctx_list at exit %s, "
                        "callbacks r=%d c=%d x=%d" % (be, y, tag.get(y) or "plain", y in L, cnt.get(("r", y), 0), c, x))
            if refused and any(y in k for k in ks):
                return "edge: %s refused context %d but handed its descriptor to the kernel" % (be, y)
        # what must be refused / accepted
        for y in range(1, n + 1):
            if rc.get(y) != 0:
                return "edge: %s refused context %d although the table has room (rc=%s)" % (be, y, rc.get(y))
        if foreign and rc.get(n + 3, 0) == 0:
            return "edge: %s accepted a registration from a foreign thread" % be
        if fil and be == "epoll" and rc.get(n + 1, 0) == 0:
            return "edge: epoll accepted a regular file"
        if fil and be != "epoll" and rc.get(n + 1) != 0:
            return "edge: %s refused a regular file (rc=%s)" % (be, rc.get(n + 1))
        if dup and be == "epoll" and rc.get(n + 2, 0) == 0:
            return "edge: epoll accepted a second context on a registered descriptor"
        # semantics with a read callback: input delivered, hung-up contexts removed (with or without close callback)
        pop = bin(closed & ((1 << n) - 1)).count("1")
        settled = has("r") and ((prerun and not (be == "poll" and pop > 1)) or (not prerun and ticks >= n + 2))
        if settled:
            for y in range(1, n + 1):
                want = 5 if data & (1 << (y - 1)) else 0
                if off.get(y) != want:
                    return "edge: %s offered context %d %s of its %d pending bytes" % (be, y, off.get(y), want)
                gone = bool(closed & (1 << (y - 1)))
                if gone and y in L:
                    return ("edge: context %d (peer closed, end of file read) is still in the %s loop's ctx_list at exit "
                            "[close callback installed: %s]" % (y, be, has("c")))
                if gone and has("c") and not cnt.get(("c", y)):
                    return "edge: %s removed context %d without its close callback" % (be, y)
                if not gone and y not in L:
                    return "edge: %s dropped context %d whose peer is open" % (be, y)
            if fil and be != "epoll" and (n + 1) in L:
                return "edge: regular file context (end of file at once) still in the %s loop's ctx_list" % be
            if not prerun and ks:
                last = set(ks[-1])
                if last != set(L) | {0}:
                    return ("edge: the last table the %s loop handed to the kernel holds contexts %s, its ctx_list holds %s "
                            "[close callback installed: %s]" % (be, sorted(last - {0}), sorted(L), has("c")))
    return None


# ----------------------------------------------------------------------------------------------
# independent monitor

def _sections(lines):
    secs, cur = {}, None
    for ln in lines:
        if ln.startswith("B "):
            cur = ln[2:].strip()
            secs[cur] = []
        elif cur is not None:
            secs[cur].append(ln)
    return secs


def _parse_out(s):
    res = []
    if s:
        for it in s.split(","):
            a, _, b = it.partition(":")
            res.append((_int(a, -1), _int(b, 0)))
    return res


def _field(ln, key):
    m = re.search(r"(?:^| )%s=(\S*)" % key, ln)
    return m.group(1) if m else ""


def _lifecycle(be, lines, sc, info):
    """per-context automaton over one back-end's trace.  Returns an error text or None; fills
    info[ctx] = (offered, end) and info['_x'] = cross-shut targets executed, info['_exit_raced']."""
    state = {y: "new" for y in sc.kinds}       # new -> reg -> closed | cleared ; rej
    written = {y: 0 for y in sc.kinds}
    offered = {y: 0 for y in sc.kinds}
    term = {y: False for y in sc.kinds}        # peer terminated or self shutdown executed
    cur = None                                 # callback being executed: ("r", x) | ("w",) | None
    cur_actions = 0
    exit_req = False
    exit_raced = False
    xshut = set()
    phase = "run"                              # run -> clear -> done
    seen_exit_cb = 0
    pend = None                                # (reported list, poll early-break excuse) of the current pass
    read_in_pass = set()
    nk = 0                                     # kernel calls so far
    prerun_exit = False                        # exit requested before muggle_evloop_run (no kernel call yet)
    ticks_since_k = 0                          # timer ticks since the last kernel call
    xpend = set()                              # contexts shut down from a foreign callback while input was undelivered
    wskip = set()                              # contexts a write to which was skipped after their foreign shutdown

    def end_pass():
        if pend is None:
            return None
        rep, excuse = pend
        for x, fl in rep:
            if x <= 0 or not (fl & 1):
                continue
            if x in read_in_pass:
                continue
            if be == "poll" and excuse:
                continue
            if state.get(x) not in ("reg",) and x not in reg_at_pass:
                continue
            if x in reg_at_pass:
                return "read callback missing: context %d was reported readable to the %s loop while registered but got no read callback in that pass" % (x, be)
        return None
    reg_at_pass = set()

    def no_pass():
        """exit requested before run: muggle_evloop_exit has woken the loop up, so the first kernel call returns and
        the loop owes the registered contexts one dispatch pass before it leaves"""
        if not (prerun_exit and nk == 0):
            return None
        for y in sorted(state):
            if state[y] == "reg" and (written[y] > offered[y] or term[y]):
                return ("read callback missing: exit was requested before run and the %s loop left without the dispatch pass that "
                        "the pending wake-up triggers; registered context %d had %d undelivered bytes%s" % (
                            be, y, written[y] - offered[y], " and a terminated peer" if term[y] else ""))
        return None

    def no_tick():
        if sc.timer and nk > 0 and ticks_since_k != 1:
            return "timer: the %s loop left after a pass without the timer tick that is due after every pass" % be
        return None
    for k, ln in enumerate(lines):
        w = ln.split()
        if not w:
            continue
        t = w[0]
        if t == "K":
            if len(w) > 1 and w[1] == "runaway":
                return "%s loop keeps calling the kernel and never exits (a reported descriptor is never served)" % be
            if len(w) > 1 and w[1] == "stuck":
                return "%s loop blocked with nothing to report (lost wake-up or lost registration)" % be
            e = end_pass()
            if e:
                return e
            if sc.timer and nk > 0 and ticks_since_k != 1:
                return ("timer: interval 0 and a timer callback are set, but the %s loop went from one kernel call to the next "
                        "with %d timer ticks in between (exactly one is due after every pass, also after a kernel call "
                        "that reported nothing)" % (be, ticks_since_k))
            ticks_since_k = 0
            if exit_req and not (prerun_exit and nk == 0):
                # an exit requested before run is served by the ONE pass that its wake-up triggers
                return "%s loop made another kernel call after exit was requested" % be
            nk += 1
            if phase != "run":
                return "%s: kernel call after the clear/exit callbacks" % be
            rep = _parse_out(_field(ln, "out"))
            excuse = any((fl & 1) and (fl & 6) for x, fl in rep)
            pend = (rep, excuse)
            read_in_pass = set()
            reg_at_pass = set(y for y in state if state[y] == "reg")
            cur = None
            continue
        if t == "Q":
            continue
        if t == "a":
            kind = w[1]
            res = w[-1]
            cur_actions += 1
            if kind in ("wake", "exit"):
                if kind == "exit" and res == "ok":
                    exit_req = True
                    if cur is None and nk == 0:
                        prerun_exit = True                  # before run: not racing with anything
                    elif cur is None or cur[0] == "r":
                        exit_raced = True
                    info.setdefault("_exit_cb", []).append((cur, k))
                continue
            y = _int(w[2], -1)
            if y not in state:
                return "%s: action on undeclared context in trace: %s" % (be, ln)
            if kind == "write" and res == "ok":
                written[y] += _int(w[3], 0)
            elif kind == "write" and res == "skip" and y in xshut:
                wskip.add(y)                    # a write that came after the foreign shutdown of its target
            elif kind in ("hclose", "pclose", "reset") and res == "ok":
                term[y] = True
            elif kind == "add":
                # documented capacity: the poll back-end holds hints_max_fd contexts (8 when hints_max_fd < 1), a
                # closed context frees its slot; select and epoll have no limit (the node pool grows)
                cap = sc.hints if sc.hints >= 1 else 8
                nreg = sum(1 for z in state if state[z] == "reg")
                if res == "ok":
                    if state[y] != "new":
                        return "%s: add of context %d accepted twice" % (be, y)
                    if be == "poll" and nreg >= cap:
                        return ("capacity: poll accepted context %d although %d contexts are registered and hints_max_fd=%d "
                                "gives room for %d" % (y, nreg, sc.hints, cap))
                    state[y] = "reg"
                elif res == "rej":
                    if be != "poll" or nreg < cap:
                        return "capacity: %s refused context %d with %d contexts registered (hints_max_fd=%d: room for %s)" % (
                            be, y, nreg, sc.hints, cap if be == "poll" else "any number")
                    state[y] = "rej"
            elif kind == "shut" and res == "ok":
                term[y] = True
                if cur is None or cur != ("r", y):
                    xshut.add(y)
                    if written[y] > offered[y]:
                        xpend.add(y)
            continue
        if phase == "done":
            if t == "F":
                y = _int(w[1], -1)
                if y in state:
                    off = _int(_field(ln, "off"), -1)
                    end = _field(ln, "end")
                    cc, xc = _int(_field(ln, "cc"), 0), _int(_field(ln, "xc"), 0)
                    if cc > 1:
                        return "%s: close callback ran %d times for context %d" % (be, cc, y)
                    if xc > 1:
                        return "%s: clear callback ran %d times for context %d" % (be, xc, y)
                    if cc and xc:
                        return "%s: context %d was both closed and cleared" % (be, y)
                    if end == "lost":
                        return "%s: context %d was registered but neither closed nor cleared" % (be, y)
                    exp = {"closed": "closed", "cleared": "cleared", "new": "unreg", "rej": "rej"}.get(state[y])
                    if exp != end or off != offered[y]:
                        return "%s: summary of context %d (%s, %d bytes) contradicts its trace (%s, %d bytes)" % (be, y, end, off, exp, offered[y])
                    info[y] = (off, end)
                continue
            return "%s: callback after the exit callback: %s" % (be, ln)
        if t == "r":
            x = _int(w[1], -1)
            cur, cur_actions = ("r", x), 0
            if phase != "run":
                return "%s: read callback for context %d after the loop finished" % (be, x)
            if x not in state:
                return "%s: read callback for unknown context %d" % (be, x)
            if w[2] == "afterclose" or state[x] == "closed":
                return "%s: read callback for context %d after its close callback" % (be, x)
            if state[x] != "reg":
                return "%s: read callback for context %d which is not registered (%s)" % (be, x, state[x])
            n = _int(w[2], 0)
            offered[x] += n
            read_in_pass.add(x)
            if offered[x] > written[x]:
                return "%s: context %d was offered %d bytes but only %d were written to it" % (be, x, offered[x], written[x])
        elif t == "c":
            x = _int(w[1], -1)
            cur = ("c", x)
            if phase != "run":
                return "%s: close callback for context %d after the loop finished" % (be, x)
            if state.get(x) == "closed":
                return "%s: close callback ran twice for context %d" % (be, x)
            if state.get(x) != "reg":
                return "%s: close callback for context %d which is not registered (%s)" % (be, x, state.get(x))
            state[x] = "closed"
        elif t == "w":
            cur, cur_actions = ("w",), 0
            if phase != "run":
                return "%s: wake callback after the loop finished" % be
        elif t == "t":
            cur, cur_actions = ("t",), 0
            if not sc.timer:
                return "%s: timer callback although no timer was set" % be
            if phase != "run":
                return "%s: timer callback after the loop finished" % be
            if nk == 0:
                return "%s: timer callback before the first kernel call" % be
            e = end_pass()
            if e:
                return e
            pend = None
            ticks_since_k += 1
            if ticks_since_k > 1:
                return "%s: two timer ticks after one kernel call" % be
        elif t == "x":
            x = _int(w[1], -1)
            if phase == "run":
                e = end_pass() or no_pass() or no_tick()
                if e:
                    return e
                pend = None
                if not exit_req:
                    return "%s: clear callback although exit was never requested" % be
                phase = "clear"
            if state.get(x) == "cleared":
                return "%s: clear callback ran twice for context %d" % (be, x)
            if state.get(x) == "closed":
                return "%s: clear callback for context %d after its close callback" % (be, x)
            if state.get(x) != "reg":
                return "%s: clear callback for context %d which is not registered (%s)" % (be, x, state.get(x))
            state[x] = "cleared"
        elif t == "e":
            if phase == "run":
                e = end_pass() or no_pass() or no_tick()
                if e:
                    return e
                pend = None
                if not exit_req:
                    return "%s: exit callback although exit was never requested" % be
            seen_exit_cb += 1
            if seen_exit_cb > 1:
                return "%s: exit callback ran twice" % be
            for y in state:
                if state[y] == "reg":
                    return "%s: context %d still registered at exit got neither close nor clear callback" % (be, y)
            phase = "done"
        elif t in ("NOEXIT", "new"):
            return "%s: %s" % (be, ln)
        elif t == "HARNESS-ERROR":
            return "harness error: " + ln
        else:
            return "%s: unexpected trace line %r" % (be, ln)
    if seen_exit_cb != 1:
        return "%s: exit callback ran %d times" % (be, seen_exit_cb)
    for y in sc.kinds:
        if y not in info:
            return "%s: no summary for context %d" % (be, y)
    for cb, k in info.get("_exit_cb", []):
        if cb == ("w",):
            prev_is_w = k > 0 and lines[k - 1].split()[:1] == ["w"]
            next_is_a = k + 1 < len(lines) and lines[k + 1].startswith("a ")
            if not prev_is_w or next_is_a:
                exit_raced = True
    info["_x"] = xshut
    info["_xpend"] = xpend
    info["_wskip"] = wskip
    info["_prerun_exit"] = prerun_exit
    info["_exit_raced"] = exit_raced
    info["_written"] = written
    info["_term"] = term
    info["_state"] = state
    return None


def monitor(case, lines):
    if _is_edge(case):
        return _edge_monitor(case, lines)
    sc = Script(case.lines)
    secs = _sections(lines)
    infos = {}
    for be in BACKENDS:
        if be not in secs:
            return "no output for back-end %s" % be
        info = {}
        e = _lifecycle(be, secs[be], sc, info)
        if e:
            return "life-cycle: " + e
        infos[be] = info
    cls = sc.cls
    feats = sc.features()
    # inside S every byte written reaches the read callback and the outcome is determined by the script
    if cls == "P" and not any(a[0] == "exit" for a in sc.phases[0]):
        cls = "S"                      # (a shrunk P script) without the exit request it is an ordinary S script
    if cls == "T" and not sc.timer:
        cls = "S"
    if cls == "T" and not _t_padded(sc):
        cls = "R"                      # (a shrunk T script) timer phases racing with the passes: life-cycle only
    if cls in ("S", "P", "T"):
        if feats - ({"exit"} if cls == "P" else set()):
            return "generator error: script tagged %s has features %s" % (cls, sorted(feats))
        for be in BACKENDS:
            inf = infos[be]
            for y in sorted(sc.kinds):
                off, end = inf[y]
                st = inf["_state"][y]
                if st in ("new", "rej"):
                    continue
                if off != inf["_written"][y]:
                    return "delivery: %s offered context %d %d of the %d bytes written to it before the loop exited at quiescence" % (
                        be, y, off, inf["_written"][y])
                want = "closed" if inf["_term"][y] else "cleared"
                if end != want:
                    return "outcome: %s left context %d %s, expected %s (peer terminated or self shutdown: %s)" % (
                        be, y, end, want, inf["_term"][y])
    # agreement
    if cls in ("S", "X", "C", "P", "T"):
        group = BACKENDS if cls != "C" else ("select", "epoll")
        bad = []
        for y in sorted(sc.kinds):
            vals = [infos[be][y] for be in group]
            if any(v != vals[0] for v in vals):
                bad.append(y)
        if bad:
            xs = set()
            raced = False
            for be in BACKENDS:
                xs |= infos[be]["_x"]
                raced = raced or infos[be]["_exit_raced"]
            y = bad[0]
            return "agreement: contexts %s differ between back-ends; context %d: %s [cross-shutdown executed on: %s; racing exit: %s] [known-class evidence: %s]" % (
                ",".join(map(str, bad)), y,
                " ".join("%s=(%d bytes,%s)" % (be, infos[be][y][0], infos[be][y][1]) for be in BACKENDS),
                ",".join(map(str, sorted(xs))) or "-", "yes" if raced else "no",
                _known_evidence(sc, infos, bad) or "none")
    return None


def _t_padded(sc):
    """class T: every non-empty timer phase, and the exit after the last one, comes after enough empty ticks for the
    loop to be quiescent (#triggers + #contexts + 3, see _gen_T)"""
    pad = len(sc.trigs) + len(sc.kinds) + 3
    run = 0
    for p in sc.tphases:
        if p:
            if run < pad:
                return False
            run = 0
        else:
            run += 1
    return run >= pad


def _known_evidence(sc, infos, bad):
    """Is this divergence one of the GENUINE disagreements of the unchanged code?  Returns a short text naming the
    pattern for every differing context, or None.  The patterns (each differing context must match one):
      G1  cross-shutdown, closed before the input was offered: the context was shut down from a foreign callback
          (another context's read callback or the wake callback, possibly before it was registered) while input for
          it was undelivered; the back-ends that reach it before the kernel reports it readable (select: later in
          the same pass, also a context added during the pass; poll: a lower slot of the same pass) close it at
          once; and where the visit order puts the shutdown before a trigger that writes to the context, that write
          is skipped.  Evidence required: every back-end that offers FEWER bytes than the others either had
          undelivered input at the shutdown and ends `closed`, or delivered everything that was written to the
          context in that back-end while a write to it was skipped after the shutdown; and the back-ends offering the
          most agree with each other on the context;
      G2  cross-shutdown of a pipe context (flag only, no descriptor event): same bytes everywhere, select closes it,
          epoll (and possibly poll) leave it to the clear callback;
      G3  downstream of a G1 context through triggers: the back-ends that delivered the G1 context's input in full
          agree with each other on it;
      G4  exit requested from a read callback (or a non-idle wake callback): in some back-end input for the context
          (or its peer's termination) is undelivered when the loop leaves, or the context is downstream of such a one;
      G5  exit requested before run with at least two registered descriptors reporting input and hang-up together:
          poll (double decrement of n) is the outlier, select and epoll agree.
    Anything else - a context unrelated to the shutdown / exit, a back-end losing bytes it had no pending shutdown
    for, the full-delivery back-ends disagreeing - is NOT known and is reported."""
    feats = sc.features()
    if not feats or not feats <= {"xshut", "exit"}:
        return None
    sel, pol, epo = infos["select"], infos["poll"], infos["epoll"]
    xs = sel["_x"] | pol["_x"] | epo["_x"]
    g1 = {}
    why = {}
    for y in bad:
        vals = {be: infos[be][y] for be in BACKENDS}
        top = max(v[0] for v in vals.values())
        less = [be for be in BACKENDS if vals[be][0] < top]
        full = [be for be in BACKENDS if vals[be][0] == top]
        if "xshut" in feats and y in xs and less and \
                all((y in infos[be]["_xpend"] and vals[be][1] == "closed") or
                    (y in infos[be]["_wskip"] and vals[be][0] == infos[be]["_written"][y]) for be in less) and \
                all(vals[be] == vals[full[0]] for be in full):
            g1[y] = set(less)
            why[y] = "G1(" + "+".join(less) + " closed it first)"
        elif "xshut" in feats and y in xs and sc.kinds.get(y) == "pipe" and \
                vals["select"][0] == vals["poll"][0] == vals["epoll"][0] and \
                vals["select"][1] == "closed" and vals["epoll"][1] == "cleared":
            why[y] = "G2"
    for y in bad:
        if y in why:
            continue
        for z, less in g1.items():
            full = [be for be in BACKENDS if be not in less]
            if y in _downstream(sc, {z}) and all(infos[be][y] == infos[full[0]][y] for be in full):
                why[y] = "G3(of %d)" % z
                break
    raced = any(infos[be]["_exit_raced"] for be in BACKENDS)
    if "exit" in feats and raced:
        und = set()
        for y in sc.kinds:
            for be in BACKENDS:
                inf = infos[be]
                if inf["_state"].get(y) in ("closed", "cleared") and (
                        inf["_written"][y] > inf[y][0] or (inf["_term"][y] and inf[y][1] != "closed")):
                    und.add(y)
        reach = _downstream(sc, und) if und else set()
        for y in bad:
            if y not in why and y in reach:
                why[y] = "G4"
    if "exit" in feats and all(infos[be]["_prerun_exit"] for be in BACKENDS) and not sc.trigs:
        for y in bad:
            if y not in why and sel[y] == epo[y] and pol[y][0] <= sel[y][0] and \
                    (pol["_written"][y] > pol[y][0] or (pol["_term"][y] and pol[y][1] != "closed")):
                why[y] = "G5"
    if all(y in why for y in bad):
        return "cross-shutdown " + ",".join("%d:%s" % (y, why[y]) for y in bad)
    return None


def known_class(case, failure_text):
    """cross-shutdown: an agreement failure that matches, context by context, one of the genuine disagreements of
    the unchanged code (see _known_evidence); the evidence is computed by the monitor from the three traces."""
    if not failure_text or not failure_text.startswith("agreement:"):
        return None
    m = re.search(r"\[known-class evidence: (cross-shutdown) [^\]]*\]", failure_text)
    return m.group(1) if m else None


def _downstream(sc, srcs):
    """contexts whose input can depend on the given ones through trigger actions"""
    reach = set(srcs)
    changed = True
    while changed:
        changed = False
        for c, b, a in sc.trigs:
            if c in reach and len(a) > 1 and a[1] not in reach:
                reach.add(a[1])
                changed = True
    return reach


# ----------------------------------------------------------------------------------------------

def nontrivial_key(case, lines):
    has_r = any(ln.startswith("r ") and not ln.endswith(" 0") for ln in lines)
    has_c = any(ln.startswith("c ") or ln.startswith("x ") for ln in lines)
    return "\n".join(case.lines) if has_r and has_c else None


def tally(dist, case, lines):
    sc = Script(case.lines)

    def inc(k, n=1):
        dist[k] = dist.get(k, 0) + n
    if _is_edge(case):
        inc("class=E")
        m = re.search(r" nocb=(\S+)", case.lines[0])
        for c in (m.group(1) if m else "-"):
            if c in CB_LETTERS:
                inc("edge_null_cb_%s" % c)
        for ln in lines:
            if ln.startswith("A ") and " rc=0" not in ln:
                inc("edge_refused_%s" % (ln.split()[3] if len(ln.split()) > 3 else "plain"))
        return
    inc("class=%s" % sc.cls)
    if sc.cls == "S" and not sc.trigs:
        inc("class=S-flat")
    elif sc.cls == "S" and all(a[0] == "write" and b >= 1 for c, b, a in sc.trigs) and \
            len(set(sc.trigs)) == len(sc.trigs) and not any(a[0] in ("shut", "exit") for p in sc.phases for a in p):
        inc("class=S-sw")
    elif sc.cls == "S" and all(a[0] in ("write", "hclose", "pclose", "wake") and b >= 1 for c, b, a in sc.trigs) and \
            len(set(sc.trigs)) == len(sc.trigs) and not any(a[0] in ("shut", "exit") for p in sc.phases for a in p):
        inc("class=S-swt")
    inc("contexts", len(sc.kinds))
    inc("pool=%d" % sc.pool)
    for k in sc.kinds.values():
        inc("kind=%s" % k)
    be = None
    for ln in lines:
        if ln.startswith("B "):
            be = ln[2:]
        elif ln.startswith("K "):
            inc("cmp1_oracle_iterations_%s" % be)      # kernel reports fed to the model (bookkeeping comparison)
            if ln.endswith(" n=0"):
                inc("kernel_calls_reporting_nothing")
            if "idle=1" in ln:
                inc("idle_wakeups")
        elif ln.startswith("Q "):
            inc("cmp2_kernel_predictions_%s" % be)     # model kernel function compared with the log
        elif ln.startswith("a "):
            w = ln.split()
            inc("act_%s_%s" % (w[1], w[-1]))
        elif ln.startswith("r "):
            inc("cb_read")
        elif ln.startswith("c "):
            inc("cb_close")
        elif ln.startswith("x "):
            inc("cb_clear")
        elif ln.startswith("w"):
            inc("cb_wake")
        elif ln == "t":
            inc("cb_timer")


MANIFEST = {
    "level_text": ("Unbounded Coq theorems over an executable model transcribing the three back-end loop bodies "
                   "(select's fd-set rebuild while walking ctx_list, poll's reverse walk with swap-with-last and its "
                   "n accounting, epoll's EPOLLIN-else-ERR|HUP branch with edge-triggered registration), "
                   "muggle_evloop_add_ctx, muggle_evloop_exit (which wakes the loop) and the clear/exit epilogue, with "
                   "scripted callbacks (read triggers, idle phases, timer phases), connection resets and the kernel as "
                   "an oracle: for every script, every oracle and every number of iterations each back-end closes a "
                   "context at most once, never calls back after close, clears exactly the still-registered contexts "
                   "once, exits once, reads every context the kernel reported, ticks the timer after every pass; add / "
                   "capacity-reject / remove leave every other context's registration and data untouched; an exit "
                   "requested before run is served by exactly one pass; agreement of the back-ends is proved for the "
                   "sub-class SWT of S (read-callback triggers that write to / half-close / close peers or wake the "
                   "loop; everything else issued from idle phases) via a least-fixpoint specification and for the "
                   "pre-run-exit class PRX, the boundary of SWT is characterised feature by feature with a witness of "
                   "disagreement for 10 of 15 excluded features, and agreement is refuted in general (known finding "
                   "cross-shutdown).  Two ties to the code: (1) the real loops run on real pipes / socket pairs / "
                   "loopback TCP and the logged kernel reports are fed to the extracted model (callbacks, tables handed "
                   "to the kernel, kernel predictions compared line by line); (2) on every run the loop bodies, add_ctx, "
                   "init and muggle_ev_ctx_read are translated from the C text into Gallina terms that are proved equal "
                   "to the reference decisions, which are proved to be the model's steps.  Independent "
                   "life-cycle/accounting/agreement monitor; monitor-only NULL-callback and refused-registration "
                   "scenarios."),
    "design_ref": "DESIGN.md section 6 / C13, section 5 row C13",
    "level_note": ("Environment is an oracle: kernel readiness and epoll ready-list order are modelled and compared with the "
                   "log on every run, not verified.  Agreement holds only inside the confluent class S; outside it the "
                   "known finding cross-shutdown applies (accepted only with per-context evidence).  Timers: interval 0 "
                   "only in executed runs."),
    "technique": "Coq invariants over a transcribed dispatch model + C-to-Gallina translator obligations + oracle-driven differential run against the real loops + trace monitor",
}
