"""C06 — slicer for memory_pool.c (second tie of the translator kind, DESIGN.md 4.4).

Symbolic execution of a NAMED function of the current C text (clang JSON AST, loaded with
lib/leaftrans.load_function) into one Gallina term over Z / list Z that uses only the vocabulary
of coq/Lib/Leaf.v (wrapu, lget, lset, cdiv, crem, b2z, z2b) and coq/C06/GenLib.v (lblit, lfill).
Nothing depends on the shape of the text:

  * the pool's scalar fields are the arguments f_<name> (all of FIELDS, whether used or not);
    pool->memory_pool_ptr_buf / pool->memory_pool_data_bufs are pointers to the array objects
    ring0 / bufs0 (arguments: contents as list Z of pointer-sized cells, and addresses a_ring0,
    a_bufs0);
  * a pointer is (object, cell index) or an opaque address; pointer locals, &a[i], a + i, casts,
    comparisons with NULL and stores of pointers into cells (as address + unit * index) are
    followed symbolically; the unit of an object (8 for arrays of pointers, 1 for data) is fixed
    by its first typed use and checked afterwards;
  * malloc(e): the k-th call on the path returns the fresh object heap_k at address m_k (both
    arguments; m_k = 0 is failure) and records the requested size as output msz_k;
    free(p): no effect;  memcpy(d, s, n) between two arrays of cells: contents(d) := lblit ...;
    memset(pool, 0, sizeof *pool): every field 0 / NULL;
  * a counting loop (for / while, i from 0, `i < N` or `i != N`, one ++i, body = one store into an
    array cell) is summarised as lfill contents N (fun i => index) (fun i => value);
  * calls of functions defined in the same file are inlined in continuation-passing style
    (any number of statements, early returns, pointer parameters); `&&`, `||`, `!` and
    conditions around such calls are lowered to nested branches so that the call is evaluated
    exactly when C evaluates it;
  * functions named in `opaque` are not entered: the call records its integer arguments
    (outputs oarg_<j>), returns the argument ores and replaces the pool fields listed for it by
    fresh arguments h_<field> (and the ring by hring / a_hring);
  * every path ends in the same tuple: (return value, FIELDS..., ring contents, ring address,
    slab-table contents, slab-table address, msz_1..msz_3, opaque arguments).

Anything else raises LeafError: the caller writes it as a comment into coq/gen/Params_C06.v, which
breaks the obligation (never a silent skip)."""
import re
import leaftrans as L

LeafError = L.LeafError
POOLT = "muggle_memory_pool_t"
FIELDS = ["alloc_index", "block_size", "capacity", "flag", "free_index", "max_delta_cap", "num_buf", "used"]
IGNORED_FIELDS = {"peak"}          # debug-only statistics, not part of the property
PTR_FIELDS = {"memory_pool_ptr_buf": "ring0", "memory_pool_data_bufs": "bufs0"}
NMALLOC = 3


def qt(n):
    return n.get("type", {}).get("qualType", "")


def pointee_size(t):
    t = t.replace("const", "").replace("restrict", "").replace(" ", "")
    if not t.endswith("*"):
        return None
    base = t[:-1]
    if base.endswith("*"):
        return 8
    if base in ("void", "char", "unsignedchar", "signedchar", "uint8_t", "int8_t"):
        return 1
    ty = L.INT_TYPES.get(base)
    if ty:
        return max(1, ty[1] // 8)
    return None


def strip_paren(n):
    while n.get("kind") in ("ParenExpr", "ConstantExpr"):
        n = n["inner"][0]
    return n


def strip_casts(n):
    while True:
        k = n.get("kind")
        if k in ("ParenExpr", "ConstantExpr"):
            n = n["inner"][0]
        elif k in ("ImplicitCastExpr", "CStyleCastExpr") and n.get("castKind") in (
                "NoOp", "LValueToRValue", "BitCast", "FunctionToPointerDecay", "ArrayToPointerDecay"):
            n = n["inner"][-1]
        else:
            return n


class Env:
    def __init__(self):
        self.loc = {}       # local name -> value
        self.fld = {}       # scalar field -> Z text ; pointer field -> pointer value
        self.obj = {}       # object -> contents text
        self.unit = {}      # object -> 1 | 8 | None
        self.addr = {}      # object -> address text
        self.msz = []       # sizes of the mallocs done on this path
        self.oargs = []     # integer arguments of the opaque calls on this path

    def copy(self):
        e = Env()
        e.loc, e.fld, e.obj = dict(self.loc), dict(self.fld), dict(self.obj)
        e.unit, e.addr = dict(self.unit), dict(self.addr)
        e.msz, e.oargs = list(self.msz), list(self.oargs)
        return e


class Slicer:
    def __init__(self, src, cflags, opaque=None):
        self.src, self.cflags = src, cflags
        self.opaque = opaque or {}     # function name -> list of pool fields it may change
        self.cache = {}
        self.cnt = 0
        self.depth = 0
        self.params = []               # scalar / address parameters of the sliced function
        self.nopaque = 0

    # ---- utilities ------------------------------------------------------
    def fn(self, name):
        if name not in self.cache:
            try:
                self.cache[name] = L.load_function(self.src, name, self.cflags)
            except LeafError:
                self.cache[name] = None
        return self.cache[name]

    def fresh(self, base):
        self.cnt += 1
        return "%s_%d" % (re.sub(r"\W", "_", base), self.cnt)

    def let(self, base, text, k):
        """bind text to a fresh name (atoms are not re-bound); k(name) -> rest"""
        if re.fullmatch(r"\(?-?\w+\)?", text):
            return k(text)
        nm = self.fresh(base)
        return "let %s := %s in\n  %s" % (nm, text, k(nm))

    @staticmethod
    def body_of(f):
        return [c for c in f["inner"] if c.get("kind") == "CompoundStmt"][0]

    def callee(self, call):
        c = strip_casts(call["inner"][0])
        if c.get("kind") != "DeclRefExpr":
            raise LeafError("indirect call")
        return c["referencedDecl"]["name"]

    def is_local_fn(self, name):
        return name not in self.opaque and name not in ("malloc", "free", "memcpy", "memset") and self.fn(name) is not None

    def has_call(self, n):
        """contains a call that has to be sequenced (file-local function or opaque function)"""
        if n.get("kind") == "CallExpr":
            nm = None
            try:
                nm = self.callee(n)
            except LeafError:
                return True
            if nm in self.opaque or self.is_local_fn(nm):
                return True
        return any(self.has_call(c) for c in n.get("inner", []) if isinstance(c, dict))

    # ---- values -----------------------------------------------------------
    # ("Z", text) ("B", text) ("P", obj, idx text) ("A", text) ("POOL",)
    def code(self, v, env):
        """integer value of a pointer"""
        if v[0] == "A":
            return v[1]
        if v[0] == "P":
            a = env.addr[v[1]]
            if v[2] in ("0", "(0)"):
                return a
            u = env.unit.get(v[1]) or 1
            return "(%s + %d * %s)" % (a, u, v[2])
        raise LeafError("pointer expected")

    def z(self, v, env=None):
        if v[0] == "Z":
            return v[1]
        if v[0] == "B":
            return "(b2z %s)" % v[1]
        if v[0] in ("P", "A"):
            return self.code(v, env)
        raise LeafError("integer expected")

    def b(self, v, env=None):
        if v[0] == "B":
            return v[1]
        if v[0] == "Z":
            return "(z2b %s)" % v[1]
        if v[0] in ("P", "A"):
            return "(negb (%s =? 0))" % self.code(v, env)
        raise LeafError("condition expected")

    def use_unit(self, obj, s, env):
        if s is None:
            raise LeafError("pointer arithmetic on an unsupported pointee type")
        u = env.unit.get(obj)
        if u is None:
            env.unit[obj] = s
        elif u != s:
            raise LeafError("object %s used with element size %d and %d" % (obj, u, s))

    def padd(self, p, off, size, env, neg=False):
        if p[0] == "A":
            return ("A", "(%s %s %d * %s)" % (p[1], "-" if neg else "+", size or 1, off))
        if p[0] != "P":
            raise LeafError("pointer arithmetic on a non-pointer")
        self.use_unit(p[1], size, env)
        if p[2] in ("0", "(0)") and not neg:
            return ("P", p[1], off)
        return ("P", p[1], "(%s %s %s)" % (p[2], "-" if neg else "+", off))

    # ---- expressions (no sequenced calls inside) --------------------------------
    def wrap(self, n, e):
        ty = L.ctype(n)
        if ty is None:
            raise LeafError("non-integer arithmetic")
        if not ty[0]:
            return ("Z", "(wrapu %d %s)" % (ty[1], e))
        return ("Z", e)

    def lvalue(self, n, env):
        """-> ('loc', name) | ('fld', name) | ('cell', obj, idx)"""
        n = strip_paren(n)
        k = n.get("kind")
        if k == "DeclRefExpr":
            return ("loc", n["referencedDecl"]["name"])
        if k == "MemberExpr":
            base = self.ev(n["inner"][0], env)
            if base[0] != "POOL":
                raise LeafError("member access on something that is not the pool")
            return ("fld", n["name"])
        if k == "ArraySubscriptExpr":
            a, i = n["inner"]
            if pointee_size(qt(i)) is not None and pointee_size(qt(a)) is None:
                a, i = i, a
            p = self.ev(a, env)
            p = self.padd(p, self.z(self.ev(i, env), env), pointee_size(qt(a)), env)
            if p[0] != "P":
                raise LeafError("store / load through a pointer of unknown origin")
            return ("cell", p[1], p[2])
        if k == "UnaryOperator" and n.get("opcode") == "*":
            p = self.ev(n["inner"][0], env)
            if p[0] != "P":
                raise LeafError("dereference of a pointer of unknown origin")
            self.use_unit(p[1], pointee_size(qt(n["inner"][0])), env)
            return ("cell", p[1], p[2])
        raise LeafError("unsupported lvalue " + str(k))

    def load(self, lv, n, env):
        if lv[0] == "loc":
            if lv[1] not in env.loc:
                raise LeafError("unknown variable " + lv[1])
            v = env.loc[lv[1]]
            if v is None:
                raise LeafError("variable %s read before it is set" % lv[1])
            return v
        if lv[0] == "fld":
            if lv[1] in IGNORED_FIELDS:
                return ("Z", "0")
            if lv[1] not in env.fld:
                raise LeafError("unknown pool field " + lv[1])
            return env.fld[lv[1]]
        if env.unit.get(lv[1]) != 8:
            raise LeafError("load from an object that is not an array of pointers")
        e = "(lget %s %s)" % (env.obj[lv[1]], lv[2])
        return ("A", e) if pointee_size(qt(n)) is not None or qt(n).replace(" ", "").endswith("*") else ("Z", e)

    def ev(self, n, env):
        k = n.get("kind")
        if k in ("ParenExpr", "ConstantExpr"):
            return self.ev(n["inner"][0], env)
        if k in ("ImplicitCastExpr", "CStyleCastExpr"):
            ck = n.get("castKind")
            inner = n["inner"][-1]
            if ck == "LValueToRValue":
                return self.load(self.lvalue(inner, env), inner, env)
            if ck in ("NoOp", "FunctionToPointerDecay", "ArrayToPointerDecay"):
                return self.ev(inner, env)
            if ck == "BitCast":
                v = self.ev(inner, env)
                if v[0] not in ("P", "A", "POOL"):
                    raise LeafError("bit cast of a non-pointer")
                return v
            if ck == "NullToPointer":
                return ("A", "0")
            if ck == "PointerToBoolean":
                return ("B", self.b(self.ev(inner, env), env))
            if ck == "ToVoid":
                return ("Z", "0")
            if ck in ("IntegralCast", "IntegralToBoolean", "BooleanToSignedIntegral"):
                v = self.ev(inner, env)
                ty = L.ctype(n)
                if ty is None:
                    raise LeafError("cast to non-integer")
                if ck == "IntegralToBoolean" or ty[1] == 1:
                    return ("B", self.b(v, env))
                e = self.z(v, env)
                src = L.ctype(inner)
                if not ty[0]:
                    if src and not src[0] and src[1] <= ty[1]:
                        return ("Z", e)
                    if src and src[0] and strip_paren(inner).get("kind") == "IntegerLiteral" and int(strip_paren(inner)["value"]) >= 0:
                        return ("Z", e)
                    return ("Z", "(wrapu %d %s)" % (ty[1], e))
                return ("Z", e)
            raise LeafError("unsupported cast " + str(ck))
        if k == "IntegerLiteral" or k == "CharacterLiteral":
            return ("Z", "(%d)" % int(n["value"]))
        if k == "GNUNullExpr":
            return ("A", "0")
        if k == "UnaryExprOrTypeTraitExpr":
            if n.get("name") != "sizeof":
                raise LeafError("unsupported type trait")
            t = n.get("argType", {}).get("qualType") or (qt(n["inner"][0]) if n.get("inner") else "")
            if t.replace(" ", "").endswith("*"):
                return ("Z", "(8)")
            ty = L.INT_TYPES.get(t)
            if ty:
                return ("Z", "(%d)" % max(1, ty[1] // 8))
            raise LeafError("unsupported sizeof(%s)" % t)
        if k in ("DeclRefExpr", "MemberExpr", "ArraySubscriptExpr"):
            # an lvalue used as a value without a cast node (e.g. the base of a member access)
            if k == "DeclRefExpr" and n["referencedDecl"].get("kind") == "EnumConstantDecl":
                raise LeafError("enum constant")
            return self.load(self.lvalue(n, env), n, env)
        if k == "UnaryOperator":
            op = n["opcode"]
            if op == "&":
                lv = self.lvalue(n["inner"][0], env)
                if lv[0] != "cell":
                    raise LeafError("address of something that is not an array cell")
                return ("P", lv[1], lv[2])
            if op == "*":
                return self.load(self.lvalue(n, env), n, env)
            v = self.ev(n["inner"][0], env)
            if op == "!":
                return ("B", "(negb %s)" % self.b(v, env))
            if op == "-":
                return self.wrap(n, "(- %s)" % self.z(v, env))
            if op == "~":
                ty = L.ctype(n)
                if ty and not ty[0]:
                    return ("Z", "(2 ^ %d - 1 - %s)" % (ty[1], self.z(v, env)))
                return ("Z", "(- %s - 1)" % self.z(v, env))
            if op == "+":
                return v
            raise LeafError("unsupported unary %s in an expression" % op)
        if k == "ConditionalOperator":
            c = self.b(self.ev(n["inner"][0], env), env)
            x, y = self.ev(n["inner"][1], env), self.ev(n["inner"][2], env)
            if x[0] in ("P", "POOL") or y[0] in ("P", "POOL"):
                raise LeafError("conditional expression of pointer type")
            if x[0] == "A" or y[0] == "A":
                return ("A", "(if %s then %s else %s)" % (c, self.z(x, env), self.z(y, env)))
            return ("Z", "(if %s then %s else %s)" % (c, self.z(x, env), self.z(y, env)))
        if k == "BinaryOperator":
            op = n["opcode"]
            a, b2 = n["inner"]
            if op in ("&&", "||"):
                return ("B", "(%s %s %s)" % (self.b(self.ev(a, env), env), op, self.b(self.ev(b2, env), env)))
            if op == ",":
                raise LeafError("comma operator")
            x, y = self.ev(a, env), self.ev(b2, env)
            ptr = x[0] in ("P", "A") or y[0] in ("P", "A")
            if op in ("<", "<=", ">", ">=", "==", "!="):
                if ptr and op not in ("==", "!="):
                    raise LeafError("ordering comparison of pointers")
                m = {"<": "<?", "<=": "<=?", ">": ">?", ">=": ">=?", "==": "=?"}
                if op == "!=":
                    return ("B", "(negb (%s =? %s))" % (self.z(x, env), self.z(y, env)))
                return ("B", "(%s %s %s)" % (self.z(x, env), m[op], self.z(y, env)))
            if ptr:
                if op == "+" and x[0] in ("P", "A"):
                    return self.padd(x, self.z(y, env), pointee_size(qt(a)), env)
                if op == "+" and y[0] in ("P", "A"):
                    return self.padd(y, self.z(x, env), pointee_size(qt(b2)), env)
                if op == "-" and x[0] in ("P", "A") and y[0] not in ("P", "A"):
                    return self.padd(x, self.z(y, env), pointee_size(qt(a)), env, neg=True)
                raise LeafError("unsupported pointer arithmetic")
            xs, ys = self.z(x, env), self.z(y, env)
            if op in ("+", "-", "*"):
                return self.wrap(n, "(%s %s %s)" % (xs, op, ys))
            if op == "/":
                return ("Z", "(cdiv %s %s)" % (xs, ys))
            if op == "%":
                return ("Z", "(crem %s %s)" % (xs, ys))
            if op == "&":
                return ("Z", "(Z.land %s %s)" % (xs, ys))
            if op == "|":
                return ("Z", "(Z.lor %s %s)" % (xs, ys))
            if op == "^":
                return ("Z", "(Z.lxor %s %s)" % (xs, ys))
            if op == "<<":
                return self.wrap(n, "(Z.shiftl %s %s)" % (xs, ys))
            if op == ">>":
                return ("Z", "(Z.shiftr %s %s)" % (xs, ys))
            raise LeafError("unsupported binary " + op)
        if k == "CallExpr":
            nm = self.callee(n)
            if nm == "malloc":
                sz = self.z(self.ev(n["inner"][1], env), env)
                kk = len(env.msz) + 1
                if kk > NMALLOC:
                    raise LeafError("more than %d malloc calls on one path" % NMALLOC)
                env.msz.append(sz)
                obj = "heap_%d" % kk
                env.obj[obj], env.unit[obj], env.addr[obj] = obj, None, "m_%d" % kk
                return ("P", obj, "0")
            raise LeafError("call of %s inside an expression" % nm)
        raise LeafError("unsupported expression kind " + str(k))

    # ---- stores ---------------------------------------------------------------
    def store(self, lv, v, env, k):
        """k() -> text of the continuation"""
        if lv[0] == "loc":
            if v[0] in ("Z", "B"):
                return self.let(lv[1], self.z(v, env), lambda nm: self._setloc(env, lv[1], ("Z", nm), k))
            if v[0] == "A":
                return self.let(lv[1], v[1], lambda nm: self._setloc(env, lv[1], ("A", nm), k))
            env.loc[lv[1]] = v
            return k()
        if lv[0] == "fld":
            f = lv[1]
            if f in IGNORED_FIELDS:
                return k()
            if f in PTR_FIELDS:
                if v[0] not in ("P", "A"):
                    raise LeafError("integer stored into pointer field " + f)
                env.fld[f] = v
                return k()
            if f not in FIELDS:
                raise LeafError("store into unknown pool field " + f)
            return self.let("f_" + f, self.z(v, env), lambda nm: self._setfld(env, f, ("Z", nm), k))
        obj, idx = lv[1], lv[2]
        if env.unit.get(obj) != 8:
            raise LeafError("store into an object that is not an array of pointers")
        text = "(lset %s %s %s)" % (env.obj[obj], idx, self.z(v, env))
        return self.let(obj, text, lambda nm: self._setobj(env, obj, nm, k))

    @staticmethod
    def _setloc(env, n, v, k):
        env.loc[n] = v
        return k()

    @staticmethod
    def _setfld(env, n, v, k):
        env.fld[n] = v
        return k()

    @staticmethod
    def _setobj(env, n, v, k):
        env.obj[n] = v
        return k()

    # ---- sequenced evaluation (calls of local / opaque functions) -----------------
    def evk(self, n, env, k):
        """evaluate n, which may contain sequenced calls; k(value, env) -> text"""
        if not self.has_call(n):
            return k(self.ev(n, env), env)
        kind = n.get("kind")
        if kind in ("ParenExpr", "ConstantExpr"):
            return self.evk(n["inner"][0], env, k)
        if kind in ("ImplicitCastExpr", "CStyleCastExpr"):
            ck = n.get("castKind")
            if ck in ("NoOp", "BitCast", "IntegralCast", "IntegralToBoolean", "PointerToBoolean", "ToVoid"):
                def after(v, e2, n=n, ck=ck):
                    if ck in ("IntegralToBoolean", "PointerToBoolean"):
                        return k(("B", self.b(v, e2)), e2)
                    if ck == "IntegralCast":
                        ty = L.ctype(n)
                        if ty and not ty[0] and ty[1] < 64 and v[0] == "Z":
                            return k(("Z", "(wrapu %d %s)" % (ty[1], v[1])), e2)
                    return k(v, e2)
                return self.evk(n["inner"][-1], env, after)
        if kind == "CallExpr":
            return self.call(n, env, k)
        if kind == "UnaryOperator" and n.get("opcode") == "!":
            return self.evk(n["inner"][0], env, lambda v, e2: k(("B", "(negb %s)" % self.b(v, e2)), e2))
        if kind == "BinaryOperator" and n.get("opcode") in ("&&", "||"):
            # value needed: materialise through the branching form
            return self.cond(n, env, lambda e2: k(("B", "true"), e2), lambda e2: k(("B", "false"), e2))
        raise LeafError("call inside an unsupported expression (%s)" % kind)

    def cond(self, n, env, kt, kf):
        """branch on n; kt / kf get the environment of their branch"""
        n0 = strip_paren(n)
        kind = n0.get("kind")
        if self.has_call(n0):
            if kind in ("ImplicitCastExpr", "CStyleCastExpr") and n0.get("castKind") in (
                    "IntegralToBoolean", "PointerToBoolean", "NoOp", "IntegralCast"):
                return self.cond(n0["inner"][-1], env, kt, kf)
            if kind == "UnaryOperator" and n0.get("opcode") == "!":
                return self.cond(n0["inner"][0], env, kf, kt)
            if kind == "BinaryOperator" and n0.get("opcode") == "&&":
                return self.cond(n0["inner"][0], env, lambda e1: self.cond(n0["inner"][1], e1, kt, kf), kf)
            if kind == "BinaryOperator" and n0.get("opcode") == "||":
                return self.cond(n0["inner"][0], env, kt, lambda e1: self.cond(n0["inner"][1], e1, kt, kf))
            return self.evk(n0, env, lambda v, e2: self._branch(self.b(v, e2), e2, kt, kf))
        return self._branch(self.b(self.ev(n0, env), env), env, kt, kf)

    @staticmethod
    def fold(c):
        """decide a condition that contains no variable"""
        if re.search(r"[A-Za-z_]", c.replace("negb", "").replace("true", "").replace("false", "")):
            return c
        t = c.replace("negb", " not ").replace("true", " True ").replace("false", " False ")
        t = t.replace("<=?", "<=").replace(">=?", ">=").replace("<?", "<").replace(">?", ">").replace("=?", "==")
        t = t.replace("&&", " and ").replace("||", " or ")
        try:
            return "true" if eval(t, {"__builtins__": {}}, {}) else "false"
        except Exception:
            return c

    def _branch(self, c, env, kt, kf):
        c = self.fold(c)
        if c == "true":
            return kt(env)
        if c == "false":
            return kf(env)
        e1, e2 = env.copy(), env.copy()
        return "(if %s\n  then %s\n  else %s)" % (c, kt(e1), kf(e2))

    def call(self, n, env, k):
        nm = self.callee(n)
        args = n["inner"][1:]
        if nm in self.opaque:
            vals = [self.ev(a, env) for a in args]
            self.nopaque += 1
            for v in vals:
                if v[0] in ("Z", "B"):
                    env.oargs.append(self.z(v, env))
                elif v[0] != "POOL":
                    raise LeafError("pointer argument of opaque call " + nm)
            for f in self.opaque[nm]:
                if f in PTR_FIELDS:
                    env.obj["hring"], env.unit["hring"], env.addr["hring"] = "hring", 8, "a_hring"
                    env.fld[f] = ("P", "hring", "0")
                else:
                    env.fld[f] = ("Z", "h_" + f)
            rt = self.fn(nm)["type"]["qualType"].split("(")[0].strip() if self.fn(nm) else "bool"
            return k(("B", "(z2b ores)") if rt in ("bool", "_Bool") else ("Z", "ores"), env)
        f = self.fn(nm)
        if f is None or not self.is_local_fn(nm):
            # malloc etc. are pure for the sequencing purposes
            return k(self.ev(n, env), env)
        self.depth += 1
        if self.depth > 10:
            raise LeafError("call nesting too deep at " + nm)
        try:
            parms = [c for c in f.get("inner", []) if c.get("kind") == "ParmVarDecl"]
            if len(parms) != len(args):
                raise LeafError("argument count mismatch calling " + nm)
            vals = [self.ev(a, env) for a in args]
            saved = dict(env.loc)
            env.loc = {p["name"]: v for p, v in zip(parms, vals)}

            def kret(v, e):
                e.loc = dict(saved)
                return k(v if v is not None else ("Z", "0"), e)

            def bind(i, e):
                if i == len(parms):
                    return self.exec([self.body_of(f)], e, kret, lambda e2: kret(None, e2))
                p, v = parms[i], e.loc[parms[i]["name"]]
                if v[0] in ("Z", "B"):
                    return self.let(p["name"], self.z(v, e),
                                    lambda nm2: self._setloc(e, p["name"], ("Z", nm2), lambda: bind(i + 1, e)))
                return bind(i + 1, e)
            return bind(0, env)
        finally:
            self.depth -= 1

    # ---- statements ---------------------------------------------------------------
    def exec(self, stmts, env, kret, kfall):
        """kret(value | None, env) at a return; kfall(env) when the list runs out"""
        if not stmts:
            return kfall(env)
        s, R = stmts[0], list(stmts[1:])
        if not s:
            return self.exec(R, env, kret, kfall)
        k = s.get("kind")
        nxt = lambda e=env: self.exec(R, e, kret, kfall)  # noqa: E731
        if k == "CompoundStmt":
            # block scope: locals declared inside shadow nothing we need to restore (names are unique enough in C
            # functions of this file; a redeclaration simply rebinds)
            return self.exec(list(s.get("inner", [])) + R, env, kret, kfall)
        if k == "NullStmt":
            return nxt()
        if k == "ReturnStmt":
            if not s.get("inner"):
                return kret(None, env)
            return self.evk(s["inner"][0], env, lambda v, e: kret(v, e))
        if k == "IfStmt":
            inner = [x for x in s["inner"]]
            c, t = inner[0], inner[1]
            f = inner[2] if len(inner) > 2 else None
            return self.cond(c, env,
                             lambda e: self.exec([t] + R, e, kret, kfall),
                             lambda e: self.exec(([f] if f is not None else []) + R, e, kret, kfall))
        if k == "DeclStmt":
            ds = [d for d in s.get("inner", [])]

            def decls(i, e):
                if i == len(ds):
                    return self.exec(R, e, kret, kfall)
                d = ds[i]
                if d.get("kind") != "VarDecl":
                    raise LeafError("unsupported declaration")
                init = d.get("inner", [])
                if not init:
                    e.loc[d["name"]] = None
                    return decls(i + 1, e)
                return self.evk(init[-1], e, lambda v, e2: self.store(("loc", d["name"]), self.conv(v, d, e2), e2, lambda: decls(i + 1, e2)))
            return decls(0, env)
        if k in ("ForStmt", "WhileStmt"):
            return self.loop(s, env, lambda e: self.exec(R, e, kret, kfall))
        if k in ("BinaryOperator", "CompoundAssignOperator") and s.get("opcode", "").endswith("=") and \
                s.get("opcode") not in ("==", "!=", "<=", ">="):
            return self.assign(s, env, lambda v, e: self.exec(R, e, kret, kfall))
        if k == "UnaryOperator" and s.get("opcode") in ("++", "--"):
            return self.incdec(s, env, lambda e: self.exec(R, e, kret, kfall))
        if k == "CallExpr":
            nm = self.callee(s)
            if nm == "free":
                self.ev(s["inner"][1], env)
                return nxt()
            if nm == "memcpy":
                return self.memcpy(s, env, nxt)
            if nm == "memset":
                return self.memset(s, env, nxt)
            if nm in self.opaque or self.is_local_fn(nm):
                return self.call(s, env, lambda v, e: self.exec(R, e, kret, kfall))
            if nm == "malloc":
                self.ev(s, env)
                return nxt()
            raise LeafError("call of %s is not supported" % nm)
        if k in ("ImplicitCastExpr", "CStyleCastExpr", "ParenExpr"):
            if self.has_call(s):
                return self.evk(s, env, lambda v, e: self.exec(R, e, kret, kfall))
            inner = strip_casts(s)
            if inner.get("kind") in ("BinaryOperator", "CompoundAssignOperator", "UnaryOperator", "CallExpr") and inner is not s:
                return self.exec([inner] + R, env, kret, kfall)
            return nxt()      # expression without effect, e.g. ((void)0) left by assert under NDEBUG
        if k in ("IntegerLiteral",):
            return nxt()
        raise LeafError("unsupported statement kind " + str(k))

    def conv(self, v, decl, env):
        """value converted to the declared type of a variable"""
        ty = L.ctype(decl)
        if ty is not None:
            if v[0] in ("P", "A", "POOL"):
                raise LeafError("pointer stored into integer variable " + decl.get("name", "?"))
            if ty[1] == 1:
                return ("Z", "(b2z %s)" % self.b(v, env))
            return v
        if POOLT in qt(decl):
            return v
        if pointee_size(qt(decl)) is None and not qt(decl).replace(" ", "").endswith("*"):
            raise LeafError("unsupported local of type " + qt(decl))
        if v[0] not in ("P", "A", "POOL"):
            raise LeafError("integer stored into pointer variable " + decl.get("name", "?"))
        if v[0] == "P" and pointee_size(qt(decl)) in (8,):
            self.use_unit(v[1], 8, env)
        return v

    def assign(self, s, env, k):
        lhs, rhs = s["inner"]
        op = s["opcode"]

        def have(v, e):
            lv = self.lvalue(lhs, e)
            if op != "=":
                cur = self.load(lv, lhs, e)
                if cur[0] in ("P", "A"):
                    raise LeafError("compound assignment on a pointer")
                xs, ys = self.z(cur, e), self.z(v, e)
                bop = op[:-1]
                rty = {"type": s.get("computeResultType", s["type"])}
                if bop in ("+", "-", "*"):
                    val = self.wrap(rty, "(%s %s %s)" % (xs, bop, ys))
                elif bop == ">>":
                    val = ("Z", "(Z.shiftr %s %s)" % (xs, ys))
                elif bop == "<<":
                    val = self.wrap(rty, "(Z.shiftl %s %s)" % (xs, ys))
                elif bop == "&":
                    val = ("Z", "(Z.land %s %s)" % (xs, ys))
                elif bop == "|":
                    val = ("Z", "(Z.lor %s %s)" % (xs, ys))
                elif bop == "/":
                    val = ("Z", "(cdiv %s %s)" % (xs, ys))
                elif bop == "%":
                    val = ("Z", "(crem %s %s)" % (xs, ys))
                else:
                    raise LeafError("unsupported compound assignment " + op)
                ty = L.ctype(s)
                if ty and not ty[0]:
                    val = ("Z", "(wrapu %d %s)" % (ty[1], val[1]))
                v = val
            return self.store(lv, v, e, lambda: k(v, e))
        r0 = strip_casts(rhs)
        if op == "=" and r0.get("kind") == "BinaryOperator" and r0.get("opcode") == "=":
            # a = b = v
            return self.assign(r0, env, have)
        return self.evk(rhs, env, have)

    def incdec(self, s, env, k):
        lv = self.lvalue(s["inner"][0], env)
        cur = self.load(lv, s["inner"][0], env)
        if cur[0] != "Z":
            raise LeafError("++/-- on a non-integer")
        v = self.wrap(s, "(%s %s 1)" % (cur[1], "+" if s["opcode"] == "++" else "-"))
        return self.store(lv, v, env, lambda: k(env))

    def memcpy(self, s, env, k):
        d, src, n = (self.ev(a, env) for a in s["inner"][1:4])
        if d[0] != "P" or src[0] != "P":
            raise LeafError("memcpy between pointers of unknown origin")
        self.use_unit(d[1], 8, env)
        self.use_unit(src[1], 8, env)
        if d[1] == src[1]:
            raise LeafError("memcpy inside one object")
        text = "(lblit %s %s %s %s (cdiv %s 8))" % (env.obj[d[1]], d[2], env.obj[src[1]], src[2], self.z(n, env))
        return self.let(d[1], text, lambda nm: self._setobj(env, d[1], nm, k))

    def memset(self, s, env, k):
        d, c, n = s["inner"][1:4]
        dv = self.ev(d, env)
        if dv[0] != "POOL" or self.z(self.ev(c, env), env) not in ("(0)", "0"):
            raise LeafError("memset of something other than the whole pool to 0")
        n0 = strip_casts(n)
        if n0.get("kind") != "UnaryExprOrTypeTraitExpr" or POOLT not in (n0.get("argType", {}).get("qualType") or (qt(n0["inner"][0]) if n0.get("inner") else "")):
            raise LeafError("memset of the pool with a size that is not sizeof(pool)")
        for f in FIELDS:
            env.fld[f] = ("Z", "0")
        for f in PTR_FIELDS:
            env.fld[f] = ("A", "0")
        return k()

    # ---- counting loops -> lfill ------------------------------------------------------
    def loop(self, s, env, k):
        inner = s["inner"]
        if s["kind"] == "ForStmt":
            init, cond, inc, body = inner[0], inner[2], inner[3], inner[4]
        else:
            init, cond, inc, body = None, inner[0], None, inner[1]

        def after_init(env):
            c0 = strip_paren(cond)
            if c0.get("kind") != "BinaryOperator" or c0.get("opcode") not in ("<", "!="):
                raise LeafError("loop condition is not `i < N` / `i != N`")
            iv = strip_casts(c0["inner"][0])
            if iv.get("kind") != "DeclRefExpr":
                raise LeafError("loop condition does not start with the induction variable")
            iname = iv["referencedDecl"]["name"]
            cur = env.loc.get(iname)
            if not cur or cur[0] != "Z" or cur[1] not in ("(0)", "0"):
                raise LeafError("loop induction variable %s does not start at 0" % iname)
            if self.mentions(c0["inner"][1], iname):
                raise LeafError("loop bound depends on the induction variable")
            bound = self.z(self.ev(c0["inner"][1], env), env)
            body_stmts = list(body.get("inner", [])) if body.get("kind") == "CompoundStmt" else [body]
            if inc:
                body_stmts = body_stmts + [inc]
            ivar = self.fresh("i")
            le = env.copy()
            le.loc[iname] = ("Z", ivar)
            writes, stepped = [], [False]
            for st in body_stmts:
                st0 = strip_casts(st) if st.get("kind") in ("ParenExpr", "ImplicitCastExpr", "CStyleCastExpr") else st
                kk = st0.get("kind")
                if stepped[0]:
                    raise LeafError("statement after the increment of the induction variable")
                if self.is_step(st0, iname):
                    stepped[0] = True
                    continue
                if kk == "DeclStmt":
                    for d in st0.get("inner", []):
                        if not d.get("inner"):
                            raise LeafError("uninitialised local in a loop body")
                        le.loc[d["name"]] = self.conv(self.ev(d["inner"][-1], le), d, le)
                    continue
                if kk == "BinaryOperator" and st0.get("opcode") == "=":
                    lv = self.lvalue(st0["inner"][0], le)
                    if lv[0] != "cell":
                        raise LeafError("loop body stores into something that is not an array cell")
                    v = self.ev(st0["inner"][1], le)
                    writes.append((lv[1], lv[2], self.z(v, le)))
                    continue
                raise LeafError("unsupported statement in a loop body: " + str(kk))
            if not stepped[0]:
                raise LeafError("loop does not increment its induction variable by one")
            if len(writes) != 1:
                raise LeafError("loop body must consist of exactly one store into an array (found %d)" % len(writes))
            obj, idx, val = writes[0]
            if re.search(r"\b%s\b" % re.escape(env.obj[obj]), val) or re.search(r"\b%s\b" % re.escape(env.obj[obj]), idx):
                raise LeafError("loop reads the array it writes")
            env.unit.update({o: u for o, u in le.unit.items() if env.unit.get(o) is None})
            if env.unit.get(obj) != 8:
                raise LeafError("loop stores into an object that is not an array of pointers")
            text = "(lfill %s %s (fun %s => %s) (fun %s => %s))" % (env.obj[obj], bound, ivar, idx, ivar, val)

            def fin(nm):
                env.obj[obj] = nm
                return self.store(("loc", iname), ("Z", bound), env, lambda: k(env))
            return self.let(obj, text, fin)
        if init is not None and init:
            if init.get("kind") == "DeclStmt":
                return self.exec([init], env, None, after_init)
            return self.exec([init], env, None, after_init)
        return after_init(env)

    def mentions(self, n, name):
        if n.get("kind") == "DeclRefExpr" and n["referencedDecl"]["name"] == name:
            return True
        return any(self.mentions(c, name) for c in n.get("inner", []) if isinstance(c, dict))

    @staticmethod
    def is_step(st, iname):
        def isi(x):
            x = strip_casts(x)
            return x.get("kind") == "DeclRefExpr" and x["referencedDecl"]["name"] == iname

        def one(x):
            x = strip_casts(x)
            while x.get("kind") in ("ImplicitCastExpr", "CStyleCastExpr"):
                x = x["inner"][-1]
            return x.get("kind") == "IntegerLiteral" and x["value"] == "1"
        k = st.get("kind")
        if k == "UnaryOperator" and st.get("opcode") == "++" and isi(st["inner"][0]):
            return True
        if k == "CompoundAssignOperator" and st.get("opcode") == "+=" and isi(st["inner"][0]) and one(st["inner"][1]):
            return True
        if k == "BinaryOperator" and st.get("opcode") == "=" and isi(st["inner"][0]):
            r = strip_casts(st["inner"][1])
            if r.get("kind") == "BinaryOperator" and r.get("opcode") == "+":
                a, b = r["inner"]
                return (isi(a) and one(b)) or (isi(b) and one(a))
        return False

    # ---- entry ----------------------------------------------------------------------------
    def slice(self, name, gname):
        f = self.fn(name)
        if f is None:
            raise LeafError("function %s not found in %s" % (name, self.src))
        self.cnt, self.nopaque = 0, 0
        env = Env()
        for fl in FIELDS:
            env.fld[fl] = ("Z", "f_" + fl)
        for fl, obj in PTR_FIELDS.items():
            env.obj[obj], env.unit[obj], env.addr[obj] = obj, 8, "a_" + obj
            env.fld[fl] = ("P", obj, "0")
        params = []
        for p in [c for c in f.get("inner", []) if c.get("kind") == "ParmVarDecl"]:
            t = qt(p)
            if POOLT in t:
                env.loc[p["name"]] = ("POOL",)
            elif L.ctype(p) is not None:
                env.loc[p["name"]] = ("Z", "p_" + p["name"])
                params.append("p_" + p["name"])
            elif t.replace(" ", "").endswith("*"):
                env.loc[p["name"]] = ("A", "p_" + p["name"])
                params.append("p_" + p["name"])
            else:
                raise LeafError("unsupported parameter type " + t)
        rt = f["type"]["qualType"].split("(")[0].strip()
        nop = [0]

        def result(v, e):
            if rt == "void":
                r = "0"
            elif rt in ("bool", "_Bool"):
                r = "(b2z %s)" % self.b(v, e) if v is not None else "0"
            else:
                r = self.z(v, e) if v is not None else "0"
            parts = [r] + [e.fld[fl][1] for fl in FIELDS]
            for fl in ("memory_pool_ptr_buf", "memory_pool_data_bufs"):
                pv = e.fld[fl]
                if pv[0] == "P":
                    if pv[2] not in ("0", "(0)"):
                        raise LeafError("pool field %s left pointing into the middle of an array" % fl)
                    parts += [e.obj[pv[1]], e.addr[pv[1]]]
                else:
                    parts += ["[]", pv[1]]
            parts += e.msz + ["(-1)"] * (NMALLOC - len(e.msz))
            nop[0] = max(nop[0], len(e.oargs))
            parts.append("@OARGS%d@" % len(e.oargs) + "|".join(e.oargs))
            return "(" + ", ".join(parts) + ")"
        code = self.exec([self.body_of(f)], env, result, lambda e: result(None, e))

        code = self._fix_oargs(code, nop[0])
        args = ["(f_%s : Z)" % fl for fl in FIELDS] + ["(ring0 : list Z) (a_ring0 : Z) (bufs0 : list Z) (a_bufs0 : Z)"]
        args += ["(heap_%d : list Z) (m_%d : Z)" % (i, i) for i in range(1, NMALLOC + 1)]
        if self.opaque:
            hf = sorted({x for v in self.opaque.values() for x in v if x not in PTR_FIELDS})
            args += ["(ores : Z)"] + ["(h_%s : Z)" % x for x in hf] + ["(hring : list Z) (a_hring : Z)"]
        args += ["(%s : Z)" % p for p in params]
        return "Definition %s %s :=\n  %s.\n" % (gname, " ".join(args), code)

    @staticmethod
    def _fix_oargs(code, width):
        out, i = [], 0
        while True:
            j = code.find("@OARGS", i)
            if j < 0:
                out.append(code[i:])
                break
            out.append(code[i:j])
            m = re.match(r"@OARGS(\d+)@", code[j:])
            n = int(m.group(1))
            p = j + m.end()
            # the argument texts run up to the closing parenthesis of the result tuple
            depth, q = 0, p
            while q < len(code):
                ch = code[q]
                if ch == "(":
                    depth += 1
                elif ch == ")":
                    if depth == 0:
                        break
                    depth -= 1
                q += 1
            rest = code[p:q]
            xs = [x for x in rest.split("|") if x] + ["(-1)"] * (width - n)
            out.append(", ".join(xs) if xs else "0")
            i = q
        return "".join(out)


def translate(src, name, cflags, gname, opaque=None):
    return Slicer(src, cflags, opaque).slice(name, gname)
