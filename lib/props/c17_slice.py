"""C17 — slicer for the integer logic of the two rotating log handlers (second tie, DESIGN.md 4.4).

The handler functions are not leaves: they call libc / library functions, pass struct tm objects
and char buffers around and (after a refactoring) call file-local helpers.  This module executes
a NAMED function of the current C text symbolically (clang JSON AST, loaded with
lib/leaftrans.load_function) and emits one Gallina term over Z; every integer EXPRESSION is
translated by the shared translator (lib/leaftrans.Tr.ex: C typing, unsigned wrap, casts,
cdiv / crem), this module only supplies what leaftrans lacks, without looking at the shape of
the text:

  * handler fields are the arguments f_<name> (a FIXED list per target, used or not); pointer
    fields / pointer values are integers (0 = NULL); handler->last_tm.<f>, local `struct tm`
    objects, pointers to either (`&handler->last_tm`, `&curr_tm`, through locals and helper
    parameters) are followed field by field; memcpy between two struct tm objects of
    sizeof(struct tm) bytes and struct assignment copy the six modelled fields; reading another
    field of struct tm is an error;
  * msg->ts.tv_sec is the argument m_ts_sec; time(NULL) is env_time; localtime_r(&x, &T) /
    gmtime_r(&x, &T) set T.<f> to (lt x k) / (gt x k), lt gt : Z -> Z -> Z being arguments
    (k = 0..5 for tm_sec tm_min tm_hour tm_mday tm_mon tm_year);
  * char buffers hold names: snprintf(buf, n, "<fmt>", handler->filepath, ints...) stores
    (shape of the format, integer arguments) in buf and returns env_snp (one argument: any
    non-negative value); fopen / muggle_os_fopen / muggle_os_rename / muggle_os_remove /
    muggle_path_exists on a buffer or on handler->filepath record the name as outputs;
    fwrite(buf, 1, n, fp) records n and returns n; fmt->fmt_func(msg, buf, cap) records cap and
    returns env_fmt_ret; buf[i] = c on the message buffer records (i, c); mutex / fflush / fclose /
    fprintf have no effect on the integers;
  * calls of functions defined in the same file are inlined in continuation-passing style (any
    number of statements, early returns, pointer parameters); functions named `opaque` for the
    target are not entered: the call is counted, returns env_<name>_ret and replaces the listed
    fields by the arguments h_<field>;
  * `switch` is lowered to nested conditionals (fall-through and break respected); `&&`, `||`,
    `!` around calls are lowered to branches so that a call is evaluated exactly when C does;
  * integer locals are let-bound; both branches of a conditional continue with the rest of the
    function; a conditional whose branches are textually equal is dropped (so that tests that only
    guard effect-free calls, e.g. need_mutex, leave no trace);
  * a counting loop (`for` / `while`, exactly one loop-carried integer) is summarised by three
    definitions: <g>_head (up to the loop: outputs + initial value), <g>_step (condition, outputs
    of one iteration, next value; `continue` supported) and <g>_tail (after the loop);
  * every path of a target ends in the same tuple (fixed per target).

Anything else raises LeafError; the caller writes it as a comment into coq/gen/Params_C17.v, which
breaks the obligation (never a silent skip)."""
import collections
import copy
import re
import leaftrans as L

LeafError = L.LeafError
TM_FIELDS = ["tm_sec", "tm_min", "tm_hour", "tm_mday", "tm_mon", "tm_year"]
NOEFFECT = {"fprintf", "fflush", "fclose", "muggle_mutex_lock", "muggle_mutex_unlock", "fputs", "perror"}


def qt(n):
    return n.get("type", {}).get("qualType", "")


def base_type(t):
    return re.sub(r"\b(const|volatile|restrict)\b", "", t).replace("  ", " ").strip()


def is_ptr_type(t):
    return base_type(t).endswith("*")


def is_tm_type(t):
    return base_type(t).rstrip("* ").strip() == "struct tm"


def char_array(t):
    m = re.match(r"(?:const )?char\s*\[(\d+)\]$", base_type(t))
    return int(m.group(1)) if m else None


def strip_obj(n):
    while True:
        k = n.get("kind")
        if k in ("ParenExpr", "ConstantExpr"):
            n = n["inner"][0]
        elif k in ("ImplicitCastExpr", "CStyleCastExpr") and n.get("castKind") in (
                "NoOp", "LValueToRValue", "BitCast", "ArrayToPointerDecay", "FunctionToPointerDecay"):
            n = n["inner"][-1]
        else:
            return n


def has_call(n):
    if n.get("kind") == "CallExpr":
        return True
    return any(has_call(c) for c in n.get("inner", []) if c)


class St:
    """symbolic state of one path"""
    def __init__(self):
        self.env = {}       # integer (and pointer-as-integer) locals -> Gallina text
        self.sym = {}       # struct / buffer / pointer-to-object locals -> symbolic value
        self.fld = {}       # handler fields -> Gallina text
        self.tms = {}       # local struct tm objects -> {field: text}
        self.bufs = {}      # char buffers -> None | ('name', shape, [texts]) | ('msg',)
        self.out = {}       # outputs
        self.cnt = 0
        self.frames = 0
        self.brk = []       # break continuations (switch / loop)
        self.cont = []      # continue continuations

    def copy(self):
        s = St()
        s.env, s.sym, s.fld = dict(self.env), dict(self.sym), dict(self.fld)
        s.tms = {k: dict(v) for k, v in self.tms.items()}
        s.bufs, s.out = dict(self.bufs), dict(self.out)
        s.cnt, s.frames = self.cnt, self.frames
        s.brk, s.cont = list(self.brk), list(self.cont)
        return s


class Unknown(str):
    """text of a value that must not be read (e.g. a local of the loop head seen from the step)"""


class Slicer:
    def __init__(self, src, cflags, spec, enums=None):
        self.src, self.cflags, self.spec = src, cflags, spec
        self.enums = enums or {}
        self.cache = {}
        self.tr = L.Tr({"inner": []}, None, cflags)
        self.synth = {}
        self.nsynth = 0
        self.used = set()

    # ---- functions of the file ------------------------------------------------
    def fn(self, name):
        if name not in self.cache:
            try:
                self.cache[name] = L.load_function(self.src, name, self.cflags)
            except L.LeafError:
                self.cache[name] = None
        return self.cache[name]

    @staticmethod
    def body_of(f):
        return [c for c in f["inner"] if c.get("kind") == "CompoundStmt"][0]

    # ---- names ------------------------------------------------------------------
    def inp(self, name):
        """an argument of the generated definition"""
        if name not in self.spec["params"] and name not in self.spec.get("fparams", []):
            raise LeafError("the result depends on %s, which is not an input of %s" % (name, self.spec["gname"]))
        self.used.add(name)
        return name

    def bind(self, st, base, text, k):
        st.cnt += 1
        nm = "%s_%d" % (re.sub(r"\W", "_", base), st.cnt)
        return "let %s := %s in\n  %s" % (nm, text, k(nm))

    def mk_if(self, c, a, b):
        if a == b:
            return a
        return "(if %s\n  then %s\n  else %s)" % (c, a, b)

    # ---- objects (things that are not integers) -------------------------------------
    def obj(self, n, st):
        n = strip_obj(n)
        k = n.get("kind")
        if k == "DeclRefExpr":
            return st.sym.get(n["referencedDecl"]["name"])
        if k == "UnaryOperator" and n.get("opcode") == "&":
            inner = strip_obj(n["inner"][0])
            o = self.obj(inner, st)
            if o is not None:
                return o
            t = qt(inner)
            if L.ctype(inner) is not None:
                return ("intptr", self.lval(inner, st))
            return ("opaque", t)
        if k == "UnaryOperator" and n.get("opcode") == "*":
            return self.obj(n["inner"][0], st)
        if k == "MemberExpr":
            b = self.obj(n["inner"][0], st)
            t = qt(n)
            if b is None:
                return None
            if b[0] == "H":
                if is_tm_type(t) and not is_ptr_type(t):
                    return ("tm", "H." + n["name"])
                if char_array(t) is not None:
                    return ("path", n["name"])
                if L.ctype(n) is None and not is_ptr_type(t):
                    return ("H",) if n["name"] == "handler" else ("opaque", t)   # the embedded base handler
                return None
            if b[0] == "M":
                if L.ctype(n) is None and not is_ptr_type(t):
                    return ("M", b[1] + [n["name"]])
                return None
            return None
        return None

    def tm_get(self, key, f, st):
        if f not in TM_FIELDS:
            raise LeafError("field %s of struct tm is not modelled" % f)
        if key.startswith("H."):
            fk = key[2:] + "__" + f
            if fk not in st.fld:
                raise LeafError("handler field %s is not tracked" % fk)
            return st.fld[fk]
        v = st.tms.get(key, {}).get(f)
        if v is None:
            raise LeafError("struct tm object %s is read before it is set" % key)
        return v

    def tm_set(self, key, f, text, st):
        if key.startswith("H."):
            st.fld[key[2:] + "__" + f] = text
        else:
            st.tms.setdefault(key, {})[f] = text

    def tm_copy(self, dst, src, st):
        vals = [self.tm_get(src, f, st) for f in TM_FIELDS]
        for f, v in zip(TM_FIELDS, vals):
            self.tm_set(dst, f, v, st)

    # ---- integer lvalues --------------------------------------------------------------
    def lval(self, n, st):
        n = strip_obj(n) if n.get("kind") in ("ParenExpr",) else n
        k = n.get("kind")
        if k == "ParenExpr":
            return self.lval(n["inner"][0], st)
        if k == "DeclRefExpr":
            nm = n["referencedDecl"]["name"]
            if nm in st.env:
                return ("local", nm)
            raise LeafError("unknown variable " + nm)
        if k == "UnaryOperator" and n.get("opcode") == "*":
            o = self.obj(n["inner"][0], st)
            if o and o[0] == "intptr":
                return o[1]
            raise LeafError("dereference of a pointer the slicer does not follow")
        if k == "MemberExpr":
            b = self.obj(n["inner"][0], st)
            if b is None:
                raise LeafError("member ." + n.get("name", "?") + " of something that is not the handler, the message or a struct tm")
            if b[0] == "H":
                return ("fld", n["name"])
            if b[0] == "tm":
                return ("tmf", b[1], n["name"])
            if b[0] == "M":
                return ("m", b[1] + [n["name"]])
            raise LeafError("member ." + n["name"] + " of " + str(b[0]))
        if k == "ArraySubscriptExpr":
            b = self.obj(n["inner"][0], st)
            if b and b[0] == "buf":
                return ("bufelem", b[1], n["inner"][1])
            raise LeafError("subscript of something that is not a local buffer")
        raise LeafError("unsupported lvalue " + str(k))

    def read(self, lv, st):
        if lv[0] == "local":
            v = st.env[lv[1]]
            if isinstance(v, Unknown):
                raise LeafError("local %s is not known at this point (%s)" % (lv[1], v))
            return v
        if lv[0] == "fld":
            if lv[1] in st.fld:
                v = st.fld[lv[1]]
                if isinstance(v, Unknown):
                    raise LeafError("field %s is not known at this point" % lv[1])
                return v
            return "u_" + lv[1]            # untracked field: must not survive into the result
        if lv[0] == "tmf":
            return self.tm_get(lv[1], lv[2], st)
        if lv[0] == "m":
            if lv[1] == ["ts", "tv_sec"]:
                return self.inp("m_ts_sec")
            raise LeafError("message field %s is not an input" % ".".join(lv[1]))
        raise LeafError("cannot read " + str(lv[0]))

    # ---- expressions: rewrite to the fragment of leaftrans.Tr.ex ------------------------
    def synth_ref(self, text, like):
        self.nsynth += 1
        nm = "@%d" % self.nsynth
        self.synth[nm] = text
        return {"kind": "DeclRefExpr", "referencedDecl": {"name": nm, "kind": "VarDecl"}, "type": dict(like.get("type", {}))}

    def sizeof(self, n):
        t = n["argType"]["qualType"] if "argType" in n else qt(n["inner"][0])
        c = char_array(t)
        if c is not None:
            return c
        if is_tm_type(t) and not is_ptr_type(t):
            return "sizeof(struct tm)"
        if base_type(t) in self.spec.get("sizeofs", {}):
            return self.spec["sizeofs"][base_type(t)]
        raise LeafError("sizeof(%s) is not known" % t)

    def rx(self, n, st):
        k = n.get("kind")
        if k == "CallExpr":
            raise LeafError("call in a position whose evaluation order the slicer does not follow")
        if k in ("MemberExpr", "ArraySubscriptExpr") or (k == "UnaryOperator" and n.get("opcode") == "*"):
            return self.synth_ref(self.read(self.lval(n, st), st), n)
        if k == "DeclRefExpr":
            nm = n["referencedDecl"]["name"]
            if n["referencedDecl"].get("kind") == "EnumConstantDecl":
                if nm not in self.enums:
                    raise LeafError("value of enum constant %s is not known" % nm)
                return {"kind": "IntegerLiteral", "value": str(self.enums[nm]), "type": {"qualType": "int"}}
            if nm.startswith("@"):
                return n
            if nm in st.env:
                return self.synth_ref(self.read(("local", nm), st), n)
            raise LeafError("variable %s is not an integer the slicer follows" % nm)
        if k == "UnaryExprOrTypeTraitExpr":
            v = self.sizeof(n)
            if not isinstance(v, int):
                raise LeafError("%s used as a number" % v)
            return {"kind": "IntegerLiteral", "value": str(v), "type": {"qualType": "unsigned long"}}
        if k in ("ImplicitCastExpr", "CStyleCastExpr"):
            ck = n.get("castKind")
            if ck in ("BitCast", "NullToPointer") or (ck == "NoOp" and is_ptr_type(qt(n))):
                return self.rx(n["inner"][-1], st)
            if ck == "PointerToBoolean":
                return {"kind": "ImplicitCastExpr", "castKind": "IntegralToBoolean", "type": {"qualType": "bool"},
                        "inner": [self.rx(n["inner"][-1], st)]}
            if ck == "ToVoid":
                return self.rx(n["inner"][-1], st)
        if k == "UnaryOperator" and n.get("opcode") == "&":
            raise LeafError("address used as a value")
        out = dict(n)
        if "inner" in n:
            out["inner"] = [self.rx(c, st) for c in n["inner"]]
        return out

    def _env(self, st):
        return collections.ChainMap(self.synth, st.env)

    def z(self, n, st):
        return self.tr.z(self.rx(n, st), self._env(st))

    def b(self, n, st):
        return self.tr.b(self.rx(n, st), self._env(st))

    # ---- calls inside expressions: evaluated first, in C's order ---------------------------
    def first_call(self, n, guarded=False):
        """innermost-leftmost call -> (node, guarded by a short-circuit / conditional operator)"""
        k = n.get("kind")
        inner = [c for c in n.get("inner", []) if c]
        if k == "BinaryOperator" and n.get("opcode") in ("&&", "||"):
            r = self.first_call(inner[0], guarded)
            return r if r else self.first_call(inner[1], True)
        if k == "ConditionalOperator":
            r = self.first_call(inner[0], guarded)
            if r:
                return r
            for c in inner[1:]:
                r = self.first_call(c, True)
                if r:
                    return r
            return None
        for c in (inner[1:] + inner[:1] if k == "CallExpr" else inner):
            r = self.first_call(c, guarded)
            if r:
                return r
        if k == "CallExpr":
            return (n, guarded)
        return None

    def replace(self, root, old, new):
        if root is old:
            return new
        if "inner" in root:
            root = dict(root)
            root["inner"] = [self.replace(c, old, new) if c else c for c in root["inner"]]
        return root

    def hoist(self, n, st, k):
        """k(expression without calls, st)"""
        r = self.first_call(n)
        if r is None:
            return k(n, st)
        call, guarded = r
        if guarded:
            raise LeafError("call under && / || / ?: outside a condition")

        def after(val, s):
            if val is None:
                raise LeafError("value of a call without a modelled result is used")
            return self.bind(s, "c", val, lambda nm: self.hoist(self.replace(n, call, self.synth_ref(nm, call)), s, k))
        return self.call(call, st, after)

    def cond(self, n, st, kt, kf):
        n0 = n
        while n0.get("kind") == "ParenExpr":
            n0 = n0["inner"][0]
        if has_call(n0):
            k = n0.get("kind")
            if k == "BinaryOperator" and n0.get("opcode") == "&&":
                return self.cond(n0["inner"][0], st, lambda s: self.cond(n0["inner"][1], s, kt, kf), kf)
            if k == "BinaryOperator" and n0.get("opcode") == "||":
                return self.cond(n0["inner"][0], st, kt, lambda s: self.cond(n0["inner"][1], s, kt, kf))
            if k == "UnaryOperator" and n0.get("opcode") == "!":
                return self.cond(n0["inner"][0], st, kf, kt)
            if k == "ImplicitCastExpr" and n0.get("castKind") in ("IntegralToBoolean", "PointerToBoolean", "IntegralCast") and \
                    strip_obj(n0["inner"][0]).get("kind") in ("BinaryOperator", "UnaryOperator") and \
                    strip_obj(n0["inner"][0]).get("opcode") in ("&&", "||", "!"):
                return self.cond(n0["inner"][0], st, kt, kf)
            return self.hoist(n0, st, lambda n2, s: self.cond(n2, s, kt, kf))
        c = self.b(n0, st)
        return self.mk_if(c, kt(st.copy()), kf(st.copy()))

    # ---- names held by char buffers ---------------------------------------------------------
    @staticmethod
    def fmt_shape(fmt):
        """'%s' + '.' + conversions -> (decimal code of the shape, number of integer arguments)
        code digits: 1 = %d, 2 = %02d, 9 = the letter T, 5 = the literal digit 1 ('%s.1')"""
        if not fmt.startswith("%s."):
            raise LeafError("name format %r does not start with the handler's path and a dot" % fmt)
        rest, code, nargs = fmt[3:], "", 0
        while rest:
            if rest.startswith("%02d"):
                code, nargs, rest = code + "2", nargs + 1, rest[4:]
            elif rest.startswith("%d"):
                code, nargs, rest = code + "1", nargs + 1, rest[2:]
            elif rest[0] == "T":
                code, rest = code + "9", rest[1:]
            elif rest == "1" and not code:
                code, rest = "5", ""
            else:
                raise LeafError("name format %r is outside the shapes the model knows" % fmt)
        if not code:
            raise LeafError("name format %r has no number" % fmt)
        return int(code), nargs

    def name_of(self, n, st):
        """argument of fopen / rename / remove / exists -> ('live',) | ('name', shape, [texts])"""
        o = self.obj(n, st)
        if o is None:
            raise LeafError("file name argument is not a buffer of the function or handler->filepath")
        if o[0] == "path":
            return ("live",)
        if o[0] == "buf":
            c = st.bufs.get(o[1])
            if c is None:
                return ("name", -2, [])          # nothing was printed into the buffer on this path
            if c[0] != "name":
                raise LeafError("buffer %s does not hold a file name" % o[1])
            return c
        raise LeafError("file name argument is a " + o[0])

    def put_name(self, st, prefix, nm, width):
        """record a name as outputs <prefix>_shape, <prefix>_a1 .. <prefix>_a<width> (live: shape 0)"""
        if prefix + "_shape" in st.out and st.out[prefix + "_shape"] != "(-1)":
            raise LeafError("second %s on one path" % prefix)
        if nm[0] == "live":
            st.out[prefix + "_shape"] = "0"
            args = []
        else:
            st.out[prefix + "_shape"] = str(nm[1])
            args = nm[2]
        if len(args) > width:
            raise LeafError("name with %d numbers" % len(args))
        for i in range(width):
            st.out["%s_a%d" % (prefix, i + 1)] = args[i] if i < len(args) else "0"

    @staticmethod
    def string_lit(n):
        n = strip_obj(n)
        if n.get("kind") != "StringLiteral":
            raise LeafError("format / mode argument is not a string literal")
        v = n["value"]
        return bytes(v[1:-1], "utf-8").decode("unicode_escape")

    # ---- calls ----------------------------------------------------------------------------------
    def callee(self, call):
        c = strip_obj(call["inner"][0])
        if c.get("kind") == "DeclRefExpr":
            return c["referencedDecl"]["name"]
        if c.get("kind") == "MemberExpr":
            return "@" + c["name"]
        raise LeafError("indirect call")

    def call(self, n, st, k):
        """k(value text | None, st)"""
        name = self.callee(n)
        args = n["inner"][1:]
        for a in args:
            if has_call(a):
                inner_call, guarded = self.first_call(a)
                if guarded:
                    raise LeafError("call under && / || in an argument")

                def after(v, s, inner_call=inner_call):
                    if v is None:
                        raise LeafError("void call used as an argument")
                    return self.bind(s, "c", v, lambda nm: self.call(
                        self.replace(n, inner_call, self.synth_ref(nm, inner_call)), s, k))
                return self.call(inner_call, st, after)
        W = self.spec.get("namewidth", 6)
        if name in self.spec.get("opaque", {}):
            o = self.spec["opaque"][name]
            for a in args:
                ob = self.obj(a, st)
                if ob is None or ob[0] not in ("H", "M"):
                    raise LeafError("argument of %s is not the handler / the message" % name)
            cn = "n_" + o["tag"]
            st.out[cn] = "(%s + 1)" % st.out.get(cn, "0")
            for mark, val in o.get("stamp", []):
                st.out[mark] = st.out.get(val, "0")
            for f in o.get("havoc", []):
                st.fld[f] = self.inp("h_" + f)
            return k(self.inp("env_%s_ret" % o["tag"]), st)
        if name == "time":
            a = strip_obj(args[0])
            while a.get("kind") in ("CStyleCastExpr", "ImplicitCastExpr", "ParenExpr"):
                a = a["inner"][-1]
            if a.get("kind") != "IntegerLiteral" or a["value"] != "0":
                raise LeafError("time() with a non-NULL argument")
            return k(self.inp("env_time"), st)
        if name in ("localtime_r", "gmtime_r"):
            src, dst = self.obj(args[0], st), self.obj(args[1], st)
            if not src or src[0] != "intptr" or not dst or dst[0] != "tm":
                raise LeafError(name + ": arguments are not (&integer, &struct tm)")
            s = self.read(src[1], st)
            orc = self.inp("lt" if name == "localtime_r" else "gt")
            for i, f in enumerate(TM_FIELDS):
                self.tm_set(dst[1], f, "(%s %s %d)" % (orc, s, i), st)
            return k(None, st)
        if name == "memcpy":
            dst, src = self.obj(args[0], st), self.obj(args[1], st)
            sz = strip_obj(args[2])
            if not (dst and src and dst[0] == "tm" and src[0] == "tm" and sz.get("kind") == "UnaryExprOrTypeTraitExpr"
                    and self.sizeof(sz) == "sizeof(struct tm)"):
                raise LeafError("memcpy that is not a copy of one whole struct tm")
            self.tm_copy(dst[1], src[1], st)
            return k(None, st)
        if name in NOEFFECT:
            return k(None, st)
        if name == "muggle_log_handler_get_fmt":
            return k(self.inp("env_fmt"), st)
        if name == "@fmt_func":
            b = self.obj(args[1], st)
            if not b or b[0] != "buf":
                raise LeafError("formatter does not print into a local buffer")
            st.bufs[b[1]] = ("msg",)
            if "fmt_cap" in st.out and st.out["fmt_cap"] != "(-1)":
                raise LeafError("formatter called twice")
            st.out["fmt_cap"] = self.z(args[2], st)
            return k(self.inp("env_fmt_ret"), st)
        if name == "fwrite":
            b = self.obj(args[0], st)
            if not b or b[0] != "buf" or st.bufs.get(b[1]) != ("msg",):
                raise LeafError("fwrite of something that is not the formatted message")
            one = args[1]
            while one.get("kind") in ("ImplicitCastExpr", "CStyleCastExpr", "ParenExpr"):
                one = one["inner"][-1]
            if one.get("kind") != "IntegerLiteral" or one.get("value") != "1":
                raise LeafError("fwrite with an element size other than 1")
            if st.out.get("fw_n", "(-1)") != "(-1)":
                raise LeafError("two fwrite calls on one path")
            nbytes = self.z(args[2], st)
            st.out["fw_n"] = nbytes
            for mark, val in self.spec.get("fw_stamp", []):
                st.out[mark] = st.out.get(val, "0")
            return k(nbytes, st)
        if name == "snprintf":
            b = self.obj(args[0], st)
            if not b or b[0] != "buf":
                raise LeafError("snprintf into something that is not a local buffer")
            shape, nargs = self.fmt_shape(self.string_lit(args[2]))
            p = self.obj(args[3], st) if len(args) > 3 else None
            if not p or p[0] != "path":
                raise LeafError("first printed argument is not handler->filepath")
            ints = args[4:]
            if len(ints) != nargs:
                raise LeafError("snprintf format and arguments do not match")
            st.bufs[b[1]] = ("name", shape, [self.z(a, st) for a in ints])
            return k(self.inp("env_snp"), st)
        if name in ("muggle_os_fopen", "fopen"):
            if self.string_lit(args[1]) != "ab+":
                raise LeafError("file opened with mode %r" % self.string_lit(args[1]))
            self.put_name(st, "open", self.name_of(args[0], st), W)
            return k(self.inp("env_fopen"), st)
        if name == "muggle_path_exists":
            self.put_name(st, "exists", self.name_of(args[0], st), W)
            return k(self.inp("env_exists"), st)
        if name == "muggle_os_remove":
            self.put_name(st, "remove", self.name_of(args[0], st), W)
            return k(None, st)
        if name == "muggle_os_rename":
            self.put_name(st, "rsrc", self.name_of(args[0], st), W)
            self.put_name(st, "rdst", self.name_of(args[1], st), W)
            return k(None, st)
        f = self.fn(name)
        if f is None:
            raise LeafError("call of %s: not modelled and not defined in this file" % name)
        return self.inline(f, args, st, k)

    def inline(self, f, args, st, k):
        parms = [c for c in f.get("inner", []) if c.get("kind") == "ParmVarDecl"]
        if len(parms) != len(args):
            raise LeafError("argument count mismatch calling " + f["name"])
        if st.frames > 10:
            raise LeafError("call nesting too deep")
        vals = []
        for p, a in zip(parms, args):
            o = self.obj(a, st)
            if o is not None:
                vals.append(("sym", o))
            elif L.ctype(p) is not None or is_ptr_type(qt(p)):
                vals.append(("int", self.z(a, st)))
            else:
                raise LeafError("unsupported parameter type %s of %s" % (qt(p), f["name"]))
        rt = f["type"]["qualType"].split("(")[0].strip()
        saved = (dict(st.env), dict(st.sym), list(st.brk), list(st.cont), st.frames)

        def done(val, s):
            s.env, s.sym, s.brk, s.cont, s.frames = dict(saved[0]), dict(saved[1]), list(saved[2]), list(saved[3]), saved[4]
            return k(val, s)

        def enter(i, s):
            if i == len(parms):
                return self.ex([self.body_of(f)], s, lambda e, s2: self.ret(e, rt, s2, done), lambda s2: done(None, s2))
            p, (kind, v) = parms[i], vals[i]
            if kind == "sym":
                s.sym[p["name"]] = v
                return enter(i + 1, s)

            def bound(nm):
                s.env[p["name"]] = nm
                return enter(i + 1, s)
            return self.bind(s, p["name"], v, bound)
        st.env, st.sym, st.brk, st.cont, st.frames = {}, {}, [], [], st.frames + 1
        return enter(0, st)

    def ret(self, e, rt, st, k):
        """evaluate a return expression of a function returning rt; k(value text | None, st)"""
        if e is None:
            return k(None, st)
        if is_ptr_type(rt) and self.obj(e, st) is not None:
            raise LeafError("function returning an object pointer")
        return self.hoist(e, st, lambda e2, s: k(("(b2z %s)" % self.b(e2, s)) if rt in ("bool", "_Bool") else self.z(e2, s), s))

    # ---- statements (continuation-passing): kret(expr | None, st), knext(st) -> text -------------
    def store(self, lv, text, st, k, like=None):
        """k(st) after lv := text"""
        if lv[0] == "local":
            def bound(nm):
                st.env[lv[1]] = nm
                return k(st)
            return self.bind(st, lv[1], text, bound)
        if lv[0] == "fld":
            def boundf(nm):
                st.fld[lv[1]] = nm
                return k(st)
            return self.bind(st, "f_" + lv[1], text, boundf)
        if lv[0] == "tmf":
            def boundt(nm):
                self.tm_set(lv[1], lv[2], nm, st)
                return k(st)
            return self.bind(st, lv[2], text, boundt)
        if lv[0] == "bufelem":
            if st.bufs.get(lv[1]) != ("msg",):
                raise LeafError("store into a buffer that does not hold the formatted message")
            if st.out.get("nl_at", "(-1)") != "(-1)":
                raise LeafError("two stores into the message buffer on one path")
            st.out["nl_at"] = self.z(lv[2], st)
            st.out["nl_val"] = text
            return k(st)
        raise LeafError("cannot assign to " + lv[0])

    def declare(self, d, st, k):
        if d.get("kind") != "VarDecl":
            raise LeafError("unsupported declaration")
        nm, t = d["name"], qt(d)
        init = [c for c in d.get("inner", []) if c and c.get("kind") not in ("FullComment",)]
        init = init[-1] if init else None
        if is_tm_type(t) and not is_ptr_type(t):
            st.sym[nm] = ("tm", nm + "#%d" % st.frames)
            st.tms[st.sym[nm][1]] = {}
            if init is not None:
                o = self.obj(init, st)
                if not o or o[0] != "tm":
                    raise LeafError("struct tm initialised from something else")
                self.tm_copy(st.sym[nm][1], o[1], st)
            return k(st)
        if char_array(t) is not None:
            key = nm + "#%d" % st.frames
            st.sym[nm] = ("buf", key)
            st.bufs[key] = None
            return k(st)
        if init is not None and (is_ptr_type(t) or L.ctype(d) is None):
            if not has_call(init):
                o = self.obj(init, st)
                if o is not None:
                    st.sym[nm] = o
                    return k(st)
        if L.ctype(d) is None and not is_ptr_type(t):
            raise LeafError("unsupported local of type " + t)
        if init is None:
            st.env[nm] = Unknown("uninitialised") if is_ptr_type(t) else "0"
            if not is_ptr_type(t):
                return self.store(("local", nm), "0", st, k)
            return k(st)

        def go(e, s):
            s.env.setdefault(nm, Unknown("being declared"))
            return self.store(("local", nm), self.z(e, s), s, k)
        return self.hoist(init, st, go)

    def ex(self, stmts, st, kret, knext):
        if not stmts:
            return knext(st)
        s, R = stmts[0], list(stmts[1:])
        k = s.get("kind")
        rest = lambda st2: self.ex(R, st2, kret, knext)
        if k == "CompoundStmt":
            return self.ex([c for c in s.get("inner", []) if c] + R, st, kret, knext)
        if k == "NullStmt":
            return rest(st)
        if k == "DeclStmt":
            ds = list(s.get("inner", []))

            def nextd(i, s2):
                if i == len(ds):
                    return rest(s2)
                return self.declare(ds[i], s2, lambda s3: nextd(i + 1, s3))
            return nextd(0, st)
        if k == "ReturnStmt":
            inner = [c for c in s.get("inner", []) if c]
            return kret(inner[0] if inner else None, st)
        if k == "IfStmt":
            inner = s["inner"]
            th = [inner[1]]
            el = [inner[2]] if len(inner) > 2 and inner[2] else []
            return self.cond(inner[0], st, lambda s2: self.ex(th + R, s2, kret, knext),
                             lambda s2: self.ex(el + R, s2, kret, knext))
        if k == "SwitchStmt":
            return self.switch(s, R, st, kret, knext)
        if k == "BreakStmt":
            if not st.brk:
                raise LeafError("break outside a switch / loop")
            return st.brk[-1](st)
        if k == "ContinueStmt":
            if not st.cont:
                raise LeafError("continue outside a loop")
            return st.cont[-1](st)
        if k in ("ForStmt", "WhileStmt", "DoStmt"):
            return self.loop(s, R, st, kret, knext)
        if k in ("ImplicitCastExpr", "CStyleCastExpr", "ParenExpr"):
            return self.ex([s["inner"][-1]] + R, st, kret, knext)
        if k == "CallExpr":
            return self.call(s, st, lambda v, s2: rest(s2))
        if k in ("BinaryOperator", "CompoundAssignOperator") and s.get("opcode", "").endswith("=") and \
                s.get("opcode") not in ("==", "!=", "<=", ">="):
            return self.assign(s, st, rest)
        if k == "UnaryOperator" and s.get("opcode") in ("++", "--"):
            lhs = s["inner"][0]
            one = {"kind": "IntegerLiteral", "value": "1", "type": s["type"]}
            fake = {"kind": "BinaryOperator", "opcode": "+" if s["opcode"] == "++" else "-", "type": s["type"],
                    "inner": [{"kind": "ImplicitCastExpr", "castKind": "LValueToRValue", "type": s["type"], "inner": [lhs]}, one]}
            return self.store(self.lval(lhs, st), self.z(fake, st), st, rest)
        raise LeafError("unsupported statement kind " + str(k))

    def assign(self, s, st, rest):
        lhs, rhs = s["inner"]
        # struct tm assignment
        lo = self.obj(lhs, st)
        if lo is not None and lo[0] == "tm" and L.ctype(s) is None and not is_ptr_type(qt(s)):
            ro = self.obj(rhs, st)
            if s["opcode"] != "=" or not ro or ro[0] != "tm":
                raise LeafError("unsupported struct assignment")
            self.tm_copy(lo[1], ro[1], st)
            return rest(st)
        l0 = strip_obj(lhs) if lhs.get("kind") == "ParenExpr" else lhs
        # pointer local re-pointed at an object
        if l0.get("kind") == "DeclRefExpr" and is_ptr_type(qt(l0)) and not has_call(rhs):
            ro = self.obj(rhs, st)
            if ro is not None:
                if s["opcode"] != "=":
                    raise LeafError("arithmetic on an object pointer")
                st.sym[l0["referencedDecl"]["name"]] = ro
                st.env.pop(l0["referencedDecl"]["name"], None)
                return rest(st)

        def go(e, s2):
            if l0.get("kind") == "DeclRefExpr" and l0["referencedDecl"]["name"] not in s2.env:
                s2.env[l0["referencedDecl"]["name"]] = Unknown("unset")
                s2.sym.pop(l0["referencedDecl"]["name"], None)
            lv = self.lval(l0, s2)
            if s["opcode"] == "=":
                val = self.z(e, s2)
            else:
                fake = {"kind": "BinaryOperator", "opcode": s["opcode"][:-1], "type": s.get("computeResultType", s["type"]),
                        "inner": [{"kind": "ImplicitCastExpr", "castKind": "LValueToRValue", "type": lhs.get("type", {}),
                                   "inner": [lhs]}, e]}
                lt_ = L.ctype(lhs)
                ct = L.ctype({"type": fake["type"]})
                if lt_ and ct and lt_ != ct:
                    fake["inner"][0] = {"kind": "ImplicitCastExpr", "castKind": "IntegralCast", "type": fake["type"],
                                        "inner": [fake["inner"][0]]}
                val = self.z(fake, s2)
                ty = L.ctype(s)
                if ty and not ty[0]:
                    val = "(wrapu %d %s)" % (ty[1], val)
            return self.store(lv, val, s2, rest)
        return self.hoist(rhs, st, go)

    def switch(self, s, R, st, kret, knext):
        inner = [c for c in s["inner"] if c]
        scrut, body = inner[-2], inner[-1]
        items = list(body.get("inner", [])) if body.get("kind") == "CompoundStmt" else [body]
        # flatten labels: segments = [(labels, stmt)], labels: list of case value nodes / 'default'
        segs = []
        for it in items:
            labels = []
            while it.get("kind") in ("CaseStmt", "DefaultStmt"):
                sub = [c for c in it["inner"] if c]
                if it["kind"] == "CaseStmt":
                    if len(sub) != 2:
                        raise LeafError("case range")
                    labels.append(sub[0])
                else:
                    labels.append("default")
                it = sub[-1]
            segs.append((labels, it))
        after = lambda s2: self.ex(R, s2, kret, knext)

        def run_from(i, s2):
            s2.brk = s2.brk + [lambda s3: (s3.brk.pop(), after(s3))[1]]
            return self.ex([x for _, x in segs[i:]], s2, kret, lambda s3: (s3.brk.pop(), after(s3))[1])

        def go(e, s2):
            def chain(x):
                cases = [(lab, i) for i, (labs, _) in enumerate(segs) for lab in labs if lab != "default"]
                dflt = [i for i, (labs, _) in enumerate(segs) if "default" in labs]

                def build(j, s3):
                    if j == len(cases):
                        return run_from(dflt[0], s3) if dflt else after(s3)
                    lab, i = cases[j]
                    c = "(%s =? %s)" % (x, self.z(lab, s3))
                    return self.mk_if(c, run_from(i, s3.copy()), build(j + 1, s3.copy()))
                return build(0, s2)
            return self.bind(s2, "sw", self.z(e, s2), chain)
        return self.hoist(scrut, st, go)

    # ---- results ------------------------------------------------------------------------------------
    def emit(self, st, result, ret=None, extra=None):
        parts = []
        for r in result:
            if r == "ret":
                parts.append(ret if ret is not None else "0")
            elif r.startswith("f:"):
                v = st.fld[r[2:]]
                if isinstance(v, Unknown):
                    raise LeafError("field %s is not known at the end of the path" % r[2:])
                parts.append(v)
            elif r.startswith("o:"):
                parts.append(st.out.get(r[2:], self.spec["outs"][r[2:]]))
            elif r.startswith("x:"):
                parts.append((extra or {})[r[2:]])
            else:
                raise LeafError("bad result item " + r)
        return "(" + ", ".join(parts) + ")"

    def start_state(self, f):
        st = St()
        for fld, inp in self.spec["fields"].items():
            st.fld[fld] = inp
        for o, d in self.spec["outs"].items():
            st.out[o] = d
        for p in [c for c in f.get("inner", []) if c.get("kind") == "ParmVarDecl"]:
            t = qt(p)
            if "handler" in t and is_ptr_type(t):
                st.sym[p["name"]] = ("H",)
            elif "muggle_log_msg_t" in t and is_ptr_type(t):
                st.sym[p["name"]] = ("M", [])
            elif L.ctype(p) is not None:
                st.env[p["name"]] = self.inp("p_" + p["name"])
            else:
                raise LeafError("unsupported parameter type " + t)
        return st

    def check(self, text):
        m = re.search(r"\bu_(\w+)", text)
        if m:
            raise LeafError("the result depends on the untracked handler field " + m.group(1))
        return text

    def definition(self, gname, params, fparams, body):
        args = ["(%s : Z)" % p for p in params] + ["(%s : Z -> Z -> Z)" % p for p in fparams]
        return "Definition %s %s :=\n  %s.\n" % (gname, " ".join(args), self.check(body))

    def rtype(self, f):
        return f["type"]["qualType"].split("(")[0].strip()

    def slice(self):
        """a loop-free target -> one definition"""
        f = self.fn(self.spec["fn"])
        if f is None:
            raise LeafError("function %s not found in %s" % (self.spec["fn"], self.src))
        st = self.start_state(f)
        rt = self.rtype(f)
        res = self.spec["result"]
        body = self.ex([self.body_of(f)], st,
                       lambda e, s: self.ret(e, rt, s, lambda v, s2: self.emit(s2, res, v)),
                       lambda s: self.emit(s, res, None))
        return self.definition(self.spec["gname"], self.spec["params"], self.spec.get("fparams", []), body)

    # ---- one counting loop at the top level of the target: head / step / tail ---------------------------
    @staticmethod
    def assigned_names(n, acc):
        k = n.get("kind")
        tgt = None
        if k in ("BinaryOperator", "CompoundAssignOperator") and n.get("opcode", "").endswith("=") and \
                n.get("opcode") not in ("==", "!=", "<=", ">="):
            tgt = strip_obj(n["inner"][0])
        if k == "UnaryOperator" and n.get("opcode") in ("++", "--"):
            tgt = strip_obj(n["inner"][0])
        if tgt is not None and tgt.get("kind") == "DeclRefExpr":
            acc.add(tgt["referencedDecl"]["name"])
        for c in n.get("inner", []):
            if c:
                Slicer.assigned_names(c, acc)

    @staticmethod
    def declared_names(n, acc):
        if n.get("kind") == "VarDecl":
            acc.add(n["name"])
        for c in n.get("inner", []):
            if c:
                Slicer.declared_names(c, acc)

    def loop(self, s, R, st, kret, knext):
        h = getattr(self, "loop_hook", None)
        if h is None:
            raise LeafError("loop in a target that is sliced as straight-line code")
        return h(s, R, st, kret, knext)

    def slice_loop(self):
        """-> three definitions <g>_head, <g>_step, <g>_tail"""
        sp = self.spec
        f = self.fn(sp["fn"])
        if f is None:
            raise LeafError("function %s not found in %s" % (sp["fn"], self.src))
        rt = self.rtype(f)
        top = [c for c in self.body_of(f).get("inner", []) if c]
        idx = [i for i, c in enumerate(top) if c.get("kind") in ("ForStmt", "WhileStmt", "DoStmt")]
        if len(idx) != 1:
            raise LeafError("%d loops at the top level of %s (exactly one is summarised)" % (len(idx), sp["fn"]))
        loop = top[idx[0]]
        if loop["kind"] == "DoStmt":
            raise LeafError("do-while loop")
        if loop["kind"] == "ForStmt":
            init, _cv, cond, inc, body = [(c if c else None) for c in loop["inner"]]
        else:
            init, inc = None, None
            cond, body = [c for c in loop["inner"] if c][-2:]
        pre = top[:idx[0]] + ([init] if init is not None else [])
        post = top[idx[0] + 1:]
        inside = set()
        for part in (cond, inc, body):
            if part is not None:
                self.assigned_names(part, inside)
        local_to_body = set()
        self.declared_names(body, local_to_body)
        candidates = sorted(inside - local_to_body)
        if not candidates:
            raise LeafError("the loop changes no integer local")
        captured = []

        # pass 1: reach the loop once to learn the declarations in scope
        def probe(s_, R_, st_, kret_, knext_):
            if not captured:
                captured.append(st_.copy())
            return "tt"
        self.loop_hook = probe
        self.spec = dict(sp, params=sp["head_params"], gname=sp["gname"] + "_head")
        st = self.start_state(f)
        self.ex(pre + [loop], st, lambda e, s: "tt", lambda s: "tt")
        if not captured:
            raise LeafError("the loop is not reached")

        def fresh_from_capture():
            s0 = captured[0].copy()
            for nm in list(s0.env):
                s0.env[nm] = Unknown("value computed before the loop")
            for key in list(s0.bufs):
                s0.bufs[key] = None
            for fld, inp in sp["fields"].items():
                s0.fld[fld] = inp
            s0.out = dict(sp["outs"])
            s0.cnt, s0.brk, s0.cont = 0, [], []
            return s0
        self.loop_hook = None

        # step: the loop-carried integer is the one local changed by the loop whose value at the top of an
        # iteration is read (every other one is written before it is read)
        self.spec = dict(sp, params=sp["step_params"], gname=sp["gname"] + "_step")

        def step_for(v):
            st = fresh_from_capture()
            st.env[v] = self.inp("i")
            fin = lambda c: (lambda s2: self.emit(s2, sp["step_result"], None, {"cond": c, "v": self.read(("local", v), s2)}))

            def noret(e, s2):
                raise LeafError("return inside the loop")

            def nobrk(s3):
                raise LeafError("break inside the loop")

            def run_body(s2):
                after_body = lambda s3: self.ex([inc] if inc is not None else [], s3, noret, fin("1"))
                s2.cont = [after_body]
                s2.brk = [nobrk]
                return self.ex([body], s2, noret, after_body)
            return self.cond(cond, st, run_body, fin("0")) if cond is not None else run_body(st)
        good, errs = [], []
        for c in candidates:
            if c not in captured[0].env:
                continue
            try:
                good.append((c, step_for(c)))
            except LeafError as e:
                errs.append("%s: %s" % (c, e))
        if len(good) != 1:
            raise LeafError("loop-carried integer not determined (%s; %s)" % ([g[0] for g in good], "; ".join(errs)))
        v, step = good[0]
        step_def = self.definition(self.spec["gname"], sp["step_params"], [], step)

        # head
        def at_loop(s_, R_, st_, kret_, knext_):
            return self.emit(st_, sp["head_result"], None, {"early": "0", "v": self.read(("local", v), st_)})
        self.loop_hook = at_loop
        self.spec = dict(sp, params=sp["head_params"], gname=sp["gname"] + "_head")
        st = self.start_state(f)
        early = lambda val, s2: self.emit(s2, sp["head_result"], val, {"early": "1", "v": "0"})
        head = self.ex(pre + [loop], st, lambda e, s: self.ret(e, rt, s, early), lambda s: early(None, s))
        head_def = self.definition(self.spec["gname"], sp["head_params"], [], head)
        self.loop_hook = None

        # tail
        self.spec = dict(sp, params=sp["tail_params"], gname=sp["gname"] + "_tail")
        st = fresh_from_capture()
        tail = self.ex(post, st, lambda e, s: self.ret(e, rt, s, lambda val, s2: self.emit(s2, sp["tail_result"], val)),
                       lambda s: self.emit(s, sp["tail_result"], None))
        tail_def = self.definition(self.spec["gname"], sp["tail_params"], [], tail)
        self.spec = sp
        return head_def + "\n" + step_def + "\n" + tail_def


# ---------------------------------------------------------------------------------------------------------
# targets
TROT = "muggle/c/log/log_file_time_rot_handler.c"
ROT = "muggle/c/log/log_file_rotate_handler.c"
TM_IN = {"last_tm__" + f: "f_" + f for f in TM_FIELDS}
NAME6 = ["o:open_shape"] + ["o:open_a%d" % i for i in range(1, 7)]
NAME6_DEF = dict([("open_shape", "(-1)")] + [("open_a%d" % i, "0") for i in range(1, 7)])


def _name1(prefix):
    return {prefix + "_shape": "(-1)", prefix + "_a1": "0"}


TARGETS = {
    # detect(): (need_rot, last_sec', last_tm')
    "trot_detect": {
        "src": TROT, "fn": "muggle_log_file_time_rot_handler_detect", "gname": "gen_trot_detect",
        "fields": dict({"last_sec": "f_last_sec", "rotate_mod": "f_rotate_mod", "rotate_unit": "f_rotate_unit",
                        "use_local_time": "f_use_local_time"}, **TM_IN),
        "params": ["f_last_sec"] + ["f_" + f for f in TM_FIELDS] + ["f_rotate_mod", "f_rotate_unit", "f_use_local_time",
                                                                   "m_ts_sec", "env_time"],
        "fparams": ["lt", "gt"],
        "outs": {},
        "result": ["ret", "f:last_sec"] + ["f:last_tm__" + f for f in TM_FIELDS],
    },
    # rotate() of the time handler: (ret, fp', shape of the name, its numbers)
    "trot_rotate": {
        "src": TROT, "fn": "muggle_log_file_time_rot_handler_rotate", "gname": "gen_trot_rotate",
        "fields": dict({"fp": "f_fp", "rotate_unit": "f_rotate_unit"}, **TM_IN),
        "params": ["f_fp", "f_rotate_unit"] + ["f_" + f for f in TM_FIELDS] + ["env_snp", "env_fopen"],
        "outs": NAME6_DEF, "namewidth": 6,
        "result": ["ret", "f:fp"] + NAME6,
    },
    # write() of the time handler: detect / rotate are not entered; what matters is the order
    "trot_write": {
        "src": TROT, "fn": "muggle_log_file_time_rot_handler_write", "gname": "gen_trot_write",
        "fields": {"fp": "f_fp"},
        "params": ["f_fp", "env_fmt", "env_fmt_ret", "env_detect_ret", "env_rotate_ret", "h_fp"],
        "outs": {"fmt_cap": "(-1)", "nl_at": "(-1)", "nl_val": "0", "fw_n": "(-1)", "n_detect": "0", "n_rotate": "0",
                 "fw_after_detect": "0", "fw_after_rotate": "0", "rot_after_detect": "0"},
        "opaque": {"muggle_log_file_time_rot_handler_detect": {"tag": "detect", "havoc": []},
                   "muggle_log_file_time_rot_handler_rotate": {"tag": "rotate", "havoc": ["fp"],
                                                               "stamp": [("rot_after_detect", "n_detect")]}},
        "fw_stamp": [("fw_after_detect", "n_detect"), ("fw_after_rotate", "n_rotate")],
        "result": ["ret", "f:fp", "o:fmt_cap", "o:nl_at", "o:nl_val", "o:fw_n", "o:n_detect", "o:n_rotate",
                   "o:rot_after_detect", "o:fw_after_detect", "o:fw_after_rotate"],
    },
    # write() of the size handler: truncation, offset bookkeeping, threshold test
    "rot_write": {
        "src": ROT, "fn": "muggle_log_file_rotate_handler_write", "gname": "gen_rot_write",
        "fields": {"fp": "f_fp", "max_bytes": "f_max_bytes", "offset": "f_offset"},
        "params": ["f_fp", "f_max_bytes", "f_offset", "env_fmt", "env_fmt_ret", "env_rotate_ret", "h_fp", "h_offset"],
        "outs": {"fmt_cap": "(-1)", "nl_at": "(-1)", "nl_val": "0", "fw_n": "(-1)", "n_rotate": "0"},
        "opaque": {"muggle_log_file_rotate_handler_rotate": {"tag": "rotate", "havoc": ["fp", "offset"],
                                                             "stamp": []}},
        "result": ["ret", "f:fp", "f:offset", "o:fmt_cap", "o:nl_at", "o:nl_val", "o:fw_n", "o:n_rotate"],
    },
    # rotate() of the size handler: remove, rename chain (one loop), rename live, reopen
    "rot_rotate": {
        "src": ROT, "fn": "muggle_log_file_rotate_handler_rotate", "gname": "gen_rot_rotate", "loop": True,
        "fields": {"fp": "f_fp", "backup_count": "f_backup_count", "offset": "f_offset"},
        "params": [], "namewidth": 1,
        "outs": dict(list(_name1("exists").items()) + list(_name1("remove").items()) + list(_name1("rsrc").items()) +
                     list(_name1("rdst").items()) + list(_name1("open").items())),
        "head_params": ["f_fp", "f_backup_count", "f_offset", "env_snp", "env_exists"],
        "head_result": ["x:early", "ret", "f:fp", "o:exists_shape", "o:exists_a1", "o:remove_shape", "o:remove_a1", "x:v"],
        "step_params": ["i", "f_fp", "f_backup_count", "f_offset", "env_snp"],
        "step_result": ["x:cond", "o:rsrc_shape", "o:rsrc_a1", "o:rdst_shape", "o:rdst_a1", "x:v"],
        "tail_params": ["f_fp", "f_backup_count", "f_offset", "env_snp", "env_fopen"],
        "tail_result": ["ret", "f:fp", "f:offset", "o:rsrc_shape", "o:rsrc_a1", "o:rdst_shape", "o:rdst_a1",
                        "o:open_shape", "o:open_a1"],
    },
}


def translate(repo, target, cflags, enums=None):
    """-> Gallina text of the definition(s) of one target"""
    import os
    spec = TARGETS[target]
    s = Slicer(os.path.join(repo, spec["src"]), cflags, spec, enums)
    return s.slice_loop() if spec.get("loop") else s.slice()
