"""C09 — slicer for the decision content of avl_tree.c, hash_table.c and trie.c (second tie, DESIGN.md 4.4).

The functions of these files are not leaves: they walk pointers, loop, call through function pointers and
through file-local helpers.  This module is a small symbolic executor over clang's JSON AST that turns ONE
SEGMENT of a public function (from the entry or from the head of a loop to the next loop head / return)
into a loop-free decision tree over named inputs, without looking at the shape of the text:

  * objects are symbolic names ("N", "N.parent", "N.left.right", "T.nodes[<idx>]", "A1" for the first
    allocation of the path); a pointer field that has not been written reads as the object named by its
    access path; an integer field / char cell / result of a call through a function-pointer field that has
    not been written is an INPUT of the tie (the tie's spec names it; anything else is an error);
  * NULL tests and pointer comparisons are FACTS: those named by the spec are boolean inputs, every other one
    is explored both ways and both ways must give the same outcome (else: error, the outcome depends on
    something the tie does not model);
  * calls of functions defined in the file are executed (inlined) with their own frame, to any depth <= 12,
    recursion included; malloc / pool alloc give a fresh non-NULL object, memset(p, 0, ..) zeroes it;
  * a segment that starts at a loop head is found by running the function from its entry (other loops are
    skipped: the variables they assign are forgotten), which yields the continuation of the loop; every local
    that is assigned in the loop, or differs between arrivals, is forgotten and re-bound lazily by its type;
  * integer comparisons become the conditions of the generated term; leaves are tuples of integer
    expressions computed by the tie's classifier from the final state (field values, which object a
    variable points to, which loop was reached, the return value).

Integer expressions follow lib/leaftrans.py (Gallina over Z, unsigned wrap explicit, signed conversions value
preserving, Lib/Leaf.v helpers).  Anything unsupported raises leaftrans.LeafError, which the plugin writes as a
comment into coq/gen/Params_C09.v so that the corresponding gen_*_matches_model obligation breaks."""
import copy
import json
import re
import subprocess
import sys

import leaftrans as L

LeafError = L.LeafError
sys.setrecursionlimit(20000)


class Undecided(Exception):
    pass


class SeekDone(Exception):
    pass


# --------------------------------------------------------------------------
# AST loading

def load_all(src, cflags, flt="muggle"):
    """every function with a body whose name contains `flt` -> {name: FunctionDecl}"""
    cmd = ["clang", "-fsyntax-only", "-w"] + list(cflags) + ["-Xclang", "-ast-dump=json", "-Xclang",
                                                           "-ast-dump-filter=" + flt, src]
    p = subprocess.run(cmd, stdout=subprocess.PIPE, stderr=subprocess.PIPE, text=True, timeout=120)
    txt, dec, i, out = p.stdout, json.JSONDecoder(), 0, {}
    while i < len(txt):
        while i < len(txt) and txt[i].isspace():
            i += 1
        if i >= len(txt):
            break
        obj, i = dec.raw_decode(txt, i)
        if obj.get("kind") == "FunctionDecl" and any(c.get("kind") == "CompoundStmt" for c in obj.get("inner", [])):
            out[obj["name"]] = obj
    if not out:
        raise LeafError("no function definitions found in %s (%s)" % (src, p.stderr[-300:]))
    return out


def qt(n):
    return n.get("type", {}).get("qualType", "")


def dqt(n):
    t = n.get("type", {})
    return t.get("desugaredQualType") or t.get("qualType", "")


def tkind_of(q, d=None):
    """'int' | 'ptr' | 'arr' | 'void' | 'struct' from a type (qualType, desugared)"""
    node = {"type": {"qualType": q, "desugaredQualType": d or q}}
    if L.ctype(node) is not None:
        return "int"
    s = (d or q).strip()
    if re.search(r"\[\d*\]$", s):
        return "arr"
    if s.endswith("*") or "(*)" in s:
        return "ptr"
    if s == "void":
        return "void"
    return "struct"


def tkind(n):
    return tkind_of(qt(n), dqt(n))


def body_of(f):
    return [c for c in f["inner"] if c.get("kind") == "CompoundStmt"][0]


LOOPS = ("WhileStmt", "ForStmt", "DoStmt")


def walk(n, fn_):
    if not isinstance(n, dict):
        return
    fn_(n)
    for c in n.get("inner", []) or []:
        walk(c, fn_)


def strip_casts(n):
    while n.get("kind") in ("ParenExpr", "ImplicitCastExpr", "CStyleCastExpr", "ConstantExpr") and n.get("inner"):
        n = n["inner"][-1]
    return n


# --------------------------------------------------------------------------
# values:  ('z', text, const|None)   ('p', ref)   ref: None | ('obj', name) | ('slot', obj, fld)
#          | ('arr', obj, fld) | ('chr', base, off) | ('fn', name) | ('var', frame, declid)

def Zc(v):
    return ("z", "(%d)" % v, v)


def Zt(t):
    return ("z", t, None)


NULL = ("p", None)


class St:
    __slots__ = ("frames", "heap", "zeroed", "nonnull", "null", "atoms", "nalloc", "lazy", "events", "epoch", "counts")

    def __init__(self):
        self.frames = [{}]
        self.heap = {}
        self.zeroed = set()
        self.nonnull = set()
        self.null = set()
        self.atoms = {}
        self.nalloc = 0
        self.lazy = {}        # role -> (frame index, declid)
        self.events = []
        self.epoch = 0
        self.counts = {}

    def copy(self):
        s = St()
        s.frames = [dict(f) for f in self.frames]
        s.heap = dict(self.heap)
        s.zeroed = set(self.zeroed)
        s.nonnull = set(self.nonnull)
        s.null = set(self.null)
        s.atoms = dict(self.atoms)
        s.nalloc = self.nalloc
        s.lazy = dict(self.lazy)
        s.events = list(self.events)
        s.epoch = self.epoch
        s.counts = dict(self.counts)
        return s


class K:
    """control continuations of the statement being executed"""
    __slots__ = ("brk", "cont", "ret")

    def __init__(self, brk, cont, ret):
        self.brk, self.cont, self.ret = brk, cont, ret


ABORT = ("leaf", ("@abort",))
S_UNKNOWN = ("z", "?unknown", None)

ALLOCS = ("malloc", "muggle_memory_pool_alloc", "calloc")
NOOPS = ("free", "muggle_memory_pool_free", "muggle_memory_pool_destroy", "memcpy", "strlen")


class Ex:
    def __init__(self, fns, spec, src=None, cflags=()):
        self.fns, self.spec, self.src, self.cflags = fns, spec, src, cflags
        self.phase = "run"          # 'seek' | 'run'
        self.target = None          # loop node id looked for in seek phase
        self.arrivals = []
        self.nofork = False
        self.depth = 0
        self.decls = {}             # decl id -> (name, qualType, desugared, param position | None, function name)
        self.array_sizes = {}
        for f in fns.values():
            self.index_decls(f)

    def index_decls(self, f):
        pos = [0]

        def visit(n):
            if n.get("kind") == "ParmVarDecl":
                pos[0] += 1
                self.decls[n["id"]] = (n.get("name", ""), qt(n), dqt(n), pos[0], f["name"])
            elif n.get("kind") == "VarDecl":
                self.decls[n["id"]] = (n.get("name", ""), qt(n), dqt(n), None, f["name"])
        walk(f, visit)

    def fn(self, name):
        if name not in self.fns and self.src is not None:
            try:
                self.fns[name] = L.load_function(self.src, name, self.cflags)
                self.index_decls(self.fns[name])
            except LeafError:
                self.fns[name] = None
        return self.fns.get(name)

    # ---- forks ---------------------------------------------------------
    def fork(self, st, atom, kt, kf):
        """atom: Gallina bool text over the inputs, or '?...' for a fact the tie does not name"""
        if atom in st.atoms:
            return kt(st) if st.atoms[atom] else kf(st)
        if self.nofork:
            raise Undecided()
        s2 = st.copy()
        st.atoms[atom] = True
        s2.atoms[atom] = False
        if self.phase == "seek":
            try:
                a = kt(st)
            except LeafError:
                a = ABORT
            try:
                b = kf(s2)
            except LeafError:
                b = ABORT
        else:
            a = kt(st)
            b = kf(s2)
        if a == b:
            return a
        if a == ABORT:
            return b
        if b == ABORT:
            return a
        if atom.startswith("?"):
            if self.phase == "seek":
                return a
            raise LeafError("the outcome depends on %s, which is not an input of this tie" % atom[1:])
        return ("if", atom, a, b)

    def fact(self, st, key, kt, kf):
        """key: 'nn:<obj>' or 'eq:<a>|<b>' ; the spec may name it (atom, positive)"""
        r = self.spec.fact(key)
        if r is None:
            return self.fork(st, "?" + key, kt, kf)
        if r is True:
            return kt(st)
        if r is False:
            return kf(st)
        atom, pos = r
        return self.fork(st, atom, kt, kf) if pos else self.fork(st, atom, kf, kt)

    def if_null(self, st, ref, knull, knon):
        if ref is None:
            return knull(st)
        if ref[0] != "obj":
            return knon(st)
        name = ref[1]
        if name in st.nonnull:
            return knon(st)
        if name in st.null:
            return knull(st)

        def yes(s):
            s.nonnull.add(name)
            return knon(s)

        def no(s):
            s.null.add(name)
            return knull(s)
        return self.fact(st, "nn:" + name, yes, no)

    @staticmethod
    def downward(a, b):
        """b is reached from a by child links only (so a != b in a tree / an acyclic chain)"""
        if not b.startswith(a + "."):
            return False
        return all(re.match(r"^(left|right|next|children\[.*\])$", c) for c in re.split(r"\.(?![^\[]*\])", b[len(a) + 1:]))

    def if_peq(self, st, a, b, keq, kne):
        if a == b:
            return keq(st)
        if a is None:
            return self.if_null(st, b, keq, kne)
        if b is None:
            return self.if_null(st, a, keq, kne)
        if a[0] != "obj" or b[0] != "obj":
            return kne(st)
        x, y = sorted([a[1], b[1]])
        if re.match(r"^A\d+", x) or re.match(r"^A\d+", y) or self.downward(x, y) or self.downward(y, x):
            return kne(st)
        # siblings below a common node
        i = 0
        while i < min(len(x), len(y)) and x[i] == y[i]:
            i += 1
        pre = x[:i].rsplit(".", 1)[0] if "." in x[:i] else None
        if pre and self.downward(pre, x) and self.downward(pre, y):
            return kne(st)
        return self.fact(st, "eq:%s|%s" % (x, y), keq, kne)

    # ---- integer arithmetic ----------------------------------------------
    def wrap(self, node, v):
        ty = L.ctype(node)
        if ty is None:
            raise LeafError("non-integer arithmetic (%s)" % qt(node))
        if ty[0]:
            return v
        if v[2] is not None:
            return Zc(v[2] % (1 << ty[1]))
        return Zt("(wrapu %d %s)" % (ty[1], v[1]))

    def arith(self, node, op, a, b):
        if a[0] != "z" or b[0] != "z":
            raise LeafError("arithmetic %s on a non-integer" % op)
        x, y, cx, cy = a[1], b[1], a[2], b[2]
        both = cx is not None and cy is not None
        if op in ("+", "-", "*"):
            if both:
                return self.wrap(node, Zc({"+": cx + cy, "-": cx - cy, "*": cx * cy}[op]))
            return self.wrap(node, Zt("(%s %s %s)" % (x, op, y)))
        if op == "/":
            if both and cy != 0 and cx >= 0 and cy > 0:
                return Zc(cx // cy)
            return Zt("(cdiv %s %s)" % (x, y))
        if op == "%":
            if both and cy != 0 and cx >= 0 and cy > 0:
                return Zc(cx % cy)
            return Zt("(crem %s %s)" % (x, y))
        if op == "<<":
            if both and 0 <= cy < 64:
                return self.wrap(node, Zc(cx << cy))
            return self.wrap(node, Zt("(Z.shiftl %s %s)" % (x, y)))
        if op == ">>":
            if both and cy >= 0 and cx >= 0:
                return Zc(cx >> cy)
            return Zt("(Z.shiftr %s %s)" % (x, y))
        m = {"&": "Z.land", "|": "Z.lor", "^": "Z.lxor"}
        if op in m:
            if both and cx >= 0 and cy >= 0:
                return Zc({"&": cx & cy, "|": cx | cy, "^": cx ^ cy}[op])
            return Zt("(%s %s %s)" % (m[op], x, y))
        raise LeafError("unsupported binary operator " + op)

    def if_cmp(self, st, op, a, b, kt, kf):
        if a[0] == "p" or b[0] == "p":
            ra = a[1] if a[0] == "p" else (None if a[2] == 0 else "bad")
            rb = b[1] if b[0] == "p" else (None if b[2] == 0 else "bad")
            if "bad" in (ra, rb) or op not in ("==", "!="):
                raise LeafError("unsupported pointer comparison " + op)
            return self.if_peq(st, ra, rb, kt, kf) if op == "==" else self.if_peq(st, ra, rb, kf, kt)
        if a[2] is not None and b[2] is not None:
            r = {"==": a[2] == b[2], "!=": a[2] != b[2], "<": a[2] < b[2], "<=": a[2] <= b[2],
                 ">": a[2] > b[2], ">=": a[2] >= b[2]}[op]
            return kt(st) if r else kf(st)
        x, y = a[1], b[1]
        if op == "==":
            return self.fork(st, "(%s =? %s)" % (x, y), kt, kf)
        if op == "!=":
            return self.fork(st, "(%s =? %s)" % (x, y), kf, kt)
        if op == "<":
            return self.fork(st, "(%s <? %s)" % (x, y), kt, kf)
        if op == "<=":
            return self.fork(st, "(%s <=? %s)" % (x, y), kt, kf)
        if op == ">":
            return self.fork(st, "(%s <? %s)" % (y, x), kt, kf)
        return self.fork(st, "(%s <=? %s)" % (y, x), kt, kf)

    def if_val(self, st, v, kt, kf):
        if v[0] == "p":
            return self.if_null(st, v[1], kf, kt)
        if v[2] is not None:
            return kt(st) if v[2] != 0 else kf(st)
        return self.fork(st, "(%s =? (0))" % v[1], kf, kt)

    # ---- conditions --------------------------------------------------------
    def cond(self, e, st, kt, kf):
        k = e.get("kind")
        if k in ("ParenExpr", "ConstantExpr"):
            return self.cond(e["inner"][0], st, kt, kf)
        if k in ("ImplicitCastExpr", "CStyleCastExpr") and e.get("castKind") in (
                "IntegralToBoolean", "PointerToBoolean", "LValueToRValue", "NoOp") and \
                e.get("castKind") != "LValueToRValue":
            return self.cond(e["inner"][-1], st, kt, kf)
        if k == "UnaryOperator" and e.get("opcode") == "!":
            return self.cond(e["inner"][0], st, kf, kt)
        if k == "BinaryOperator" and e.get("opcode") == "&&":
            return self.cond(e["inner"][0], st, lambda s: self.cond(e["inner"][1], s, kt, kf), kf)
        if k == "BinaryOperator" and e.get("opcode") == "||":
            return self.cond(e["inner"][0], st, kt, lambda s: self.cond(e["inner"][1], s, kt, kf))
        if k == "BinaryOperator" and e.get("opcode") in ("==", "!=", "<", "<=", ">", ">="):
            op = e["opcode"]
            return self.ev(e["inner"][0], st, lambda a, s: self.ev(
                e["inner"][1], s, lambda b, s2: self.if_cmp(s2, op, a, b, kt, kf)))
        if k == "ConditionalOperator":
            return self.cond(e["inner"][0], st, lambda s: self.cond(e["inner"][1], s, kt, kf),
                             lambda s: self.cond(e["inner"][2], s, kt, kf))
        return self.ev(e, st, lambda v, s: self.if_val(s, v, kt, kf))

    # ---- lvalues -------------------------------------------------------------
    # loc: ('var', frame, declid) | ('fld', obj, field) | ('chr', base, off) | ('objloc', name) | ('arrloc', obj, field)
    def deref(self, st, ref, pointee_kind, what):
        if ref is None:
            raise LeafError("NULL dereferenced (%s)" % what)
        if ref[0] == "obj":
            st.nonnull.add(ref[1])
            return ("objloc", ref[1]) if pointee_kind == "struct" else ("fld", ref[1], "*")
        if ref[0] == "slot":
            return ("fld", ref[1], ref[2])
        if ref[0] == "arr":
            return ("fld", ref[1], ref[2] + "[0]")
        if ref[0] == "chr":
            return ("chr", ref[1], ref[2])
        if ref[0] == "var":
            return ("var", ref[1], ref[2])
        raise LeafError("unsupported dereference (%s)" % what)

    def lv(self, e, st, k):
        kd = e.get("kind")
        if kd == "ParenExpr":
            return self.lv(e["inner"][0], st, k)
        if kd == "DeclRefExpr":
            return k(("var", len(st.frames) - 1, e["referencedDecl"]["id"]), st)
        if kd == "MemberExpr":
            name = e.get("name", "")
            mk = tkind(e)

            def member(base, s):
                if name == "":          # anonymous struct / union member: same object
                    return k(("objloc", base), s)
                if mk == "struct":
                    return k(("objloc", base + "." + name), s)
                if mk == "arr":
                    m = re.search(r"\[(\d+)\]$", dqt(e).strip())
                    if m:
                        self.array_sizes[name] = int(m.group(1))
                    return k(("arrloc", base, name), s)
                return k(("fld", base, name), s)
            if e.get("isArrow"):
                def got(v, s):
                    if v[0] != "p":
                        raise LeafError("-> on a non-pointer")
                    loc = self.deref(s, v[1], "struct", "->" + name)
                    return member(loc[1], s)
                return self.ev(e["inner"][0], st, got)

            def gotl(loc, s):
                if loc[0] != "objloc":
                    raise LeafError("member access on an unsupported lvalue")
                return member(loc[1], s)
            return self.lv(e["inner"][0], st, gotl)
        if kd == "ArraySubscriptExpr":
            ek = tkind(e)

            def gotb(b, s):
                def goti(i, s2):
                    if b[0] != "p" or b[1] is None or i[0] != "z":
                        raise LeafError("unsupported array subscript")
                    it = str(i[2]) if i[2] is not None else i[1]
                    r = b[1]
                    if r[0] == "arr":
                        s2.events.append(("idx", r[1], r[2], it))
                        return k(("fld", r[1], "%s[%s]" % (r[2], it)), s2)
                    if r[0] == "obj":
                        s2.nonnull.add(r[1])
                        if ek == "struct":
                            return k(("objloc", "%s[%s]" % (r[1], it)), s2)
                        return k(("fld", r[1], "[%s]" % it), s2)
                    if r[0] == "chr" and i[2] is not None:
                        return k(("chr", r[1], r[2] + i[2]), s2)
                    raise LeafError("unsupported array base")
                return self.ev(e["inner"][1], s, goti)
            return self.ev(e["inner"][0], st, gotb)
        if kd == "UnaryOperator" and e.get("opcode") == "*":
            return self.ev(e["inner"][0], st, lambda v, s: k(self.deref(s, v[1] if v[0] == "p" else None, tkind(e), "*"), s))
        raise LeafError("unsupported lvalue " + str(kd))

    def lazy_name(self, st, base):
        return base + ("@%d" % st.epoch if st.epoch else "")

    def read(self, loc, st, node):
        if loc[0] == "var":
            return self.lookup(st, loc[1], loc[2])
        kd = tkind(node)
        if loc[0] == "fld":
            key = (loc[1], loc[2])
            if key in st.heap:
                return st.heap[key]
            if loc[1] in st.zeroed:
                return NULL if kd == "ptr" else Zc(0)
            nm = "%s.%s" % (loc[1], loc[2]) if not loc[2].startswith("[") else loc[1] + loc[2]
            if kd == "ptr":
                return ("p", ("obj", self.lazy_name(st, nm)))
            if kd == "int":
                return self.input(st, self.lazy_name(st, nm))
            raise LeafError("read of a field of unsupported type: " + nm)
        if loc[0] == "chr":
            key = ("$chr:" + loc[1], str(loc[2]))
            if key in st.heap:
                return st.heap[key]
            v = self.input(st, "%s[%d]" % (loc[1], loc[2]))      # the cell as a plain (signed) char
            ty = L.ctype(node)
            if ty is not None and not ty[0]:                     # read through an unsigned char pointer
                return self.wrap(node, v)
            return v
        if loc[0] == "arrloc":
            return ("p", ("arr", loc[1], loc[2]))
        raise LeafError("unsupported read (struct copy?)")

    def input(self, st, key):
        t = self.spec.int_input(key)
        if t is None:
            if self.phase == "seek":
                return Zt("?" + key)
            raise LeafError("integer %s is read but is not an input of this tie" % key)
        return Zt(t)

    def write(self, loc, v, st):
        if loc[0] == "var":
            st.frames[loc[1]][loc[2]] = v
        elif loc[0] == "fld":
            st.heap[(loc[1], loc[2])] = v
            st.events.append(("wr", loc[1], loc[2], v))
        elif loc[0] == "chr":
            st.heap[("$chr:" + loc[1], str(loc[2]))] = v
        else:
            raise LeafError("unsupported assignment target")

    def lookup(self, st, fi, did):
        fr = st.frames[fi]
        if did not in fr:
            name, q, d, pos, fname = self.decls.get(did, ("?", "int", "int", None, "?"))
            v = self.spec.role(self, st, name, q, d, pos, (fi, did))
            fr[did] = v
        return fr[did]

    def addr(self, loc):
        if loc[0] == "fld":
            return ("p", ("slot", loc[1], loc[2]))
        if loc[0] == "objloc":
            return ("p", ("obj", loc[1]))
        if loc[0] == "arrloc":
            return ("p", ("arr", loc[1], loc[2]))
        if loc[0] == "var":
            return ("p", ("var", loc[1], loc[2]))
        if loc[0] == "chr":
            return ("p", ("chr", loc[1], loc[2]))
        raise LeafError("unsupported address-of")

    # ---- expressions ---------------------------------------------------------
    def ev(self, e, st, k):
        kd = e.get("kind")
        if kd in ("ParenExpr", "ConstantExpr"):
            return self.ev(e["inner"][0], st, k)
        if kd in ("ImplicitCastExpr", "CStyleCastExpr"):
            ck, inner = e.get("castKind"), e["inner"][-1]
            if ck == "LValueToRValue":
                return self.lv(inner, st, lambda loc, s: k(self.read(loc, s, e), s))
            if ck in ("NoOp", "BitCast", "FunctionToPointerDecay", "ToVoid", "BuiltinFnToFnPtr"):
                return self.ev(inner, st, k)
            if ck == "ArrayToPointerDecay":
                if strip_casts(inner).get("kind") == "StringLiteral":
                    return k(("p", ("obj", "$str")), st)
                return self.lv(inner, st, lambda loc, s: k(self.addr(loc), s))
            if ck == "NullToPointer":
                return k(NULL, st)
            if ck in ("IntegralToBoolean", "PointerToBoolean"):
                return self.cond(inner, st, lambda s: k(Zc(1), s), lambda s: k(Zc(0), s))
            if ck == "IntegralCast":
                def cast(v, s):
                    if v[0] != "z":
                        raise LeafError("integral cast of a pointer")
                    ty, src = L.ctype(e), L.ctype(inner)
                    if ty is None:
                        raise LeafError("cast to non-integer " + qt(e))
                    if ty[1] == 1:
                        return self.if_val(s, v, lambda s2: k(Zc(1), s2), lambda s2: k(Zc(0), s2))
                    if not ty[0] and not (src and not src[0] and src[1] <= ty[1]):
                        return k(self.wrap(e, v), s)
                    return k(v, s)
                return self.ev(inner, st, cast)
            raise LeafError("unsupported cast " + str(ck))
        if kd in ("IntegerLiteral", "CharacterLiteral"):
            return k(Zc(int(e["value"])), st)
        if kd == "DeclRefExpr":
            rk = e["referencedDecl"].get("kind")
            if rk == "FunctionDecl":
                return k(("p", ("fn", e["referencedDecl"]["name"])), st)
            if rk in ("VarDecl", "ParmVarDecl"):
                return self.lv(e, st, lambda loc, s: k(self.read(loc, s, e), s))
            raise LeafError("unsupported reference to " + str(rk))
        if kd in ("MemberExpr", "ArraySubscriptExpr"):
            return self.lv(e, st, lambda loc, s: k(self.read(loc, s, e), s))
        if kd == "UnaryExprOrTypeTraitExpr":
            return k(Zt("(sizeof_is_not_modelled)"), st)
        if kd == "GNUNullExpr":
            return k(NULL, st)
        if kd == "UnaryOperator":
            op = e["opcode"]
            if op == "*":
                return self.lv(e, st, lambda loc, s: k(self.read(loc, s, e), s))
            if op == "&":
                return self.lv(e["inner"][0], st, lambda loc, s: k(self.addr(loc), s))
            if op == "!":
                return self.cond(e["inner"][0], st, lambda s: k(Zc(0), s), lambda s: k(Zc(1), s))
            if op in ("++", "--"):
                post = e.get("isPostfix", False)
                bop = "+" if op == "++" else "-"

                def rmw(loc, s):
                    old = self.read(loc, s, e)
                    new = self.step(e, bop, old)
                    self.write(loc, new, s)
                    return k(old if post else new, s)
                return self.lv(e["inner"][0], st, rmw)

            def un(v, s):
                if v[0] != "z":
                    raise LeafError("unary %s on a pointer" % op)
                if op == "+":
                    return k(v, s)
                if op == "-":
                    return k(self.wrap(e, Zc(-v[2]) if v[2] is not None else Zt("(- %s)" % v[1])), s)
                if op == "~":
                    ty = L.ctype(e)
                    if ty and not ty[0]:
                        return k(Zc((1 << ty[1]) - 1 - v[2]) if v[2] is not None else Zt("(2 ^ %d - 1 - %s)" % (ty[1], v[1])), s)
                    return k(Zc(-v[2] - 1) if v[2] is not None else Zt("(- %s - 1)" % v[1]), s)
                raise LeafError("unsupported unary " + op)
            return self.ev(e["inner"][0], st, un)
        if kd == "ConditionalOperator":
            return self.cond(e["inner"][0], st, lambda s: self.ev(e["inner"][1], s, k), lambda s: self.ev(e["inner"][2], s, k))
        if kd == "BinaryOperator":
            op = e["opcode"]
            if op == "=":
                return self.ev(e["inner"][1], st, lambda v, s: self.lv(
                    e["inner"][0], s, lambda loc, s2: (self.write(loc, v, s2), k(v, s2))[1]))
            if op == ",":
                return self.ev(e["inner"][0], st, lambda _v, s: self.ev(e["inner"][1], s, k))
            if op in ("&&", "||", "==", "!=", "<", "<=", ">", ">="):
                return self.cond(e, st, lambda s: k(Zc(1), s), lambda s: k(Zc(0), s))
            return self.ev(e["inner"][0], st, lambda a, s: self.ev(
                e["inner"][1], s, lambda b, s2: k(self.binop(e, op, a, b), s2)))
        if kd == "CompoundAssignOperator":
            op = e["opcode"][:-1]

            def ca(loc, s):
                old = self.read(loc, s, e["inner"][0])

                def fin(b, s2):
                    fake = {"type": e.get("computeResultType", e["type"])}
                    new = self.binop(fake, op, old, b)
                    if new[0] == "z":
                        new = self.wrap(e, new)
                    self.write(loc, new, s2)
                    return k(new, s2)
                return self.ev(e["inner"][1], s, fin)
            return self.lv(e["inner"][0], st, ca)
        if kd == "CallExpr":
            return self.call(e, st, k)
        raise LeafError("unsupported expression kind " + str(kd))

    def step(self, node, bop, old):
        if old[0] == "p":
            r = old[1]
            if r and r[0] == "chr":
                return ("p", ("chr", r[1], r[2] + (1 if bop == "+" else -1)))
            raise LeafError("++/-- on a pointer that is not a string cursor")
        return self.arith(node, bop, old, Zc(1))

    def binop(self, node, op, a, b):
        if a[0] == "p" or b[0] == "p":
            p, i = (a, b) if a[0] == "p" else (b, a)
            if op in ("+", "-") and i[0] == "z" and i[2] is not None and p[1] and p[1][0] == "chr" and (op == "+" or p is a):
                return ("p", ("chr", p[1][1], p[1][2] + (i[2] if op == "+" else -i[2])))
            raise LeafError("unsupported pointer arithmetic")
        return self.arith(node, op, a, b)

    # ---- calls -------------------------------------------------------------------
    def evargs(self, args, st, k, acc=None):
        acc = acc or []
        if len(acc) == len(args):
            return k(acc, st)
        return self.ev(args[len(acc)], st, lambda v, s: self.evargs(args, s, k, acc + [v]))

    def call(self, e, st, k):
        callee = strip_casts(e["inner"][0])
        args = e["inner"][1:]
        rk = tkind(e)
        if callee.get("kind") == "DeclRefExpr" and callee["referencedDecl"].get("kind") == "FunctionDecl":
            name = callee["referencedDecl"]["name"]
            f = self.fn(name)
            if f is not None:
                return self.evargs(args, st, lambda vs, s: self.inline(f, vs, s, k))
            return self.external(name, e, args, st, k)

        # call through a pointer: a function-pointer field / parameter
        def through(fv, s):
            if fv[0] == "p" and fv[1] and fv[1][0] == "fn":
                f = self.fn(fv[1][1])
                if f is not None:
                    return self.evargs(args, s, lambda vs, s2: self.inline(f, vs, s2, k))
                return self.external(fv[1][1], e, args, s, k)
            if fv[0] != "p" or fv[1] is None or fv[1][0] != "obj":
                raise LeafError("call through an unsupported function pointer")
            s.nonnull.add(fv[1][1])

            def got(vs, s2):
                s2.events.append(("call", fv[1][1], vs))
                if rk == "void":
                    return k(None, s2)
                r = self.spec.indirect(self, s2, fv[1][1], vs)
                if r is None:
                    if self.phase == "seek":
                        return k(Zt("?call"), s2)
                    raise LeafError("result of the call through %s is not an input of this tie" % fv[1][1])
                return k(r, s2)
            return self.evargs(args, s, got)
        return self.ev(e["inner"][0], st, through)

    def external(self, name, e, args, st, k):
        if name in ALLOCS:
            st.nalloc += 1
            obj = "A%d" % st.nalloc
            st.nonnull.add(obj)
            st.events.append(("alloc", obj))
            if name == "calloc":
                st.zeroed.add(obj)
            return k(("p", ("obj", obj)), st)
        if name == "memset":
            def ms(vs, s):
                p, c = vs[0], vs[1]
                if p[0] == "p" and p[1] and p[1][0] == "obj" and c[0] == "z" and c[2] == 0:
                    obj = p[1][1]
                    s.zeroed.add(obj)
                    for key in [kk for kk in s.heap if kk[0] == obj or kk[0].startswith(obj + ".")]:
                        del s.heap[key]
                    return k(p, s)
                raise LeafError("memset with an unsupported destination / value")
            return self.evargs(args[:2], st, ms)
        r = self.spec.external(self, st, name)
        if r is not None:
            return k(r, st)
        if name in NOOPS:
            return k(None if tkind(e) == "void" else Zt("(result_of_%s)" % name), st)
        raise LeafError("call of %s: no definition in this file and no model" % name)

    def inline(self, f, vals, st, k):
        parms = [c for c in f.get("inner", []) if c.get("kind") == "ParmVarDecl"]
        if len(parms) != len(vals):
            raise LeafError("argument count mismatch calling " + f["name"])
        if len(st.frames) > 14:
            raise LeafError("call nesting too deep at " + f["name"])
        if self.phase == "seek":
            # while looking for the loop only the functions that contain it are entered
            if f["name"] not in self.has_target:
                tid = self.target
                self.has_target[f["name"]] = self.closure_has(body_of(f), lambda n: n.get("id") == tid)
            if not self.has_target[f["name"]] or sum(1 for fr in st.frames if fr.get("$fn") == f["name"]) >= 2:
                rk = tkind_of(f["type"]["qualType"].split("(")[0].strip())
                if rk == "ptr":
                    st.counts["q"] = st.counts.get("q", 0) + 1
                    return k(("p", ("obj", "Q%d" % st.counts["q"])), st)
                return k(None if rk == "void" else S_UNKNOWN, st)
        st.frames.append({p_["id"]: v for p_, v in zip(parms, vals)})
        st.frames[-1]["$fn"] = f["name"]

        def ret(v, s):
            s.frames.pop()
            return k(v, s)
        return self.run([body_of(f)], st, K(None, None, ret), lambda s: ret(None, s))

    # ---- statements ----------------------------------------------------------------
    def run(self, stmts, st, K_, k):
        if not stmts:
            return k(st)
        s, R = stmts[0], stmts[1:]
        kd = s.get("kind")

        def nxt(st2):
            return self.run(R, st2, K_, k)
        if kd is None or kd == "NullStmt":
            return nxt(st)
        if kd == "CompoundStmt":
            return self.run(list(s.get("inner", [])) + R, st, K_, k)
        if kd == "DeclStmt":
            ds = [d for d in s.get("inner", []) if d.get("kind") == "VarDecl"]

            def decl(i, st2):
                if i == len(ds):
                    return nxt(st2)
                d = ds[i]
                st2.frames[-1].pop(d["id"], None)
                init = [c for c in d.get("inner", []) if "kind" in c and not c["kind"].endswith("Comment")]
                if not init:
                    return decl(i + 1, st2)
                if tkind(d) in ("struct", "arr"):
                    raise LeafError("unsupported local of type " + qt(d))

                def got(v, s3):
                    s3.frames[-1][d["id"]] = v
                    return decl(i + 1, s3)
                return self.ev(init[-1], st2, got)
            return decl(0, st)
        if kd == "ReturnStmt":
            inner = s.get("inner", [])
            if not inner:
                return K_.ret(None, st)
            return self.ev(inner[0], st, lambda v, s2: K_.ret(v, s2))
        if kd == "IfStmt":
            inner = s["inner"]
            els = [inner[2]] if len(inner) > 2 else []
            return self.cond(inner[0], st, lambda s2: self.run([inner[1]], s2, K_, nxt),
                             lambda s2: self.run(els, s2, K_, nxt))
        if kd == "BreakStmt":
            if K_.brk is None:
                raise LeafError("break outside a loop")
            return K_.brk(st)
        if kd == "ContinueStmt":
            if K_.cont is None:
                raise LeafError("continue outside a loop")
            return K_.cont(st)
        if kd in LOOPS:
            return self.loop(s, st, K_, nxt)
        if kd in ("SwitchStmt", "GotoStmt", "LabelStmt"):
            raise LeafError("unsupported statement kind " + kd)
        return self.ev(s, st, lambda _v, s2: nxt(s2))

    # ---- loops -----------------------------------------------------------------------
    @staticmethod
    def parts(s):
        """-> (init, cond, inc, body)"""
        inner = [(c if c and "kind" in c else None) for c in s["inner"]]
        if s["kind"] == "WhileStmt":
            return None, inner[-2], None, inner[-1]
        if s["kind"] == "ForStmt":
            return inner[0], inner[2], inner[3], inner[4]
        return None, inner[1], None, inner[0]

    def assigned_in(self, node):
        out = set()

        def visit(n):
            kd = n.get("kind")
            tgt = None
            if kd in ("BinaryOperator", "CompoundAssignOperator") and n.get("opcode", "").endswith("=") and \
                    n.get("opcode") not in ("==", "!=", "<=", ">="):
                tgt = strip_casts(n["inner"][0])
            elif kd == "UnaryOperator" and n.get("opcode") in ("++", "--", "&"):
                tgt = strip_casts(n["inner"][0])
            elif kd == "VarDecl":
                out.add(n["id"])
            if tgt is not None and tgt.get("kind") == "DeclRefExpr":
                out.add(tgt["referencedDecl"]["id"])
        walk(node, visit)
        return out

    def fields_written(self, s):
        names = set()

        def pred(n):
            kd = n.get("kind")
            if (kd in ("BinaryOperator", "CompoundAssignOperator") and n.get("opcode", "").endswith("=") and
                    n.get("opcode") not in ("==", "!=", "<=", ">=")) or \
                    (kd == "UnaryOperator" and n.get("opcode") in ("++", "--")):
                t = strip_casts(n["inner"][0])
                while t.get("kind") in ("ArraySubscriptExpr",):
                    t = strip_casts(t["inner"][0])
                if t.get("kind") == "MemberExpr":
                    names.add(t.get("name"))
                elif t.get("kind") != "DeclRefExpr":
                    names.add("*")
            return False
        self.closure_has(s, pred)
        return names

    def havoc(self, st, s, keep_heap=False):
        st = st.copy()
        if keep_heap:
            # a loop that is stepped over inside a segment: what was stored before it stays, except the
            # fields the loop (or a function it calls) assigns
            w = self.fields_written(s)
            heap = {} if "*" in w else dict((kk, v) for kk, v in st.heap.items() if kk[1].split("[")[0] not in w)
        else:
            heap = {}
        ids = self.assigned_in(s)
        for fr in st.frames[-1:]:
            for i in list(fr):
                if i in ids:
                    del fr[i]
        st.heap, st.zeroed = heap, set()
        st.nonnull = set(x for x in st.nonnull if "." not in x and "[" not in x)
        st.null = set()
        st.epoch += 1
        return st

    def decide(self, c, st):
        """True / False when the condition is decided by what the path already knows, else None"""
        if c is None:
            return True
        old = self.nofork
        self.nofork = True
        try:
            return self.cond(c, st.copy(), lambda s: True, lambda s: False)
        except Undecided:
            return None
        finally:
            self.nofork = old

    def loop(self, s, st, K_, k):
        init, c, inc, body = self.parts(s)
        if s["kind"] == "DoStmt":
            if self.decide(c, st) is False:       # do { ... } while (0)
                return self.run([body], st, K(k, k, K_.ret), k)
            raise LeafError("do-while loops are not supported")

        def head(st2):
            if self.phase == "seek":
                if s["id"] == self.target:
                    self.arrivals.append((st2.copy(), s, K_, k))
                    if len(self.arrivals) >= 64:
                        raise SeekDone()
                    return ABORT
                return k(self.havoc(st2, s))
            if self.decide(c, st2) is False:
                return k(st2)
            if self.spec.loop_policy(self, s) == "skip":
                return k(self.havoc(st2, s, True))
            return self.leaf("reach", st2, s, None)
        if init is not None:
            return self.run([init], st, K_, head)
        return head(st)

    def leaf(self, kind, st, loopnode, value):
        if self.phase == "seek":
            return ABORT
        if value is not None and value[0] == "p" and value[1] and value[1][0] == "obj" and value[1][1] in st.null:
            value = NULL
        return ("leaf", tuple(self.spec.classify(self, kind, st, loopnode, value)))

    # ---- drivers ---------------------------------------------------------------------
    def entry_state(self, f):
        st = St()
        for n in self.spec.assume_nonnull():
            st.nonnull.add(n)
        return st

    def top_ret(self, v, st):
        return self.leaf("ret", st, None, v)

    def run_prefix(self, fname):
        """segment from the entry of the public function to the first loop head (policy cut) / the return"""
        f = self.fn(fname)
        if f is None:
            raise LeafError("function %s not found" % fname)
        self.phase = "run"
        st = self.entry_state(f)
        return self.run([body_of(f)], st, K(None, None, self.top_ret), lambda s: self.top_ret(None, s))

    def loops_in_order(self, f, seen=None, depth=0):
        """loop statements reachable from f in program order (callees included at their call sites)"""
        seen = seen if seen is not None else set()
        out = []

        def visit(n):
            if not isinstance(n, dict):
                return
            if n.get("kind") in LOOPS:
                out.append(n)
            if n.get("kind") == "CallExpr" and depth < 6:
                c = strip_casts(n["inner"][0])
                if c.get("kind") == "DeclRefExpr" and c["referencedDecl"].get("kind") == "FunctionDecl":
                    nm = c["referencedDecl"]["name"]
                    g = self.fn(nm)
                    if g is not None and nm not in seen:
                        seen.add(nm)
                        for a in n["inner"][1:]:
                            visit(a)
                        out.extend(self.loops_in_order(g, seen, depth + 1))
                        return
            for ch in n.get("inner", []) or []:
                visit(ch)
        visit(body_of(f))
        return out

    def closure_has(self, node, pred, seen=None, depth=0):
        """pred holds for some node of the subtree, callees of file-local calls included"""
        seen = seen if seen is not None else set()
        found = [False]

        def visit(n):
            if found[0]:
                return
            if pred(n):
                found[0] = True
                return
            if n.get("kind") == "CallExpr" and depth < 6:
                c = strip_casts(n["inner"][0])
                if c.get("kind") == "DeclRefExpr" and c["referencedDecl"].get("kind") == "FunctionDecl":
                    nm = c["referencedDecl"]["name"]
                    g = self.fn(nm)
                    if g is not None and nm not in seen:
                        seen.add(nm)
                        if self.closure_has(body_of(g), pred, seen, depth + 1):
                            found[0] = True
        walk(node, visit)
        return found[0]

    def select_loop(self, fname, pred, which="first"):
        f = self.fn(fname)
        if f is None:
            raise LeafError("function %s not found" % fname)
        cands = [l for l in self.loops_in_order(f) if self.closure_has(l, pred)]
        if not cands:
            raise LeafError("no loop of %s matches the tie's selector" % fname)
        return cands[0] if which == "first" else cands[-1]

    def run_loop(self, fname, loopnode, peek):
        """one iteration of the loop, started at its head in an arbitrary state, followed to the next loop head /
        the return of the public function"""
        f = self.fn(fname)
        self.phase, self.target, self.arrivals, self.has_target = "seek", loopnode["id"], [], {}
        st = self.entry_state(f)
        try:
            self.run([body_of(f)], st, K(None, None, self.top_ret), lambda s: self.top_ret(None, s))
        except SeekDone:
            pass
        finally:
            self.phase = "run"
        if not self.arrivals:
            raise LeafError("the selected loop of %s is not reached from the function entry" % fname)
        # keep the variables that no arrival disagrees on and that the loop does not assign
        base, s, K_, k = self.arrivals[0]
        st0 = St()
        for n in self.spec.assume_nonnull():
            st0.nonnull.add(n)
        ids = self.assigned_in(s)
        st0.frames = []
        for fi, fr in enumerate(base.frames):
            keep = {}
            for did, v in fr.items():
                if did in ids:
                    continue
                if all(len(a[0].frames) > fi and a[0].frames[fi].get(did) == v for a in self.arrivals):
                    if not (v[0] == "z" and "?" in v[1]):
                        keep[did] = v
            st0.frames.append(keep)
        st0.nalloc = max(a[0].nalloc for a in self.arrivals)
        for fr in st0.frames:
            for v in fr.values():
                if v[0] == "p" and v[1] and v[1][0] == "obj" and re.match(r"^A\d+$", v[1][1]):
                    st0.nonnull.add(v[1][1])
        init, c, inc, body = self.parts(s)

        def back(st2):
            if not peek:
                return self.leaf("back", st2, s, None)
            if c is None:
                return self.leaf("back", st2, s, None)
            return self.cond(c, st2, lambda s3: self.leaf("back", s3, s, None), k)

        def after_body(st2):
            if inc is not None:
                return self.ev(inc, st2, lambda _v, s3: back(s3))
            return back(st2)
        K2 = K(k, after_body, K_.ret)
        if c is None:
            return self.run([body], st0, K2, after_body)
        return self.cond(c, st0, lambda s2: self.run([body], s2, K2, after_body), k)


# --------------------------------------------------------------------------
# output

def tree_text(t, ind=2):
    pad = " " * ind
    if t[0] == "leaf":
        xs = t[1]
        return xs[0] if len(xs) == 1 else "(" + ", ".join(xs) + ")"
    return "(if %s\n%sthen %s\n%selse %s)" % (t[1], pad, tree_text(t[2], ind + 2), pad, tree_text(t[3], ind + 2))


def definition(name, args, t):
    a = " ".join("(%s : %s)" % (n, ty) for n, ty in args)
    return "Definition %s %s :=\n  %s.\n" % (name, a, tree_text(t, 4))
