"""C01 — slicer for channel.c / double_buffer.c / array_blocking_queue.c (second tie, DESIGN.md 4.4).

The functions of these files are not integer leaves: they perform atomic operations, take locks,
wait and wake, store opaque pointers into slots and (the readers) loop.  This module turns the
clang JSON AST of a NAMED function of the current C text into a loop-free integer function that
the shared translator lib/leaftrans.py accepts, without looking at the shape of the text between
the synchronisation operations:

  * every synchronisation operation becomes a LABELLED STEP: an entry appended to the pseudo-field
    p->ev (ev = ev * 1024 + code, code = (op * 8 + cell) * 8 + memory order), in program order on
    each path:
        __atomic_load_n(&p->f, mo)      -> event (load, f, mo);  value: the field p->f
        __atomic_store_n(&p->f, v, mo)  -> event (store, f, mo); p->f = v
        muggle_sync_wake_one(&p->f)     -> event (wake, f)
        muggle_sync_wait(&p->f, v, ..)  -> p->waitv = v; event (wait, f)
        muggle_mutex_lock / _unlock, muggle_condition_variable_wait / _notify_one / _notify_all,
        muggle_spinlock_lock / _unlock, muggle_synclock_lock / _unlock
                                        -> event (op, first argument's field)
        p->fn_x(p, ..)                  -> event (call, fn_x); the value of fn_write / fn_read is
                                           the input pseudo-field p->in_fn_write / p->in_fn_read
  * a message is an opaque pointer: `void *` parameters, locals and return values are projected to
    64-bit integers (NULL -> 0); p->blocks[i].data becomes the array field p->slot[i],
    p->datas[i] / b->datas[i] the array field datas[i]
  * a loop (`while`, `for`) is cut after ONE iteration: at the end of the body (or at `continue`)
    the function sets p->again = 1, clears the event word (how often the cursor is re-loaded on the
    "not ready" path depends on the shape of the loop and is not compared) and returns 0 -- the
    model's reader steps are one iteration too.  A wait (futex wait, condition wait) records WHICH
    wait it is in p->waited (and the futex's expected value in p->waitv), which stay compared.
    `break` leaves the loop: the statements after the loop follow (structured with a flag)
  * a call of a function DEFINED in the same file (helpers introduced or removed by refactoring) is
    inlined: arguments are evaluated once into fresh locals, the helper's locals are renamed apart,
    its statements are sliced in place, its final `return e` gives the value (a helper with a
    return that is not its last statement is rejected)
  * a local pointer that aliases the block array (`b = p->blocks`) or one block (`b = &p->blocks[i]`,
    `b = p->blocks + i`) is followed: b[j].data -> slot[j], b->data -> slot[i] (i is materialised in an integer
    local at the point where the pointer is computed)
  * prefix ++x / --x inside an expression is hoisted: x is updated first, the expression uses the new value
  * enum constants are replaced by their values (taken from the same AST)
  * (void)x statements are dropped

Anything else raises LeafError (reported as a broken obligation, never silently skipped)."""
import copy
import json
import os
import re
import subprocess
import leaftrans as L
import vcommon as V

U64, U32, INT = "uint64_t", "uint32_t", "int"
OPS = {"load": 1, "store": 2, "wake": 3, "wait": 4, "mlock": 5, "munlock": 6, "cvwait": 7, "cvsig": 8, "call": 9,
       "splock": 10, "spunlock": 11, "sylock": 12, "syunlock": 13, "cvall": 14, "mtrylock": 15}
CELLS = {"read_cursor": 1, "write_cursor": 2, "read_mutex": 3, "read_cv": 4, "write_mutex": 5, "write_spinlock": 6,
         "write_synclock": 7, "mutex": 3, "cv_not_empty": 4, "cv_not_full": 5,
         "fn_lock": 1, "fn_write": 2, "fn_unlock": 3, "fn_wake": 4, "fn_read": 5}
PRIMS = {"muggle_sync_wake_one": "wake", "muggle_sync_wait": "wait", "muggle_mutex_lock": "mlock",
         "muggle_mutex_unlock": "munlock", "muggle_mutex_trylock": "mtrylock",
         "muggle_condition_variable_wait": "cvwait", "muggle_condition_variable_notify_one": "cvsig",
         "muggle_condition_variable_notify_all": "cvall", "muggle_spinlock_lock": "splock",
         "muggle_spinlock_unlock": "spunlock", "muggle_synclock_lock": "sylock", "muggle_synclock_unlock": "syunlock"}
_TU = {}


def event_code(op, cell, mo=0):
    return (OPS[op] * 8 + CELLS[cell]) * 8 + mo


def tu_ast(path, cflags):
    key = (path, tuple(cflags))
    if key not in _TU:
        cmd = ["clang", "-fsyntax-only", "-w"] + list(cflags) + ["-Xclang", "-ast-dump=json", path]
        r = subprocess.run(cmd, capture_output=True, text=True, timeout=180)
        if r.returncode != 0 or not r.stdout:
            raise L.LeafError("clang could not produce the AST of %s: %s" % (path, (r.stderr or "")[:200]))
        _TU[key] = json.loads(r.stdout)
    return _TU[key]


def enum_table(tu):
    tab = {}

    def walk(n):
        if n.get("kind") == "EnumDecl":
            val = -1
            for c in n.get("inner", []):
                if c.get("kind") != "EnumConstantDecl":
                    continue
                v = None
                for x in c.get("inner", []):
                    v = _const_value(x, tab)
                val = v if v is not None else val + 1
                tab[c["name"]] = val
        for c in n.get("inner", []):
            if isinstance(c, dict) and c.get("kind") in ("EnumDecl", "LinkageSpecDecl", "TranslationUnitDecl"):
                walk(c)
    walk(tu)
    return tab


def _const_value(n, tab):
    k = n.get("kind")
    if k == "ConstantExpr" and "value" in n:
        return int(n["value"])
    if k == "IntegerLiteral":
        return int(n["value"])
    if k in ("ConstantExpr", "ParenExpr", "ImplicitCastExpr") and n.get("inner"):
        return _const_value(n["inner"][-1], tab)
    if k == "DeclRefExpr":
        return tab.get(n.get("referencedDecl", {}).get("name"))
    if k == "BinaryOperator" and len(n.get("inner", [])) == 2:
        a, b = _const_value(n["inner"][0], tab), _const_value(n["inner"][1], tab)
        if a is None or b is None:
            return None
        op = n.get("opcode")
        return {"<<": a << b, "|": a | b, "+": a + b, "-": a - b, "*": a * b, "&": a & b}.get(op)
    if k == "UnaryOperator" and n.get("opcode") == "-":
        a = _const_value(n["inner"][0], tab)
        return None if a is None else -a
    return None


def qt(n):
    return n.get("type", {}).get("qualType", "")


def is_voidp(q):
    return q.replace("const ", "").replace(" ", "") == "void*"


def lit(v, ty=INT):
    return {"kind": "IntegerLiteral", "value": str(v), "type": {"qualType": ty}}


class Slicer:
    def __init__(self, src, cflags):
        self.src, self.cflags = src, list(cflags)
        self.tu = tu_ast(src, self.cflags)
        self.enums = enum_table(self.tu)
        self.p = None           # name of the structure pointer parameter
        self.arr_alias = set()  # local pointers that alias the block array p->blocks
        self.elem_alias = {}    # local pointer to one block -> integer local holding its index
        self.nidx = 0
        self.in_expr = False    # inside a condition / initialiser / operand (not a statement of its own)
        self.depth = 0
        self.ninl = 0
        self.nbrk = 0
        self.brk = None         # name of the break flag of the loop being sliced

    def function(self, name):
        found = None

        def walk(n):
            nonlocal found
            for c in n.get("inner", []):
                if not isinstance(c, dict):
                    continue
                if c.get("kind") == "FunctionDecl" and c.get("name") == name and \
                        any(x.get("kind") == "CompoundStmt" for x in c.get("inner", [])):
                    found = c
                elif c.get("kind") == "LinkageSpecDecl":
                    walk(c)
        walk(self.tu)
        if found is None:
            raise L.LeafError("function %s with a body not found in %s" % (name, os.path.basename(self.src)))
        return found

    # ---- node builders
    def field(self, name, ty, rvalue=True):
        m = {"kind": "MemberExpr", "name": name, "isArrow": True, "type": {"qualType": ty},
             "inner": [{"kind": "ImplicitCastExpr", "castKind": "LValueToRValue", "type": {"qualType": "struct *"},
                        "inner": [{"kind": "DeclRefExpr", "type": {"qualType": "struct *"},
                                   "referencedDecl": {"name": self.p, "kind": "ParmVarDecl"}}]}]}
        if rvalue:
            return {"kind": "ImplicitCastExpr", "castKind": "LValueToRValue", "type": {"qualType": ty}, "inner": [m]}
        return m

    def assign(self, lhs, rhs, ty):
        return {"kind": "BinaryOperator", "opcode": "=", "type": {"qualType": ty}, "inner": [lhs, rhs]}

    def event(self, op, cell, mo=0):
        if cell not in CELLS:
            raise L.LeafError("synchronisation operation %s on an unknown object %s" % (op, cell))
        mul = {"kind": "BinaryOperator", "opcode": "*", "type": {"qualType": U64},
               "inner": [self.field("ev", U64), lit(1024, U64)]}
        add = {"kind": "BinaryOperator", "opcode": "+", "type": {"qualType": U64},
               "inner": [mul, lit(event_code(op, cell, mo), U64)]}
        return self.assign(self.field("ev", U64, rvalue=False), add, U64)

    # ---- expressions
    def member_of_arg(self, a):
        """the field name behind &p->f, p->f (pointer member) or &p->f.g"""
        n = a
        while n.get("kind") in ("ParenExpr", "ImplicitCastExpr", "CStyleCastExpr") or \
                (n.get("kind") == "UnaryOperator" and n.get("opcode") == "&"):
            n = n["inner"][-1]
        if n.get("kind") == "MemberExpr":
            return n["name"]
        raise L.LeafError("synchronisation operation on something that is not a member of the structure")

    def const_int(self, n):
        v = _const_value(n, self.enums)
        if v is None:
            raise L.LeafError("memory order argument is not a constant")
        return v

    def atomic(self, n, pre):
        """clang shows __atomic_load_n / __atomic_store_n as AtomicExpr without the builtin's name: a non-void
        expression with (pointer, order) is a load, a void one with (pointer, order, value) a store"""
        inner = n.get("inner", [])
        if len(inner) == 2 and qt(n) != "void":
            cell = self.member_of_arg(inner[0])
            pre.append(self.event("load", cell, self.const_int(inner[1])))
            return self.field(cell, U32)
        if len(inner) == 3 and qt(n) == "void":
            cell = self.member_of_arg(inner[0])
            val = self.rx(inner[2], pre)
            pre.append(self.event("store", cell, self.const_int(inner[1])))
            pre.append(self.assign(self.field(cell, U32, rvalue=False), val, U32))
            return None
        raise L.LeafError("atomic builtin other than load / store")

    def rx(self, n, pre):
        k = n.get("kind")
        if k == "CallExpr":
            return self.call(n, pre, want_value=True)
        if k == "AtomicExpr":
            return self.atomic(n, pre)
        if k == "DeclRefExpr":
            rd = n.get("referencedDecl", {})
            if rd.get("kind") == "EnumConstantDecl":
                if rd.get("name") not in self.enums:
                    raise L.LeafError("enum constant without a value: %s" % rd.get("name"))
                return lit(self.enums[rd["name"]], INT)
            m = dict(n)
            if is_voidp(qt(n)):
                m["type"] = {"qualType": U64}
            return m
        if k == "MemberExpr":
            base = n["inner"][0]
            b = base
            while b.get("kind") in ("ParenExpr", "ImplicitCastExpr") or (b.get("kind") == "MemberExpr" and not b.get("name")):
                b = b["inner"][-1] if b.get("kind") != "MemberExpr" else b["inner"][0]
            if n.get("name") == "data" and b.get("kind") == "ArraySubscriptExpr":
                arr = b["inner"][0]
                a = arr
                while a.get("kind") in ("ParenExpr", "ImplicitCastExpr"):
                    a = a["inner"][-1]
                if (a.get("kind") == "MemberExpr" and a.get("name") == "blocks") or \
                        (a.get("kind") == "DeclRefExpr" and a.get("referencedDecl", {}).get("name") in self.arr_alias):
                    return {"kind": "ArraySubscriptExpr", "type": {"qualType": U64},
                            "inner": [self.field("slot", U64 + " *"), self.rx(b["inner"][1], pre)]}
            if n.get("name") == "data" and b.get("kind") == "DeclRefExpr" and \
                    b.get("referencedDecl", {}).get("name") in self.elem_alias:
                iv = self.elem_alias[b["referencedDecl"]["name"]]
                idx = {"kind": "ImplicitCastExpr", "castKind": "LValueToRValue", "type": {"qualType": U32},
                       "inner": [{"kind": "DeclRefExpr", "type": {"qualType": U32},
                                  "referencedDecl": {"name": iv, "kind": "VarDecl"}}]}
                return {"kind": "ArraySubscriptExpr", "type": {"qualType": U64},
                        "inner": [self.field("slot", U64 + " *"), idx]}
            while b.get("kind") == "MemberExpr" and not b.get("name"):      # anonymous union / struct members
                b = b["inner"][0]
                while b.get("kind") in ("ParenExpr", "ImplicitCastExpr"):
                    b = b["inner"][-1]
            if b.get("kind") == "DeclRefExpr" and b.get("referencedDecl", {}).get("name") == self.p:
                m = dict(n)
                m["inner"] = [{"kind": "ImplicitCastExpr", "castKind": "LValueToRValue", "type": {"qualType": "struct *"},
                               "inner": [b]}]
                if is_voidp(qt(n)):
                    m["type"] = {"qualType": U64}
                if qt(n).replace(" ", "") == "void**":
                    m["type"] = {"qualType": U64 + " *"}
                return m
            # member of a member (front->cnt ...): a buffer pointer local is resolved by the caller (dbuf)
            m = dict(n)
            m["inner"] = [self.rx(c, pre) for c in n.get("inner", [])]
            return m
        if k in ("ImplicitCastExpr", "CStyleCastExpr"):
            ck = n.get("castKind")
            if ck == "NullToPointer":
                return lit(0, U64)
            if ck == "ToVoid":
                return None
            inner = self.rx(n["inner"][-1], pre)
            if ck in ("BitCast", "NoOp") and (is_voidp(qt(n)) or qt(n).replace(" ", "") == "void**"):
                return inner
            m = dict(n)
            if is_voidp(qt(n)):
                m["type"] = {"qualType": U64}
            if qt(n).replace(" ", "") == "void**":
                m["type"] = {"qualType": U64 + " *"}
            m["inner"] = [inner]
            return m
        if k == "ArraySubscriptExpr":
            m = dict(n)
            m["inner"] = [self.rx(c, pre) for c in n["inner"]]
            if is_voidp(qt(n)):
                m["type"] = {"qualType": U64}
            return m
        if k == "UnaryOperator" and n.get("opcode") in ("++", "--") and self.in_expr:
            if n.get("isPostfix"):
                raise L.LeafError("postfix ++ / -- inside an expression")
            target = self.rx(n["inner"][0], pre)
            pre.append({"kind": "UnaryOperator", "opcode": n["opcode"], "type": n.get("type", {"qualType": INT}),
                        "inner": [target]})
            return {"kind": "ImplicitCastExpr", "castKind": "LValueToRValue", "type": n.get("type", {"qualType": INT}),
                    "inner": [target]}
        if k == "ConditionalOperator" or k == "BinaryOperator" or k == "UnaryOperator" or k == "ParenExpr" \
                or k == "ConstantExpr" or k == "CompoundAssignOperator":
            m = dict(n)
            m["inner"] = [self.rx(c, pre) for c in n.get("inner", [])]
            if is_voidp(qt(n)):
                m["type"] = {"qualType": U64}
            return m
        if k in ("IntegerLiteral", "CharacterLiteral"):
            return n
        raise L.LeafError("unsupported expression kind %s" % k)

    def call(self, n, pre, want_value):
        f = n["inner"][0]
        while f.get("kind") in ("ParenExpr", "ImplicitCastExpr"):
            f = f["inner"][-1]
        args = n["inner"][1:]
        if f.get("kind") == "MemberExpr":          # p->fn_x(p, ...)
            nm = f.get("name")
            if nm not in CELLS:
                raise L.LeafError("call through an unknown function pointer member %s" % nm)
            for a in args[1:]:
                self.rx(a, pre)
            pre.append(self.event("call", nm))
            if nm == "fn_write":
                return self.field("in_fn_write", INT)
            if nm == "fn_read":
                return self.field("in_fn_read", U64)
            return None
        if f.get("kind") != "DeclRefExpr":
            raise L.LeafError("unsupported callee")
        nm = f.get("referencedDecl", {}).get("name")
        if nm == "__atomic_load_n":
            cell = self.member_of_arg(args[0])
            pre.append(self.event("load", cell, self.const_int(args[1])))
            return self.field(cell, qt(n) or U32)
        if nm == "__atomic_store_n":
            cell = self.member_of_arg(args[0])
            val = self.rx(args[1], pre)
            pre.append(self.event("store", cell, self.const_int(args[2])))
            pre.append(self.assign(self.field(cell, U32, rvalue=False), val, U32))
            return None
        if nm in PRIMS:
            op = PRIMS[nm]
            cell = self.member_of_arg(args[0])
            if op == "wait":
                pre.append(self.assign(self.field("waitv", U32, rvalue=False), self.rx(args[1], pre), U32))
            if op in ("wait", "cvwait"):
                pre.append(self.assign(self.field("waited", INT, rvalue=False), lit(event_code(op, cell), INT), INT))
            pre.append(self.event(op, cell))
            if want_value and op in ("mlock", "munlock", "mtrylock"):
                return lit(0, INT)          # the scheduler's mutex never fails
            return None
        if self.has_body(nm):
            return self.inline(nm, args, pre, want_value)
        raise L.LeafError("call of %s is outside the sliced dialect" % nm)

    def has_body(self, name):
        try:
            self.function(name)
            return True
        except L.LeafError:
            return False

    def is_p(self, a):
        while a.get("kind") in ("ParenExpr", "ImplicitCastExpr", "CStyleCastExpr"):
            a = a["inner"][-1]
        return a.get("kind") == "DeclRefExpr" and a.get("referencedDecl", {}).get("name") == self.p

    def rename(self, n, ren):
        if isinstance(n, list):
            return [self.rename(c, ren) for c in n]
        if not isinstance(n, dict):
            return n
        m = {k: (self.rename(v, ren) if k == "inner" else v) for k, v in n.items()}
        if n.get("kind") == "DeclRefExpr" and n.get("referencedDecl", {}).get("name") in ren:
            rd = dict(n["referencedDecl"])
            rd["name"] = ren[rd["name"]]
            m["referencedDecl"] = rd
        if n.get("kind") == "VarDecl" and n.get("name") in ren:
            m["name"] = ren[n["name"]]
        return m

    @staticmethod
    def contains(n, kind, stop=()):
        if not isinstance(n, dict):
            return False
        if n.get("kind") == kind:
            return True
        if n.get("kind") in stop:
            return False
        return any(Slicer.contains(c, kind, stop) for c in n.get("inner", []))

    def inline(self, nm, args, pre, want_value):
        if self.depth > 6:
            raise L.LeafError("helper nesting too deep at %s" % nm)
        fn = self.function(nm)
        parms = [c for c in fn.get("inner", []) if c.get("kind") == "ParmVarDecl"]
        body = [c for c in fn["inner"] if c.get("kind") == "CompoundStmt"][0]
        if len(parms) != len(args):
            raise L.LeafError("argument count mismatch calling %s" % nm)
        self.ninl += 1
        suf = "__i%d" % self.ninl
        ren = {}
        for p_, a in zip(parms, args):
            if qt(p_).endswith("*") and self.is_p(a):
                ren[p_["name"]] = self.p
                continue
            new = p_["name"] + suf
            ren[p_["name"]] = new
            if "muggle_channel_block" in qt(p_):
                pre += self.block_alias({"kind": "VarDecl", "name": new, "type": p_["type"], "inner": [a]}, pre) or []
                continue
            ty = U64 if is_voidp(qt(p_)) else qt(p_)
            v = self.rx(a, pre)
            pre.append({"kind": "DeclStmt", "inner": [{"kind": "VarDecl", "name": new, "type": {"qualType": ty},
                                                        "inner": [v if v is not None else lit(0, INT)]}]})

        def locals_of(n):
            if isinstance(n, dict):
                if n.get("kind") == "VarDecl":
                    ren.setdefault(n["name"], n["name"] + suf)
                for c in n.get("inner", []):
                    locals_of(c)
        locals_of(body)
        stmts = [x for x in self.rename(copy.deepcopy(body), ren).get("inner", []) if x.get("kind") != "NullStmt"]
        ret_expr = None
        if stmts and stmts[-1].get("kind") == "ReturnStmt":
            last = stmts.pop()
            ret_expr = last["inner"][0] if last.get("inner") else None
        if any(self.contains(x, "ReturnStmt") for x in stmts):
            raise L.LeafError("helper %s returns before its last statement" % nm)
        self.depth += 1
        saved, self.in_expr = self.in_expr, False
        try:
            for st in stmts:
                pre += self.rs(st)
            self.in_expr = saved
            val = None
            if ret_expr is not None:
                self.in_expr = True
                val = self.rx(ret_expr, pre)
                self.in_expr = saved
        finally:
            self.depth -= 1
            self.in_expr = saved
        return val if want_value else None

    def block_alias(self, d, pre):
        """`muggle_channel_block_t *b = p->blocks` / `= &p->blocks[i]` / `= p->blocks + i`: b is followed, not translated"""
        if "muggle_channel_block" not in qt(d) or not qt(d).endswith("*") or not d.get("inner"):
            return None
        e = d["inner"][-1]
        while e.get("kind") in ("ParenExpr", "ImplicitCastExpr", "CStyleCastExpr"):
            e = e["inner"][-1]

        def is_blocks(x):
            while x.get("kind") in ("ParenExpr", "ImplicitCastExpr"):
                x = x["inner"][-1]
            return (x.get("kind") == "MemberExpr" and x.get("name") == "blocks") or \
                (x.get("kind") == "DeclRefExpr" and x.get("referencedDecl", {}).get("name") in self.arr_alias)
        if is_blocks(e):
            self.arr_alias.add(d["name"])
            return []
        idx = None
        if e.get("kind") == "UnaryOperator" and e.get("opcode") == "&":
            x = e["inner"][0]
            while x.get("kind") in ("ParenExpr", "ImplicitCastExpr"):
                x = x["inner"][-1]
            if x.get("kind") == "ArraySubscriptExpr" and is_blocks(x["inner"][0]):
                idx = x["inner"][1]
        if e.get("kind") == "BinaryOperator" and e.get("opcode") == "+" and is_blocks(e["inner"][0]):
            idx = e["inner"][1]
        if idx is None:
            raise L.LeafError("pointer to a block computed in an unsupported way")
        self.nidx += 1
        iv = "blk_idx_%d" % self.nidx
        self.elem_alias[d["name"]] = iv
        return [{"kind": "VarDecl", "name": iv, "type": {"qualType": U32}, "inner": [self.rx(idx, pre)]}]

    # ---- statements
    def again(self):
        return [self.assign(self.field("again", INT, rvalue=False), lit(1, INT), INT),
                self.assign(self.field("ev", U64, rvalue=False), lit(0, U64), U64),
                {"kind": "ReturnStmt", "inner": [lit(0, INT)]} if self.ret != "void" else {"kind": "ReturnStmt", "inner": []}]

    def rs(self, s):
        k = s.get("kind")
        pre = []
        if k == "CompoundStmt":
            out = []
            inner = [c for c in s.get("inner", []) if isinstance(c, dict)]
            for i, c in enumerate(inner):
                out += self.rs(c)
                if self.brk and i + 1 < len(inner) and self.contains(c, "BreakStmt", ("WhileStmt", "ForStmt", "DoStmt", "SwitchStmt")):
                    rest = self.rs({"kind": "CompoundStmt", "inner": inner[i + 1:]})
                    out.append({"kind": "IfStmt", "inner": [self.not_broken(), {"kind": "CompoundStmt", "inner": rest}]})
                    break
            return out
        if k == "BreakStmt":
            if not self.brk:
                raise L.LeafError("break outside a sliced loop")
            return [self.assign({"kind": "DeclRefExpr", "type": {"qualType": INT},
                                 "referencedDecl": {"name": self.brk, "kind": "VarDecl"}}, lit(1, INT), INT)]
        if k == "NullStmt":
            return []
        if k == "DeclStmt":
            out = []
            for d in s.get("inner", []):
                if d.get("kind") != "VarDecl":
                    raise L.LeafError("unsupported declaration")
                al = self.block_alias(d, pre)
                if al is not None:
                    out += al
                    continue
                m = dict(d)
                if is_voidp(qt(d)):
                    m["type"] = {"qualType": U64}
                if d.get("inner"):
                    v = self.rx(d["inner"][-1], pre)
                    m["inner"] = [v if v is not None else lit(0, INT)]
                out.append(m)
            return pre + [{"kind": "DeclStmt", "inner": out}]
        if k == "CallExpr":
            self.call(s, pre, want_value=False)
            return pre
        if k == "AtomicExpr":
            self.atomic(s, pre)
            return pre
        if k in ("CStyleCastExpr", "ImplicitCastExpr", "ParenExpr") and (s.get("castKind") == "ToVoid" or k == "ParenExpr"):
            if s.get("castKind") == "ToVoid":
                return []
            return self.rs(s["inner"][-1])
        if k in ("BinaryOperator", "CompoundAssignOperator", "UnaryOperator"):
            if k == "UnaryOperator":
                m = dict(s)
                m["inner"] = [self.rx(s["inner"][0], pre)]
            else:
                m = dict(s)
                lhs = self.rx(s["inner"][0], pre)
                self.in_expr = True
                rhs = self.rx(s["inner"][1], pre)
                self.in_expr = False
                m["inner"] = [lhs, rhs]
            return pre + [m]
        if k == "ReturnStmt":
            if not s.get("inner"):
                return [s]
            v = self.rx(s["inner"][0], pre)
            return pre + [{"kind": "ReturnStmt", "inner": [v]}]
        if k == "IfStmt":
            inner = s["inner"]
            self.in_expr = True
            c = self.rx(inner[0], pre)
            self.in_expr = False
            m = {"kind": "IfStmt", "inner": [c, {"kind": "CompoundStmt", "inner": self.rs(inner[1])}]}
            if len(inner) > 2:
                m["inner"].append({"kind": "CompoundStmt", "inner": self.rs(inner[2])})
            return pre + [m]
        if k == "WhileStmt":
            self.in_expr = True
            c = self.rx(s["inner"][0], pre)
            self.in_expr = False
            decl, body = self.loop_body(s["inner"][1], [])
            return pre + decl + [{"kind": "IfStmt", "inner": [c, {"kind": "CompoundStmt", "inner": body}]}]
        if k == "ForStmt":
            init, _, cond, inc, body = (s["inner"] + [{}] * 5)[:5]
            out = self.rs(init) if init else []
            decl, b = self.loop_body(body, [inc] if inc else [])
            if cond:
                self.in_expr = True
                c = self.rx(cond, pre)
                self.in_expr = False
                return out + pre + decl + [{"kind": "IfStmt", "inner": [c, {"kind": "CompoundStmt", "inner": b}]}]
            return out + decl + b
        if k == "ContinueStmt":
            return self.again()
        raise L.LeafError("unsupported statement kind %s" % k)

    def not_broken(self):
        return {"kind": "BinaryOperator", "opcode": "==", "type": {"qualType": INT},
                "inner": [{"kind": "ImplicitCastExpr", "castKind": "LValueToRValue", "type": {"qualType": INT},
                           "inner": [{"kind": "DeclRefExpr", "type": {"qualType": INT},
                                      "referencedDecl": {"name": self.brk, "kind": "VarDecl"}}]}, lit(0, INT)]}

    def loop_body(self, body, tail):
        """one iteration of a loop body: (declarations to put before the loop, statements)"""
        stop = ("WhileStmt", "ForStmt", "DoStmt", "SwitchStmt")
        if not self.contains(body, "BreakStmt", stop):
            out = self.rs(body)
            for t in tail:
                out += self.rs(t)
            return [], out + self.again()
        self.nbrk += 1
        saved, self.brk = self.brk, "brk_%d" % self.nbrk
        try:
            decl = [{"kind": "DeclStmt", "inner": [{"kind": "VarDecl", "name": self.brk, "type": {"qualType": INT},
                                                    "inner": [lit(0, INT)]}]}]
            stmts = self.rs(body if body.get("kind") == "CompoundStmt" else {"kind": "CompoundStmt", "inner": [body]})
            end = []
            for t in tail:
                end += self.rs(t)
            stmts.append({"kind": "IfStmt", "inner": [self.not_broken(), {"kind": "CompoundStmt", "inner": end + self.again()}]})
        finally:
            self.brk = saved
        return decl, stmts

    def slice(self, name):
        fn = self.function(name)
        parms = [c for c in fn.get("inner", []) if c.get("kind") == "ParmVarDecl"]
        if not parms or not qt(parms[0]).endswith("*"):
            raise L.LeafError("%s: first parameter is not the structure pointer" % name)
        self.p = parms[0]["name"]
        rt = fn["type"]["qualType"].split("(")[0].strip()
        self.ret = "void" if rt == "void" else (U64 if is_voidp(rt) or rt.endswith("*") else rt)
        new_parms = []
        for p_ in parms:
            m = dict(p_)
            if p_ is not parms[0] and is_voidp(qt(p_)):
                m["type"] = {"qualType": U64}
            new_parms.append(m)
        body = [c for c in fn["inner"] if c.get("kind") == "CompoundStmt"][0]
        out = dict(fn)
        out["type"] = {"qualType": "%s (void)" % self.ret}
        out["inner"] = new_parms + [{"kind": "CompoundStmt", "inner": self.rs(body)}]
        return out


def translate_sliced(src, name, cflags, gname):
    """-> gallina text of the sliced function (lib/leaftrans on the rewritten AST)"""
    fn = Slicer(src, cflags).slice(name)
    t = L.Tr(fn, None, cflags)
    body = [c for c in fn["inner"] if c.get("kind") == "CompoundStmt"][0]
    rt = fn["type"]["qualType"].split("(")[0].strip()
    ret_kind = None if rt == "void" else "Z"
    t.all_written = []
    L.collect_written(body, t.all_written)
    for _ in range(3):
        t.all_written = sorted(set(t.all_written) | set(t.written))
        t.cnt = 0
        env = {p: p for p in t.params}
        code = t.stmts([body], env, ret_kind)
        if set(t.written) <= set(t.all_written):
            break
    code = re.sub(r"@FIELD:(\w+)@", r"\1", code)
    t.fields = sorted(t.fields)
    args = ["(%s : %s)" % (k, "list Z" if a else "Z") for k, a in t.fields] + ["(%s : Z)" % p for p in t.params]
    text = "Definition %s %s :=\n  %s.\n" % (gname, " ".join(args), code)
    return text, t.fields, t.params, t.all_written, ret_kind


if __name__ == "__main__":
    import sys
    flags = ["-std=gnu11", "-I" + V.REPO, "-I" + V.GEN_INC, "-DNDEBUG"]
    src = os.path.join(V.REPO, sys.argv[1])
    for nm in sys.argv[2:]:
        try:
            print(translate_sliced(src, nm, flags, "gen_" + nm)[0])
        except L.LeafError as e:
            print("LeafError %s: %s" % (nm, e))
