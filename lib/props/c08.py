"""C08 — shared-memory ring buffer: plugin for bin/check.

Two kinds of cases, one implementation driver binary (harness/drivers/c08_driver.c, built with
the vsched hooks; outside a scheduled thread the hooks are transparent):
  ring heap|shm <nbytes> ...   sequential op scripts (differential run against the extracted model); ops: alloc <nb>
                               (w_alloc_bytes) | alloccl <nb> <lines> (w_alloc_cachelines, explicit footprint) | write |
                               commit | fetch | rmove; the ring is created by muggle_shm_ringbuf_open on a segment of
                               exactly the size the library asked from muggle_shm_open
  conc <n> <locked> <kill> <tries> ...   1 reader + writers under the deterministic scheduler
                                          (trace acceptance by the extracted interleaving model)
  attach <nbytes> <tries> ...            the `ready` hand-over: creating process x attaching process polling
                                          muggle_shm_ringbuf_is_ready (trace acceptance by C08/ModelAttach.v)
"""
import os
import re
import vcommon as V

ID = "C08"
COQ_DIRS = ["C08"]
MODEL_BASE = "c08_model"
OCAML_DRIVER = "ocaml/c08_driver.ml"
OCAML_INCLUDES = ["ocaml/vsacc.ml.inc"]
C_DRIVER = "harness/drivers/c08_driver.c"
REPO_SOURCES = ["muggle/c/sync/shm_ring_buffer.c", "muggle/c/sync/shm.c", "muggle/c/sync/spinlock.c",
                "muggle/c/base/thread.c", "muggle/c/base/utils.c"]
HEADER_LINES = 1
CASE_TIMEOUT = 5.0
CL = 64
HDR = 8
RHDR = 960       # sizeof(muggle_shm_ringbuf_t); Properties_C08.v ties the model's literal to the headers of this run
PAGE = 4096
LEAVES = ["update_cached_remain", "w_alloc_cachelines", "w_alloc_bytes", "w_move", "r_fetch", "r_move"]
KNOWN_PREFIX = "drained ring refuses a message of at most half its size"

RULE = ("sequential: op scripts (alloc/alloccl/write/commit/fetch/rmove, protocol-guarded) on heap-backed rings of 4..64 cache "
        "lines opened through muggle_shm_ringbuf_open (the interposed muggle_shm_open hands out an ASan block of EXACTLY the "
        "segment size the library computed; requested sizes that are / are not powers of two, multiples of 64, multiples of "
        "4096, with laps over every announced line, also 128..512 lines) and on real SysV segments (smoke), message "
        "sizes 1 byte .. half the ring incl. the footprint boundaries 64k-8/64k-7, allocations through w_alloc_bytes and "
        "through w_alloc_cachelines with an explicit footprint (slack 0..n/4, fixed-size slots for variable payloads), a "
        "drained-position sweep (every "
        "reachable p x every need) and seeded random scripts steered to put the wrap marker at every slot; concurrent: "
        "1 reader + 1 writer (or 2..3 writers under the write lock) x seeded random schedules x writer killed after each "
        "of its visible operations (also 1..3 writers under the write lock with writer 1 killed after each of its operations - while "
        "holding the lock too - its sibling threads stopping at their next atomic operation), the ready hand-over (creating "
        "process x attaching process polling is_ready, random schedules + a sweep of the attacher's position), plus a full-ring release-window sweep (reader pre-empted at every point around its read_cursor store); non-trivial = the script wraps (marker placed) or refuses an allocation / the trace "
        "interleaves reader and writer inside a call; distinct = distinct script / trace text")
TRUSTED_BASE = [
    "modelled, not verified: the mmap/SysV key handling of shm.c (smoke-tested through muggle_shm_ringbuf_open on a real segment; bulk cases interpose muggle_shm_open with a heap block of exactly the requested segment size); uint32 cursor and size arithmetic is modelled with explicit mod 2^32; muggle_next_pow_of_2 inside muggle_shm_ringbuf_open is the Coq model of C20 (C20/Model.v model_npo2 with C20/ProofsNpo2.v; its tie to the C text is C20's obligation), compared with the code here by the differential run (ring sizes) only",
    "concurrent layer: sequentially consistent interleaving of the atomic cursor operations plus release/acquire views for the plain data lines (stand-in for C11; DRF-SC assumed), spinlock = test-and-set / clear with the orders extracted from the code; real weak-memory reorderings cannot be exhibited on x86 under a serialised run",
    "second tie (translator kind): lib/props/c08_slice.py slices the integer content of update_cached_remain, w_alloc_cachelines, w_alloc_bytes, w_move, r_fetch, r_move out of the clang JSON AST of the C text of this run (atomic builtins -> field reads/writes, header pointers followed back to line indices into two word arrays, file-local helpers inlined in continuation-passing style, pointer results projected to 0 / line+1) and the shared translator lib/leaftrans.py turns it into Gallina (coq/gen/Params_C08.v gen_*); obligations gen_*_matches_model prove them equal to reference functions on the whole ring domain by a shape-independent decision tactic, and the model's functions equal to the same references; trusted: clang 14 AST, the slicer and the translator",
    "muggle_shm_ringbuf_open is in the translator tie as well (lib/props/c08_slice.py OpenSlicer -> gen_open: the ring is what muggle_shm_open returns, its size argument is recorded, memset / release store become field assignments, the call of muggle_next_pow_of_2 stays an application of npo2): gen_open_matches_model proves the segment size and the initial fields equal to the model's open_sizes / init for every uint32 request",
    "read-before-overwrite direction (reader's reads complete before the writer reuses the lines; ghost c_rrace, theorem shm_conc_reads_complete_before_overwrite): two orderings are ACCEPTED, not proved from C11: (i) the writer's load of read_cursor in update_cached_remain is relaxed in the code; it is taken as the acquiring side of the reader's release store because every later store of the writer is control-dependent on the value loaded (hardware keeps load -> dependent store order; C11 formally wants acquire there); (ii) the store read_cursor := 0 in r_fetch is relaxed; it is executed only if the header just read is the wrap marker (control dependency), so that one read is counted as ordered before it (C11 formally wants release there as well).  What IS an obligation: r_move's store of read_cursor must be a release (mo_sufficient); with it relaxed the model has a history with an unpublished read overwritten (shm_conc_release_of_read_cursor_necessary) and model_search reports it",
    "the ready hand-over is a separate small interleaving model (C08/ModelAttach.v: plain initialisation, store of ready, attacher's loads of ready and magic, plain geometry reads, release/acquire views); the geometry is abstracted to n_cacheline, the driver checks the other fields it reads for consistency with it",
    "constants (cache line 64, header 8 bytes, field offsets, sizeof(muggle_shm_ringbuf_t) = 960, MUGGLE_SHM_FLAG_CREAT, footprint macro table 0..4224) and the memory orders of the cursor sites are re-extracted from the code into coq/gen/Params_C08.v on every run and discharged by Properties_C08.v",
]
ASSUMPTIONS = ["message length >= 1 in the property theorems (hypothesis `sized`; a length of 0 is executed by model and drivers as the code executes it, see EVIDENCE_NOTES); one reader; writers serialised by the write lock; "
               "w_move directly follows the successful w_alloc_bytes / w_alloc_cachelines of that message; r_move follows a successful "
               "r_fetch; n_cacheline < 2^31; an explicit footprint passed to w_alloc_cachelines is at least "
               "MUGGLE_SHM_RINGBUF_CAL_BYTES_CACHELINE(n_bytes) and < 2^31; ring requests of 1 byte .. 2^31 bytes (above that "
               "n_cacheline * 64 wraps in uint32: outside the property's quantifier, not claimed)"]
EVIDENCE_NOTES = [
    "sequential theorems proved in full (shm_seq_refines_fifo, shm_alloc_no_overlap, shm_indices_in_range, shm_drained_accepts_partial with the exact iff, shm_drained_half_refuted); the property's clause 'a drained ring accepts up to half its size' is REFUTED (known finding drained-half)",
    "the op lists of the sequential theorems contain both allocation entry points: OAlloc (w_alloc_bytes) and OAllocCl nb nc (w_alloc_cachelines with ANY footprint nc >= CAL_BYTES_CACHELINE(nb), nc < 2^31; the ghost message carries the footprint stored in its header, which is what w_move and r_move advance by); shm_alloc_cl_no_overlap (the whole of [a, a+nc) is free) and shm_drained_accepts_cl (accepted iff nc <= max(n-1-p, p-1)) are the explicit-footprint forms (seeded C08-9: r_move recomputing the stride from n_bytes)",
    "muggle_shm_ringbuf_open: shm_open_segment_holds_ring (for every request of 1 .. 2^31 bytes: n_cacheline is the least power of two holding the request, n_bytes = 64 n, the segment asked from muggle_shm_open is a multiple of 4096 with header + whole data area inside it) over the model's open_sizes, which gen_open_matches_model ties to the C text (seeded C08-10: segment size computed before the power-of-two rounding); both drivers create every ring through this computation (the model driver through the extracted open_sizes)",
    "OBSERVATION outside the property's quantifier (message sizes 1 byte .. half the ring; not a finding against the property): muggle_shm_ringbuf_w_alloc_bytes(rb, 0) / w_alloc_cachelines(rb, 0, n) return a pointer; the header of such a message (n_bytes = 0) is the wrap marker's encoding, so once it is committed every r_fetch takes it for the marker, sets read_cursor to 0 and (if line 0 holds an old header) delivers the first, already consumed message again after every r_move - the 0-byte message and everything committed after it are never delivered; with read_cursor = 0 at that moment fetch answers NULL for ever.  Shown on the unchanged code by the cases zero-* of the generator (e.g. zero-after-consume: ring of 16 lines, 5 bytes sent and consumed, alloc 0 + commit, then three fetches each deliver the 5-byte message at offset 8) and in Coq by shm_zero_length_observation.  The model executes length 0 exactly as the code does (step's guard is 0 <= nb), both drivers pass it on and are compared on it, the translator tie covers the guard-less code (0 <= nb < 2^31), the property theorems carry the hypothesis `sized` (every allocation >= 1 byte), and the monitor abstains from the delivery clauses from the moment a 0-byte message is committed",
    "reader -> writer direction: shm_conc_reads_complete_before_overwrite (every reachable state, every interleaving, any number of locked writers, every kill point: no writer stores into a line whose latest plain read by the reader is not known to that writer to be complete; invariant RC of C08/ProofsConcRead.v: unpublished reads are confined to the lines the reader still owns, every line in a writer's knowledge room - cached room, room derived from the loaded read cursor, room received with the lock - has its latest read known to that writer) under mo_sufficient, which now includes is_rel(mo_r_store_move); refuted with that store relaxed by shm_conc_release_of_read_cursor_necessary; when the extracted order is weaker the obligation shm_conc_memory_orders_sufficient breaks and model_search explores the model for a history with c_rrace > 0",
    "ready hand-over: the three sites (store of ready in muggle_shm_ringbuf_open, loads of ready and magic in muggle_shm_ringbuf_is_ready) are extracted like the cursor sites (code_aparams, an unobserved site is MoNone = failed obligation); shm_attach_reads_initialised_geometry: under every interleaving of creator and attacher, whenever is_ready answers true the geometry read afterwards is the creator's and covered by the attacher's view; shm_attach_orders_necessary refutes both relaxations; tie = trace acceptance of the attach scenario (creating process and attaching process on one zero-filled segment) + independent monitor (geometry announced = geometry read, consistent fields)",
    "writer death while holding the write lock is now also exercised (not only a theorem): cases cklk-* kill writer 1 of 1..3 locked writers after each of its atomic operations; the model's kill switch makes the sibling writer threads stop at their next atomic operation (proc_dead), the reachable-state invariant and the read-coverage invariant cover that step (kill_inv, rc_kill)",
    "concurrent layer: the writers of the interleaving model allocate through w_alloc_bytes only (footprint = CAL_BYTES_CACHELINE(n_bytes)); explicit footprints are covered by the sequential theorems and the sequential differential run",
    "concurrent layer proved in full: shm_conc_inv_reachable (reachable-state invariant CInv of C08/ProofsConcInv.v for every schedule, ring size, number of writers under the write lock or one writer without it, script, retry bound and kill point; consequences: no uncovered plain read under the extracted memory orders, no store into an unread message or the live marker, delivered is a prefix of committed with exact line / length / payload tag, unread messages intact in memory) and shm_crash_safe as its corollary (any schedule followed by reader-only steps); shm_reader_only_frame holds from any state.  The interleaving model is tied to the code on every run by trace acceptance (1 reader + 1 writer, 2-3 locked writers, writer killed after each atomic operation) with the model's ghost monitors and the independent trace monitor",
    "release window: the concurrent generator contains a deterministic pre-emption sweep on a FULL ring (writer polling w_alloc for the lines the reader is about to release, reader stopped at every scheduling point around its read_cursor store, explicit schedules): plain accesses after the last atomic operation of r_move belong to the next plain segment of the reader and are separated from the store by a scheduling point (vs_after), so a store / read of the released line after the release is exposed; refuted variant shm_reader_wipe_after_release_refuted (seeded C08-8) violates the reader frame clause rstep_frame / shm_reader_only_frame",
    "translator tie: an edit of shm_ring_buffer.c that changes the value of cached_remain / write_cursor / read_cursor / the cached header line / the header words written / the NULL-or-line result of one of the six functions anywhere in the domain, or makes it unsliceable, breaks a gen_*_matches_model obligation even when no generated history reaches the difference; guard clauses, hoisted locals, helper functions and signed/unsigned reformulations with the same value keep it (checked on refactored/C08-A, C08-B).  Not in the translator tie (differential + trace acceptance only): the payload bytes, the memory orders (extracted separately), is_ready, the body of muggle_next_pow_of_2 (C20)",
    "not covered by theorems (modelled): payload bytes are abstracted to a tag per message in the interleaving model (byte-exactness is proved in the sequential model and checked by the drivers); the SC + release/acquire-view memory model stands in for C11",
]


def need_of(nb):
    return (HDR + nb + CL - 1) // CL + 2


def pat(seed, i):
    return (seed * 31 + i * 7 + (i >> 8) * 13 + 1) & 0xFF


def pow2_lines(nbytes):
    lines = (nbytes + CL - 1) // CL
    n = 1
    while n < lines:
        n *= 2
    return n


# ---------------------------------------------------------------------------
# build

def build_impl(ctx):
    # the extracted model must follow Model.v edits: Extract.vo is not a dependency of the
    # property file, so rebuild it here when stale
    V.coq_make(["C08/Extract.vo"], timeout=900)
    return V.build_vsched_driver(ID, C_DRIVER, REPO_SOURCES, extra_wraps=["vs_after", "muggle_shm_open"])


MO = {"rlx": "Rlx", "con": "Con", "acq": "Acq", "rel": "Rel", "acqrel": "AcqRel", "sc": "SeqCst", "none": "MoNone"}
SITES = [  # (params field, function, op, cell)
    ("mo_w_load_r", "muggle_shm_ringbuf_update_cached_remain", "load", "rcur"),
    ("mo_w_store_wrap", "muggle_shm_ringbuf_update_cached_remain", "store", "wcur"),
    ("mo_w_store_commit", "muggle_shm_ringbuf_w_move", "store", "wcur"),
    ("mo_r_load_w", "muggle_shm_ringbuf_r_fetch", "load", "wcur"),
    ("mo_r_store_wrap", "muggle_shm_ringbuf_r_fetch", "store", "rcur"),
    ("mo_r_store_move", "muggle_shm_ringbuf_r_move", "store", "rcur"),
    ("mo_lock_tas", "muggle_spinlock_lock", "tas", "wlock"),
    ("mo_lock_clear", "muggle_spinlock_unlock", "clear", "wlock"),
]


ASITES = [  # (aparams field, function, op, cell)
    ("mo_open_store_ready", "muggle_shm_ringbuf_open", "store", "ready"),
    ("mo_ready_load", "muggle_shm_ringbuf_is_ready", "load", "ready"),
    ("mo_magic_load", "muggle_shm_ringbuf_is_ready", "load", "magic"),
]


def _discovery_cases():
    return [V.Case("disc-attach", ["attach 512 3", "sched rand 5 40 0 0"]),
            V.Case("disc-1w", ["conc 8 0 -1 3", "writer 1:1 1:2 1:3 1:4 1:5 1:6", "sched rand 3 50 0 0"]),
            V.Case("disc-2w", ["conc 16 1 -1 3", "writer 1:1 60:2 1:3", "writer 100:4 1:5", "sched rand 4 30 0 0"])]


def _site_orders(exe):
    """memory orders actually passed by the code at each site; the wrap stores (wcur := 0 in
    update_cached_remain, rcur := 0 in r_fetch) are told apart from the commit / consume stores by the
    value 0, which a commit (w + n, n >= 3) or a consume (r + n) never stores."""
    res = V.run_batch(exe, _discovery_cases(), per_case_timeout=10.0)
    seen = {}
    for name, r in res.items():
        for ln in r["lines"]:
            w = ln.split()
            if len(w) >= 8 and w[0] == "E":
                tid, op, cell, mo = w[1], w[2], w[3], w[4]
                key = None
                if op == "load" and cell == "rcur":
                    key = "mo_w_load_r"
                elif op == "store" and cell == "wcur":
                    key = "mo_w_store_wrap" if w[5] == "0" else "mo_w_store_commit"
                elif op == "load" and cell == "wcur":
                    key = "mo_r_load_w"
                elif op == "store" and cell == "rcur":
                    key = "mo_r_store_wrap" if w[5] == "0" else "mo_r_store_move"
                elif op == "tas" and cell == "wlock":
                    key = "mo_lock_tas"
                elif op == "clear" and cell == "wlock":
                    key = "mo_lock_clear"
                elif op == "store" and cell == "ready":
                    key = "mo_open_store_ready"
                elif op == "load" and cell == "ready":
                    key = "mo_ready_load"
                elif op == "load" and cell == "magic":
                    key = "mo_magic_load"
                if key:
                    seen.setdefault(key, set()).add(mo)
    return seen


def gen_params(ctx):
    V.gen_config_header()
    outdir = os.path.join(V.BUILD, ID)
    os.makedirs(outdir, exist_ok=True)
    exe = os.path.join(outdir, "params.%d" % os.getpid())
    rc, out, err = V.sh([V.CC, "-std=gnu11", "-w", "-I" + V.REPO, "-I" + V.GEN_INC,
                         os.path.join(V.VERIF, "harness/drivers/c08_params.c"), "-o", exe], timeout=120)
    vals, table = {}, []
    if rc == 0:
        rc, out, err = V.sh([exe], timeout=20)
        for ln in out.split("\n"):
            w = ln.split()
            if not w:
                continue
            if w[0] == "cal":
                table = w[1:]
            elif len(w) == 2:
                vals[w[0]] = w[1]
    try:
        os.remove(exe)
    except OSError:
        pass

    def g(k):
        return vals.get(k, "(-1)")
    lines = ["(* generated by lib/props/c08.py from the headers and the executed code of this run; do not edit *)",
             "From Coq Require Import ZArith List.", "From MV Require Import C08.ModelConc.",
             "Import ListNotations.", "Local Open Scope Z_scope.",
             "Definition code_cache_line : Z := %s." % g("cache_line"),
             "Definition code_hdr_size : Z := %s." % g("hdr_size"),
             "Definition code_off_nbytes : Z := %s." % g("off_nbytes"),
             "Definition code_off_ncl : Z := %s." % g("off_ncl"),
             "Definition code_ring_hdr_size : Z := %s." % g("ring_hdr_size"),
             "Definition code_flag_creat : Z := %s." % g("flag_creat"),
             "(* MUGGLE_SHM_RINGBUF_CAL_BYTES_CACHELINE(k) for k = 0 .. %d *)" % (len(table) - 1),
             "Definition code_cal_table : list Z := [%s]." % "; ".join(table)]
    # memory orders observed at the cursor / lock sites
    seen = {}
    try:
        seen = _site_orders(build_impl(ctx))
    except Exception as e:   # the build error is reported by the build step proper
        lines.append("(* memory orders not observed: %s *)" % str(e)[:200].replace("*)", "* )"))
    fields = []
    for field, fn, op, cell in SITES:
        mos = seen.get(field, set())
        if len(mos) != 1:
            lines.append("(* site %s (%s %s %s): observed %s *)" % (field, fn, op, cell, sorted(mos)))
            fields.append("%s := MoNone" % field)
        else:
            fields.append("%s := %s" % (field, MO.get(next(iter(mos)), "MoNone")))
    lines.append("Definition code_params : params :=\n  {| " + ";\n     ".join(fields) + " |}.")
    # the three sites of the ready hand-over (muggle_shm_ringbuf_open / muggle_shm_ringbuf_is_ready)
    lines.append("From MV Require Import C08.ModelAttach.")
    afields = []
    for field, fn, op, cell in ASITES:
        mos = seen.get(field, set())
        if len(mos) != 1:
            lines.append("(* site %s (%s %s %s): observed %s *)" % (field, fn, op, cell, sorted(mos)))
            afields.append("%s := MoNone" % field)
        else:
            afields.append("%s := %s" % (field, MO.get(next(iter(mos)), "MoNone")))
    lines.append("Definition code_aparams : aparams :=\n  {| " + ";\n     ".join(afields) + " |}.")
    # second tie (DESIGN.md 4.4): the integer content of the six functions, sliced out of the C text of this
    # run (lib/props/c08_slice.py) and translated by the shared translator lib/leaftrans.py
    lines.append("")
    lines.append("(* --- integer leaves re-translated from muggle/c/sync/shm_ring_buffer.c on this run --- *)")
    lines.append("From MV Require Import Lib.Leaf.")
    import leaftrans as L
    from props import c08_slice as S
    flags = ["-std=gnu11", "-I" + V.REPO, "-I" + V.GEN_INC, "-DNDEBUG"]
    src = os.path.join(V.REPO, REPO_SOURCES[0])
    sizeofs = {}
    # sizes as printed by the params program of this run (the block type of the .c file is
    # static_asserted there to be one cache line)
    for ty, key in (("muggle_shm_ringbuf_data_hdr_t", "hdr_size"), ("muggle_shm_ringbuf_t", "ring_hdr_size"),
                    ("muggle_shm_ringbuf_block_t", "cache_line")):
        if vals.get(key, "").isdigit():
            sizeofs[ty] = int(vals[key])
    for leaf in LEAVES:
        try:
            lines.append(S.translate_sliced(src, "muggle_shm_ringbuf_" + leaf, flags, "gen_" + leaf, sizeofs)[0])
        except L.LeafError as e:
            lines.append("(* slicer / translator error for %s: %s *)\n" % (leaf, str(e).replace("*)", "* )")))
        except Exception as e:      # a broken AST must break the obligation, not the machinery
            lines.append("(* slicer failure for %s: %s *)\n" % (leaf, str(e)[:200].replace("*)", "* )")))
    # muggle_shm_ringbuf_open: the size computation and the initial field values (lib/props/c08_slice.py OpenSlicer)
    lines.append("(* --- muggle_shm_ringbuf_open: segment size asked from muggle_shm_open and the initial ring fields --- *)")
    lines.append("From MV Require Import C08.Model.")
    try:
        enums = {"MUGGLE_SHM_FLAG_CREAT": int(vals["flag_creat"]), "MUGGLE_SHM_FLAG_OPEN": int(vals["flag_open"])}
        lines.append(S.translate_open(src, "muggle_shm_ringbuf_open", flags, "gen_open", sizeofs, enums)[0])
    except L.LeafError as e:
        lines.append("(* slicer / translator error for open: %s *)\n" % str(e).replace("*)", "* )"))
    except Exception as e:
        lines.append("(* slicer failure for open: %s *)\n" % str(e)[:200].replace("*)", "* )"))
    return "\n".join(lines) + "\n"


# ---------------------------------------------------------------------------
# cases

def _seq(name, kind, nbytes, ops, meta=None):
    m = {"kind": "seq", "n": pow2_lines(nbytes)}
    m.update(meta or {})
    return V.Case(name, ["ring %s %d" % (kind, nbytes)] + list(ops), m)


def _send(nb, seed):
    return ["alloc %d" % nb, "write 0 %d %d" % (nb, seed), "commit"]


def _sendcl(nb, nc, seed):
    """w_alloc_cachelines with an explicit footprint of nc lines (>= need_of(nb))"""
    return ["alloccl %d %d" % (nb, nc), "write 0 %d %d" % (nb, seed), "commit"]


def _lap_script(n, laps=2):
    """traffic that walks the write cursor over every line of the ring (several laps): messages of about n/8
    lines (at least 3), each consumed at once, so that a ring whose announced size exceeds its segment is
    actually written and read behind the end of the segment"""
    k = max(3, n // 8)
    nb = CL * (k - 2) - HDR
    ops = []
    count = (laps * n) // k + 2
    for i in range(count):
        ops += _send(nb, i + 1) + ["fetch", "rmove"]
    return ops + ["fetch"]


def corpus_cases(ctx):
    cs = []
    # the three patterns of test/shm_ringbuf plus wrap-marker and refusal boundaries
    cs.append(_seq("corpus-fill-drain-fill", "heap", 16 * CL,
                   sum([_send(8, i) for i in range(6)], []) + ["fetch", "rmove"] * 6 + sum([_send(8, 9 + i) for i in range(6)], []) + ["fetch", "rmove"] * 7))
    cs.append(_seq("corpus-wrap-marker", "heap", 8 * CL,
                   _send(1, 1) + ["fetch", "rmove"] + _send(1, 2) + ["fetch"] + _send(1, 3) + ["rmove", "fetch", "rmove", "fetch", "rmove", "fetch"]))
    cs.append(_seq("corpus-uncommitted-wrap", "heap", 8 * CL,
                   _send(1, 1) + _send(1, 2) + ["fetch", "rmove", "fetch", "alloc 1", "fetch", "rmove", "fetch", "write 0 1 5", "commit", "fetch", "rmove", "fetch"]))
    cs.append(_seq("corpus-realloc", "heap", 16 * CL,
                   ["alloc 10", "write 0 10 1", "alloc 200", "write 0 200 2", "alloc 5000", "commit", "commit", "fetch", "fetch", "rmove", "rmove", "fetch"]))
    cs.append(_seq("corpus-shm-smoke", "shm", 16 * CL,
                   _send(100, 3) + _send(1, 4) + ["fetch", "rmove", "fetch", "rmove", "fetch"] + _send(300, 5) + ["fetch", "rmove"]))
    d = os.path.join(V.VERIF, "corpus", ID)
    if os.path.isdir(d):
        for f in sorted(os.listdir(d)):
            if f.endswith(".case"):
                cs.append(V.Case.load(os.path.join(d, f)))
    cs.append(_seq("corpus-shm-round-up", "shm", 5 * CL + 1, _send(40, 1) + ["fetch", "rmove"] + _send(56, 2) + ["fetch", "rmove", "fetch"]))
    # corpus/C08/*.case (loaded above) holds the regressions for explicit footprints (cl-fixed-slots, cl-slack-wrap:
    # w_alloc_cachelines with slack) and for ring sizes that are not a power of two (open-3136, open-20480)
    for nb_ in (33 * CL + 1, PAGE - RHDR + 1):
        cs.append(_seq("corpus-open-%d" % nb_, "heap", nb_, _lap_script(pow2_lines(nb_))))
    return cs


class _Pred:
    """Generator-side predictor of the ring position (NOT used by the monitor): only steers the random
    scripts (which sizes hit the wrap, when the ring is drained) so that coverage does not depend on luck."""

    def __init__(self, n):
        self.n, self.w, self.r, self.c = n, 0, 0, n - 1
        self.q = []          # (line, need) committed unread
        self.pend = None     # need of the outstanding allocation
        self.fetched = False
        self.marker = None

    def alloc(self, nb, need=None):
        need = need_of(nb) if need is None else need
        if self.c < need:
            if self.r > self.w:
                self.c = self.r - self.w - 1
            else:
                right, left = self.n - self.w - 1, self.r - 1
                if right >= need:
                    self.c = right
                elif left >= need:
                    self.marker, self.w, self.c = self.w, 0, left
            if self.c < need:
                return False
        self.pend = need
        return True

    def commit(self):
        if self.pend is None:
            return
        self.q.append((self.w, self.pend))
        self.w += self.pend
        self.c -= self.pend
        self.pend = None

    def fetch(self):
        if self.w == self.r:
            return False
        if self.q and self.q[0][0] == self.r:
            self.fetched = True
            return True
        if self.w == 0:
            return False
        self.r = 0
        self.marker = None
        if self.q:
            self.fetched = True
            return True
        return False

    def rmove(self):
        if self.fetched:
            a, k = self.q.pop(0)
            self.r = a + k
            self.fetched = False

    def drained(self):
        return not self.q and self.pend is None and self.w == self.r


def _sizes(n):
    half = (CL // 2) * n
    b = [1, 2, 55, 56, 57, 119, 120, 121, 183, 184, 185]
    for k in range(1, n):
        b += [CL * k - HDR - 1, CL * k - HDR, CL * k - HDR + 1]
    return sorted(set(x for x in b if 1 <= x <= half) | {half, half - 1})


def _random_script(rng, n, nops, safe, cl=True):
    P = _Pred(n)
    ops = []
    sizes = _sizes(n)
    half = (CL // 2) * n
    seed = rng.below(200)
    wbias = rng.choice([30, 50, 70])
    # how the writer asks for room: w_alloc_bytes only / w_alloc_cachelines with some slack now and then /
    # fixed-size slots of `slot` lines for variable payloads (footprint != CAL_BYTES_CACHELINE(n_bytes))
    mode = rng.choice(["bytes", "bytes", "mixed", "mixed", "slots"]) if cl else "bytes"
    slot = rng.range(3, max(3, min(8, n // 2)))
    for _ in range(nops):
        x = rng.below(100)
        if x < wbias:
            for _try in range(6):
                nb = rng.choice(sizes) if rng.chance(1, 2) else (rng.range(1, min(half, 130)) if rng.chance(2, 3) else rng.range(1, half))
                need = None
                if mode == "slots":
                    nb = rng.range(1, CL * (slot - 2) - HDR)
                    need = slot
                elif mode == "mixed" and rng.chance(1, 2):
                    need = need_of(nb) + rng.choice([0, 1, 1, 2, 3, rng.below(max(1, n // 4))])
                if not (safe and P.drained() and (need or need_of(nb)) > max(n - 1 - P.w, P.w - 1)):
                    break
            else:
                continue
            ops.append("alloc %d" % nb if need is None else "alloccl %d %d" % (nb, need))
            ok = P.alloc(nb, need)
            if ok:
                seed += 1
                if rng.chance(9, 10):
                    ops.append("write 0 %d %d" % (nb, seed))
                else:
                    a = rng.below(nb)
                    ops.append("write %d %d %d" % (a, rng.range(0, nb - a), seed))
                if rng.chance(9, 10):
                    ops.append("commit")
                    P.commit()
        elif x < wbias + 8:
            ops.append(rng.choice(["commit", "write 0 1 3", "rmove", "alloc -1", "write 5 5000 1", "alloccl 1 2", "alloccl 100 3"]))
            if ops[-1] == "commit":
                P.commit()
            elif ops[-1] == "rmove":
                P.rmove()
        else:
            ops.append("fetch")
            if P.fetch() and rng.chance(9, 10):
                ops.append("rmove")
                P.rmove()
    ops += ["fetch", "rmove"] * (len(P.q) + 2)
    return ops


def _drained_sweep(tier):
    """drain the ring at every reachable position p (both directly and after a wrap), then ask once for
    every footprint: accepted iff need <= max(n-1-p, p-1)."""
    cases = []
    for n in (4, 8, 16, 32, 64):
        half = (CL // 2) * n
        needs = [k for k in range(3, n + 2)]
        for p in range(0, n):
            # reach p with messages of footprint >= 3 starting at 0 (p = 0, 3, 4, ..., n-1)
            if p in (1, 2):
                continue
            parts, rest = [], p
            while rest >= 6:
                parts.append(3)
                rest -= 3
            if rest:
                parts.append(rest)
            if any(k < 3 for k in parts):
                continue
            pre = []
            for i, k in enumerate(parts):
                nb = CL * (k - 2) - HDR
                pre += _send(nb, i) + ["fetch", "rmove"]
            step = 1 if (tier != "quick" or n <= 16) else 3
            for need in needs[::step] + [n // 2 - 1, n // 2, n // 2 + 1]:
                if need < 3:
                    continue
                nb = CL * (need - 2) - HDR
                if nb < 1:
                    continue
                fits = need <= max(n - 1 - p, p - 1)
                cases.append(_seq("drain-n%d-p%d-need%d" % (n, p, need), "heap", n * CL,
                                  pre + ["alloc %d" % nb, "write 0 %d 77" % nb, "commit", "fetch", "rmove", "fetch", "alloc %d" % nb],
                                  {"sweep": True, "fits": fits, "half": nb <= half}))
    return cases


def _zero_length_cases():
    """OUTSIDE the property's quantifier (sizes 1 byte .. half the ring): a message of length 0, whose header is the
    wrap marker's encoding.  The model executes it as the code does, so both sides are compared on these histories;
    the monitor abstains from the delivery clauses once such a message is committed."""
    cs = []
    cs.append(_seq("zero-after-consume", "heap", 16 * CL,
                   _send(5, 1) + ["fetch", "rmove", "alloc 0", "commit", "fetch", "rmove", "fetch", "rmove", "fetch"] + _send(9, 2) + ["fetch"]))
    cs.append(_seq("zero-first", "heap", 8 * CL, ["alloc 0", "commit", "fetch", "fetch"] + _send(3, 1) + ["fetch", "fetch"]))
    cs.append(_seq("zero-uncommitted", "heap", 8 * CL, ["alloc 0", "write 0 0 1", "alloc 7", "write 0 7 2", "commit", "fetch", "rmove", "fetch"]))
    cs.append(_seq("zero-cl", "heap", 16 * CL, _send(20, 1) + ["alloccl 0 4", "commit", "fetch", "rmove", "fetch", "rmove", "fetch"]))
    cs.append(_seq("zero-pending", "heap", 16 * CL, _send(20, 1) + _send(30, 2) + ["fetch", "rmove", "alloc 0", "commit", "fetch", "rmove", "fetch", "rmove", "fetch"]))
    cs.append(_seq("zero-refused", "heap", 4 * CL, _send(1, 1) + ["alloc 0", "fetch", "rmove", "alloc 0", "commit", "fetch"]))
    return cs


def _open_sweep(tier):
    """ring sizes through muggle_shm_ringbuf_open: powers of two, not powers of two, not multiples of 64, around the
    points where the 4K rounding of the segment changes; every line of the announced ring is written and read"""
    sizes = [1, 63, 64, 65, 3 * CL, 4 * CL, 5 * CL - 1, 8 * CL, 9 * CL, 17 * CL + 5, 32 * CL, 33 * CL, 40 * CL + 1,
             48 * CL, PAGE - RHDR, PAGE - RHDR + 1, 49 * CL, 49 * CL + 1, 50 * CL, 63 * CL + 63, 64 * CL]
    if tier != "quick":
        sizes += [65 * CL, 100 * CL, 2 * PAGE - RHDR, 2 * PAGE - RHDR + 1, 2 * PAGE, 3 * PAGE, 5 * PAGE, 5 * PAGE + 1, 8 * PAGE]
    else:
        sizes += [2 * PAGE - RHDR + 1, 5 * PAGE]
    return [_seq("open-%d" % nb, "heap", nb, _lap_script(pow2_lines(nb)), {"safe": True}) for nb in sizes]


def generate(rng, tier):
    cases = []
    cases += _drained_sweep(tier)
    cases += _open_sweep(tier)
    cases += _zero_length_cases()
    nrand = 700 if tier == "quick" else 12000
    for i in range(nrand):
        n = rng.choice([4, 8, 8, 16, 16, 32, 64])
        safe = not rng.chance(1, 7)
        nbytes = n * CL if rng.chance(4, 5) else rng.range((n // 2) * CL + 1, n * CL)
        nops = rng.range(5, 40 if tier == "quick" else 120)
        cases.append(_seq("rnd-%d" % i, "heap", nbytes, _random_script(rng, n, nops, safe), {"safe": safe}))
    for i in range(3 if tier == "quick" else 20):
        n = rng.choice([8, 16, 64])
        cases.append(_seq("shm-%d" % i, "shm", n * CL, _random_script(rng, n, 30, True), {"safe": True}))
    cases += _conc_cases(rng, tier)
    return cases


def search(rng, diverging, tier):
    out = list(_open_sweep("thorough"))
    for i in range(3000):
        n = rng.choice([4, 8, 8, 16, 32, 64])
        nbytes = n * CL if rng.chance(3, 4) else rng.range((n // 2) * CL + 1, n * CL)
        out.append(_seq("search-%d" % i, "heap", nbytes, _random_script(rng, n, rng.range(4, 30), True), {"safe": True}))
    return out


# ---------------------------------------------------------------------------
# independent monitor (sequential): a plain deque of committed messages, offsets for overlap

def _parse_state(ln):
    body, _, st = ln.partition(" | ")
    return body.split(), [int(x) for x in st.split()] if st else None


def _mon_seq(case, lines):
    if not lines:
        return "no output"
    hw = case.lines[0].split()
    nbytes = int(hw[2])
    n = pow2_lines(nbytes)
    w0, st = _parse_state(lines[0])
    if w0[:1] != ["open"] or len(w0) < 6 or not all(x.isdigit() for x in w0[1:6]):
        return "open failed: %r" % lines[0]
    if int(w0[1]) != n or int(w0[2]) != n * CL or w0[3] != "1":
        return ("open: ring of %s lines / %s bytes ready=%s for a request of %d bytes (expected %d lines = the least power of two "
                "holding the request)" % (w0[1], w0[2], w0[3], nbytes, n))
    seg, tot = int(w0[4]), int(w0[5])
    if RHDR + CL * n > seg:
        return ("open: the ring announces %d cache lines (%d data bytes + %d header bytes = %d) but the segment asked from "
                "muggle_shm_open has only %d bytes: the writer is eventually handed a region outside the shared memory"
                % (n, CL * n, RHDR, RHDR + CL * n, seg))
    # (the 4K rounding of the segment and the total_bytes field are not part of the property: they are compared with
    #  the model by the differential run and tied to the C text by gen_open_matches_model)
    if st != [0, 0, n - 1]:
        return "open: cursors %r, expected [0, 0, %d]" % (st, n - 1)
    data = n * CL
    half = data // 2
    from collections import deque
    q = deque()            # committed unread: dict(off, nb, line, need, bytes(list with None = not written), gen)
    pend = None            # outstanding allocation
    fetched = False
    gen = 0                # number of wraps so far
    marker = None          # (line, gen) of the wrap marker the reader may still look at
    w_mon = r_mon = 0      # line positions implied by the offsets the implementation returned
    known = None
    zero_pending = False   # the outstanding allocation is a message of length 0
    ops = [l for l in case.lines[1:] if l.split()]
    if len(lines) - 1 != len(ops):
        return "expected %d result lines, got %d" % (len(ops), len(lines) - 1)
    for k, (ol, rl) in enumerate(zip(ops, lines[1:]), 1):
        o = ol.split()
        rw, st = _parse_state(rl)
        if not rw or rw[0] != o[0]:
            return "op %d (%s): answer %r" % (k, ol, rl)
        if o[0] in ("alloc", "alloccl"):
            nb = int(o[1])
            need = need_of(max(nb, 0))
            if o[0] == "alloccl":
                # explicit footprint: the caller reserves nc >= need lines (fixed-size slots, slack)
                nc = int(o[2]) if len(o) > 2 else 0
                if nb < 0 or nb >= 2 ** 31 or nc < need or nc >= 2 ** 31:
                    if rw[1] != "skip":
                        return "op %d: %s is outside the usage protocol but was not skipped" % (k, ol)
                    continue
                need_min, need = need, nc
            else:
                need_min = need
            if nb < 0 or nb >= 2 ** 31:
                if rw[1] != "skip":
                    return "op %d: length %d is outside the usage protocol but was not skipped" % (k, nb)
                continue
            if nb == 0:
                # a message of length 0 is outside the property's quantifier (sizes 1 byte .. half the ring): its header
                # is the wrap marker's encoding.  The drivers pass it on as it is (model and code are compared on it);
                # this oracle of the PROPERTY says nothing about the allocation itself and abstains from the delivery
                # clauses from the moment such a message is committed.
                if rw[1] in ("NULL", "skip"):
                    continue
                zero_pending = True
                pend = {"off": int(rw[1]), "nb": 0, "line": (int(rw[1]) - HDR) // CL, "need": need, "bytes": [], "gen": gen}
                continue
            if rw[1] == "NULL":
                drained = (not q) and pend is None and not fetched and w_mon == r_mon
                if drained:
                    p = w_mon
                    room = max(n - 1 - p, p - 1)
                    if need <= room:
                        return ("op %d: ring drained at line %d of %d refuses %d bytes (%d lines) although %d contiguous "
                                "lines are free: traffic wedges" % (k, p, n, nb, need, room))
                    if nb <= half and need_min > room and known is None:
                        known = "%s: drained at line %d of %d, %d bytes need %d lines > max(n-1-p, p-1) = %d (op %d)" % (
                            KNOWN_PREFIX, p, n, nb, need_min, room, k)
                continue
            off = int(rw[1])
            if off % CL != HDR or off < HDR or off - HDR + need * CL > data or off + nb > data:
                return "op %d: allocation at offset %d (+%d bytes, %d lines) is outside / misaligned in the %d-byte data area" % (k, off, nb, need, data)
            line = (off - HDR) // CL
            if line == 0 and w_mon != 0:
                gen += 1
                marker = (w_mon, gen)
            elif line != w_mon:
                return "op %d: allocation at line %d but the previous commit ended at line %d" % (k, line, w_mon)
            w_mon = line
            live = list(q)
            for m in live:
                if line < m["line"] + m["need"] and m["line"] < line + need:
                    return ("op %d: region handed to the writer, lines [%d,%d), overlaps the committed unread message at lines [%d,%d)"
                            % (k, line, line + need, m["line"], m["line"] + m["need"]))
            if marker is not None and line <= marker[0] < line + need:
                return "op %d: region handed to the writer, lines [%d,%d), covers the wrap marker at line %d the reader still has to read" % (
                    k, line, line + need, marker[0])
            pend = {"off": off, "nb": nb, "line": line, "need": need, "bytes": [None] * nb, "gen": gen}
            zero_pending = False
        elif o[0] == "write":
            a, ln_, sd = int(o[1]), int(o[2]), int(o[3])
            legal = pend is not None and a >= 0 and ln_ >= 0 and a + ln_ <= pend["nb"]
            if (rw[1] == "ok") != legal:
                return "op %d (%s): driver answered %s, protocol says %s" % (k, ol, rw[1], "ok" if legal else "skip")
            if legal:
                for i in range(ln_):
                    pend["bytes"][a + i] = pat(sd, i)
        elif o[0] == "commit":
            if (rw[1] == "ok") != (pend is not None):
                return "op %d: commit answered %s" % (k, rw[1])
            if pend is not None and zero_pending:
                return known        # a 0-byte message has been committed: outside the property, abstain from here on
            if pend is not None:
                q.append(pend)
                w_mon = pend["line"] + pend["need"]
                pend = None
        elif o[0] == "fetch":
            if rw[1] == "NULL":
                if q:
                    return "op %d: fetch reports nothing although %d committed message(s) are pending (oldest: %d bytes at offset %d)" % (
                        k, len(q), q[0]["nb"], q[0]["off"])
                continue
            if not q:
                return "op %d: fetch delivers %s bytes at offset %s although nothing committed is pending" % (k, rw[2], rw[1])
            m = q[0]
            off, nb = int(rw[1]), int(rw[2])
            hexs = rw[3] if len(rw) > 3 else ""
            if off != m["off"] or nb != m["nb"]:
                return "op %d: fetch delivers (offset %d, %d bytes), the oldest committed message is (offset %d, %d bytes)" % (k, off, nb, m["off"], m["nb"])
            if len(hexs) != 2 * nb:
                return "op %d: %d payload bytes printed for a %d byte message" % (k, len(hexs) // 2, nb)
            got = bytes.fromhex(hexs)
            for i, e in enumerate(m["bytes"]):
                if e is not None and got[i] != e:
                    return "op %d: payload byte %d of the %d-byte message is %02x, committed %02x" % (k, i, nb, got[i], e)
            fetched = True
            if marker is not None and m["gen"] >= marker[1]:
                marker = None
        elif o[0] == "rmove":
            if (rw[1] == "ok") != fetched:
                return "op %d: rmove answered %s" % (k, rw[1])
            if fetched:
                m = q.popleft()
                r_mon = m["line"] + m["need"]
                fetched = False
                # the reader sits on the marker until something is committed after the wrap
        # cursors reported by the implementation must stay inside the ring
        if st is not None and (st[0] > n - 1 or st[1] > n - 1):
            return "op %d: cursor out of range (write %d, read %d, ring of %d lines)" % (k, st[0], st[1], n)
    return known


def monitor(case, lines):
    head = case.lines[0].split() if case.lines else []
    if head[:1] == ["conc"]:
        return _mon_conc(case, lines)
    if head[:1] == ["attach"]:
        return _mon_attach(case, lines)
    return _mon_seq(case, lines)


def _mon_attach(case, lines):
    """independent monitor of the ready hand-over on the scheduler trace: whenever the attacher reports the geometry
    it used (is_ready answered true) it is the creator's (n_cacheline of the request, consistent fields), the load of
    ready that let it through returned 1 after the creator's store of 1, and both threads finish."""
    head = case.lines[0].split()
    nbytes = int(head[1])
    n = pow2_lines(nbytes)
    stored = False
    last_ready = None
    geo = None
    fin = set()
    for ln in lines:
        w = ln.split()
        if not w:
            continue
        if w[0] in ("DEADLOCK", "LIVELOCK"):
            return "scheduler reported %s (creator / attacher do not terminate)" % ln
        if w[0] == "E" and len(w) >= 6:
            tid, op, cell, val = int(w[1]), w[2], w[3], int(w[5])
            if tid == 0 and op == "store" and cell == "ready":
                if val != 1:
                    return "creator stores ready := %d" % val
                stored = True
            elif tid == 1 and op == "load" and cell == "ready":
                last_ready = val
                if val == 1 and not stored:
                    return "attacher reads ready = 1 before the creator stored it"
        elif w[0] == "R":
            tid, k = int(w[1]), w[2]
            v = int(w[3]) if len(w) > 3 else 0
            if tid == 1 and k == "geo":
                geo = v
                if last_ready != 1:
                    return "is_ready answered true although the load of ready returned %r" % last_ready
                if v != n:
                    return ("after muggle_shm_ringbuf_is_ready answered true the attacher read the geometry %d "
                            "(-1 = inconsistent fields); the creator's ring has %d cache lines" % (v, n))
            elif tid == 0 and k == "created" and v != n:
                return "creator announces %d cache lines for a request of %d bytes (expected %d)" % (v, nbytes, n)
        elif w[0] == "X":
            fin.add(int(w[1]))
    if fin != {0, 1}:
        return "creator / attacher did not finish (finished: %s)" % sorted(fin)
    return None


def known_class(case, failure_text):
    if failure_text and failure_text.startswith(KNOWN_PREFIX):
        return "drained-half"
    return None


def nontrivial_key(case, lines):
    if case.lines and case.lines[0].startswith("attach"):
        txt = "\n".join(lines)
        return hash(txt) if " load ready " in txt else None
    if case.lines and case.lines[0].startswith("conc"):
        txt = "\n".join(lines)
        return hash(txt) if (" store wcur " in txt and " load wcur " in txt) else None
    txt = "\n".join(lines)
    if "alloc NULL" in txt or "alloccl NULL" in txt or re.search(r"alloc(cl)? 8 \| 0 [1-9]", txt):
        return "\n".join(case.lines)
    return None


def tally(dist, case, lines):
    if case.lines and case.lines[0].startswith("attach"):
        dist["attach_cases"] = dist.get("attach_cases", 0) + 1
        if any(ln.startswith("R 1 notready") for ln in lines):
            dist["attach_polled_before_ready"] = dist.get("attach_polled_before_ready", 0) + 1
        return
    if case.lines and case.lines[0].startswith("conc"):
        dist["conc_cases"] = dist.get("conc_cases", 0) + 1
        dist["conc_events"] = dist.get("conc_events", 0) + sum(1 for ln in lines if ln.startswith("E "))
        w = case.lines[0].split()
        if len(w) > 3 and w[3] != "-1":
            dist["conc_writer_killed"] = dist.get("conc_writer_killed", 0) + 1
        if len(w) > 2 and w[2] == "1":
            dist["conc_locked_writers"] = dist.get("conc_locked_writers", 0) + 1
        return
    n = pow2_lines(int(case.lines[0].split()[2]))
    dist["seq_n=%d" % n] = dist.get("seq_n=%d" % n, 0) + 1
    for ln in lines:
        w = ln.split()
        if not w:
            continue
        if w[0] in ("alloc", "alloccl"):
            if w[0] == "alloccl":
                dist["alloc_explicit_footprint"] = dist.get("alloc_explicit_footprint", 0) + 1
            k = "alloc_refused" if w[1] == "NULL" else ("alloc_skip" if w[1] == "skip" else ("alloc_wrapped" if w[1] == "8" else "alloc_ok"))
            dist[k] = dist.get(k, 0) + 1
        elif w[0] == "fetch":
            k = "fetch_none" if w[1] == "NULL" else "fetch_msg"
            dist[k] = dist.get(k, 0) + 1
    if case.lines[0].split()[1] == "shm":
        dist["seq_real_shm"] = dist.get("seq_real_shm", 0) + 1


# ---------------------------------------------------------------------------
# concurrent part

def _conc(name, n, locked, kill, tries, scripts, sched):
    lines = ["conc %d %d %d %d" % (n, locked, kill, tries)]
    for sc in scripts:
        lines.append("writer " + " ".join("%d:%d" % m for m in sc))
    lines.append("sched " + sched)
    return V.Case(name, lines, {"kind": "conc"})


def _conc_script(rng, n, k, tagbase):
    half = (CL // 2) * n
    out = []
    for i in range(k):
        x = rng.below(10)
        if x < 5:
            nb = rng.range(1, 56)
        elif x < 8:
            nb = rng.choice([56, 57, 120, 121, 184, CL * (n // 2 - 3) - HDR if n >= 8 else 1, CL * (n // 2 - 2) - HDR])
        else:
            nb = rng.range(1, half)
        out.append((max(1, nb), (tagbase + i) % 256))
    return out


def _attach(name, nbytes, tries, sched):
    return V.Case(name, ["attach %d %d" % (nbytes, tries), "sched " + sched], {"kind": "attach"})


def _attach_cases(rng, tier):
    """the ready hand-over: creating process x attaching process that polls is_ready; random schedules plus the
    deterministic sweep 'attacher polls after each of the creator's scheduling points'"""
    cases = []
    for i in range(40 if tier == "quick" else 600):
        nb = rng.choice([64, 300, 512, 49 * CL, 4096, 5000])
        cases.append(_attach("att-%d" % i, nb, rng.choice([1, 2, 3, 6]),
                             "rand %d %d 0 0" % (rng.below(1 << 30), rng.choice([20, 50, 80]))))
    for c_first in range(0, 4):
        for polls in (1, 2, 3):
            # creator runs c_first scheduling points, then the attacher runs alone for a while, then round robin
            cases.append(_attach("attw-c%d-p%d" % (c_first, polls), 512, polls,
                                 "list - " + " ".join(["0"] * c_first + ["1"] * (5 * polls) + ["0"] * 6)))
    return cases


def _locked_kill_cases(rng, tier):
    """the writer process dies while one of its threads holds the write lock: 1..3 writers under the lock, writer 1
    killed after each of its first visible operations (test-and-set, loads, stores, clear); its sibling threads
    stop at their next atomic operation"""
    cases = []
    for i in range(4 if tier == "quick" else 40):
        n = rng.choice([8, 16, 16, 32])
        nw = rng.choice([1, 2, 2, 3])
        scs = [_conc_script(rng, n, rng.range(2, 4), 60 * w + rng.below(20)) for w in range(nw)]
        seed, stick, tries = rng.below(1 << 30), rng.choice([20, 50, 80]), rng.choice([1, 2])
        for k in range(0, 7 * len(scs[0]) * tries + 2):
            cases.append(_conc("cklk-%d-%d" % (i, k), n, 1, k, tries, scs, "rand %d %d 0 0" % (seed, stick)))
    return cases


def _conc_cases(rng, tier):
    cases = []
    k1 = 140 if tier == "quick" else 3000
    for i in range(k1):
        n = rng.choice([8, 8, 16, 16, 32, 64])
        sc = _conc_script(rng, n, rng.range(2, 8), rng.below(200))
        cases.append(_conc("c1w-%d" % i, n, 0, -1, rng.choice([1, 2, 3, 6]), [sc],
                           "rand %d %d 0 0" % (rng.below(1 << 30), rng.choice([20, 50, 80]))))
    # writer killed right after each of its visible operations (same scenario and schedule, k = 0..K)
    for i in range(5 if tier == "quick" else 60):
        n = rng.choice([8, 16, 16, 32])
        sc = _conc_script(rng, n, rng.range(3, 6), rng.below(200))
        seed, stick, tries = rng.below(1 << 30), rng.choice([20, 50, 80]), rng.choice([1, 2, 4])
        for k in range(0, 4 * len(sc) * tries + 2):
            cases.append(_conc("ckill-%d-%d" % (i, k), n, 0, k, tries, [sc], "rand %d %d 0 0" % (seed, stick)))
    cases += _release_window_cases(tier)
    cases += _locked_kill_cases(rng, tier)
    cases += _attach_cases(rng, tier)
    k2 = 90 if tier == "quick" else 2000
    for i in range(k2):
        n = rng.choice([8, 16, 16, 32, 64])
        nw = rng.choice([2, 2, 3])
        scs = [_conc_script(rng, n, rng.range(1, 5), 60 * w + rng.below(20)) for w in range(nw)]
        cases.append(_conc("clk-%d" % i, n, 1, -1, rng.choice([1, 2, 4]), scs,
                           "rand %d %d 0 0" % (rng.below(1 << 30), rng.choice([20, 50, 80]))))
    return cases


def _code_orders():
    try:
        txt = open(os.path.join(V.COQ, "gen", "Params_C08.v")).read()
    except OSError:
        return None
    vals = []
    for field, _, _, _ in SITES:
        m = re.search(r"%s := (\w+)" % field, txt)
        vals.append(m.group(1) if m else "MoNone")
    return vals


def _code_aorders():
    try:
        txt = open(os.path.join(V.COQ, "gen", "Params_C08.v")).read()
    except OSError:
        return None
    vals = []
    for field, _, _, _ in ASITES:
        m = re.search(r"%s := (\w+)" % field, txt)
        vals.append(m.group(1) if m else "MoNone")
    return vals


def _release_window_cases(tier):
    """FULL ring, the writer polling w_alloc for exactly the lines the reader is about to release, the reader
    pre-empted at EVERY scheduling point around its read_cursor store (deterministic sweep with explicit
    schedules: writer runs W points (fills the ring, keeps retrying), reader runs K points, writer runs long
    enough to take the released lines and commit into them, then round robin).  The first message is the one
    at line 0, so the writer's wrap puts the next header exactly on the header line just released: anything the
    reader still does to that line after its release store (or any read of it after the store) hits a
    committed unread message."""
    cases = []
    for n in (8, 16, 32):
        first_need = 4 if n == 8 else 7
        first = CL * (first_need - 2) - HDR              # footprint first_need lines at line 0
        fill = []
        w = first_need
        while n - w - 1 >= 3:
            fill.append(1 + len(fill))
            w += 3
        # after the fill nothing fits on the right; what follows needs the released lines at 0 (wrap)
        tail = [3, 5, 7][: max(1, (first_need - 1) // 3)]
        script = [(first, 10)] + [(x, 20 + i) for i, x in enumerate(fill)] + [(x, 40 + i) for i, x in enumerate(tail)] + [(1, 60)]
        for W in ((12 + 2 * len(fill), 40) if tier == "quick" else (10 + 2 * len(fill), 12 + 2 * len(fill), 30, 40, 60)):
            for K in range(1, 15 if tier == "quick" else 31):
                sched = "list - " + " ".join(["1"] * W + ["0"] * K + ["1"] * 60)
                cases.append(_conc("cwin-n%d-W%d-K%d" % (n, W, K), n, 0, -1, 60, [script], sched))
    return cases


def model_cases(cases, impl_results):
    """concurrent cases: the model replays the implementation's trace under the memory orders extracted
    from the code on this run, so that its ghost monitor for uncovered plain reads is meaningful."""
    out = []
    vals = _code_orders()
    avals = _code_aorders()
    for c in cases:
        if c.lines and c.lines[0].startswith("attach"):
            r = impl_results.get(c.name)
            extra = ["aparams " + " ".join(avals)] if avals else []
            out.append(V.Case(c.name, list(c.lines) + extra + ["TRACE"] + (list(r["lines"]) if r else []), c.meta))
        elif c.lines and c.lines[0].startswith("conc"):
            r = impl_results.get(c.name)
            extra = ["params " + " ".join(vals)] if vals else []
            out.append(V.Case(c.name, list(c.lines) + extra + ["TRACE"] + (list(r["lines"]) if r else []), c.meta))
        else:
            out.append(c)
    return out


def model_search(ctx):
    """A memory-order obligation broke: x86 under a serialised run cannot show the effect; look for a
    history of the MODEL, under the orders extracted from the code, in which the reader reads a line its
    view does not cover."""
    p = os.path.join(V.COQ, "gen", "Params_C08.v")
    txt = open(p).read()
    vals = []
    for field, _, _, _ in SITES:
        m = re.search(r"%s := (\w+)" % field, txt)
        vals.append(m.group(1) if m else "MoNone")
    cases = []
    scen = [["conc 8 0 -1 3", "writer 1:1 1:2 1:3 1:4 1:5"],
            ["conc 16 1 -1 3", "writer 1:1 60:2 1:3", "writer 100:4 1:5"],
            ["conc 8 0 -1 3", "writer 100:1 1:2 1:3 100:4"]]
    for i, sc in enumerate(scen):
        cases.append(V.Case("modelsearch-%d" % i, sc + ["params " + " ".join(vals), "explore %d 4000" % (ctx.seed + i)]))
    res = ctx.run_model(cases)
    avals = _code_aorders() or []
    acases = [V.Case("modelsearch-attach-%d" % i, ["attach 512 %d" % tr, "aparams " + " ".join(avals), "explore %d 2000" % (ctx.seed + i)])
              for i, tr in enumerate((2, 4))]
    res.update(ctx.run_model(acases))
    for c in cases + acases:
        r = res.get(c.name)
        if r and r["lines"] and r["lines"][0].startswith("FOUND"):
            return (V.Case(c.name, list(c.lines) + r["lines"]),
                    "model history (memory orders as extracted from the code: %s / %s): %s" % (
                        " ".join(vals), " ".join(avals), r["lines"][0][6:]))
    return None


def _mon_conc(case, lines):
    """independent monitor on the scheduler trace: FIFO of commits (commit = the writer's store of
    write_cursor with a non-zero value) against the reader's deliveries."""
    head = case.lines[0].split()
    n = int(head[1])
    scripts = []
    for ln in case.lines[1:]:
        w = ln.split()
        if w and w[0] == "writer":
            scripts.append([tuple(int(x) for x in m.split(":")) for m in w[1:]])
    if not scripts:
        # degenerate script (e.g. produced by the shrinker): the driver refuses it, nothing to judge
        return None if [ln for ln in lines if ln.strip()] == ["F badcase"] else "no writer script but output %r" % lines[:3]
    idx = {}               # writer tid -> index of its current message
    committed = []         # dict(tid, nb, tag, line, need)
    delivered = []
    consumed = 0
    cur = {}               # reader's pending triple
    pend_at_load = None
    reader_exit = False
    for ln in lines:
        w = ln.split()
        if not w:
            continue
        if w[0] in ("DEADLOCK", "LIVELOCK"):
            return "scheduler reported %s (reader / writers do not terminate)" % ln
        if w[0] == "REJECT":
            continue
        if w[0] == "E":
            tid, op, cell = int(w[1]), w[2], w[3]
            val = int(w[5])
            if tid >= 1 and op == "store" and cell == "wcur" and val != 0:
                sc = scripts[tid - 1] if tid - 1 < len(scripts) else []
                i = idx.get(tid, 0)
                if i >= len(sc):
                    return "writer %d commits although its script is exhausted" % tid
                nb, tag = sc[i]
                need = need_of(nb)
                line = val - need
                if line < 0 or val > n - 1:
                    return "commit moves write_cursor to %d for a %d-line message in a ring of %d lines" % (val, need, n)
                for m in committed[consumed:]:
                    if line < m["line"] + m["need"] and m["line"] < val:
                        return ("writer %d committed lines [%d,%d) which overlap the committed unread message at lines [%d,%d)"
                                % (tid, line, val, m["line"], m["line"] + m["need"]))
                committed.append({"tid": tid, "nb": nb, "tag": tag, "line": line, "need": need})
            elif tid == 0 and op == "load" and cell == "wcur":
                pend_at_load = len(committed) - len(delivered)
            elif tid == 0 and op == "store" and cell == "rcur" and val != 0:
                consumed += 1
                if consumed > len(delivered):
                    return "reader consumed a message it was never given"
        elif w[0] == "R":
            tid, k = int(w[1]), w[2]
            v = int(w[3]) if len(w) > 3 else 0
            if tid >= 1:
                if k == "sent":
                    mine = [m for m in committed if m["tid"] == tid]
                    if not mine or "off" in mine[-1]:
                        return "writer %d reports a message sent without a commit store" % tid
                    mine[-1]["off"] = v
                    if v != CL * mine[-1]["line"] + HDR:
                        return "writer %d: payload offset %d but the commit covered lines from %d" % (tid, v, mine[-1]["line"])
                    idx[tid] = idx.get(tid, 0) + 1
                elif k == "drop":
                    idx[tid] = idx.get(tid, 0) + 1
            else:
                if k in ("glen", "goff", "gtag"):
                    cur[k] = v
                    if k == "gtag":
                        d = (cur.get("glen"), cur.get("goff"), v)
                        cur = {}
                        pos = len(delivered)
                        if pos >= len(committed):
                            return "reader was given a message (%d bytes at offset %d, tag %d) although nothing committed is pending" % d
                        m = committed[pos]
                        if d[2] < 0:
                            return "reader was given %d bytes at offset %d whose bytes are not those of any committed message (torn / stale payload)" % (d[0], d[1])
                        if d[0] != m["nb"] or d[2] != m["tag"] or d[1] != CL * m["line"] + HDR:
                            return ("delivery %d is (%d bytes, tag %d, offset %d); commit order says (%d bytes, tag %d, offset %d)"
                                    % (pos, d[0], d[2], d[1], m["nb"], m["tag"], CL * m["line"] + HDR))
                        delivered.append(d)
                elif k in ("idle", "rdone"):
                    if pend_at_load is not None and pend_at_load > 0:
                        return ("fetch reported nothing although %d committed message(s) were pending when it loaded write_cursor"
                                % pend_at_load)
                    if k == "rdone":
                        reader_exit = True
    if not reader_exit:
        return "reader did not finish"
    if len(delivered) != len(committed):
        return "%d messages committed, %d delivered after the writers stopped" % (len(committed), len(delivered))
    f = [ln for ln in lines if ln.startswith("F ")]
    m = re.match(r"F got=(\d+) bad=(\d+)", f[-1]) if f else None
    if not m:
        return "no summary line"
    if int(m.group(1)) != len(delivered) or int(m.group(2)) != 0:
        return "summary %r disagrees with the trace (%d deliveries)" % (f[-1], len(delivered))
    return None


MANIFEST = {
    "level_text": ("Unbounded Coq theorems over an executable byte-level model of shm_ring_buffer.c (headers and payloads in "
                   "one byte memory, uint32 arithmetic explicit): FIFO refinement (fetched once, in order, exact length and "
                   "bytes; fetch = nothing iff nothing pending; allocations through w_alloc_bytes and w_alloc_cachelines with any "
                   "footprint that holds the message), allocation never overlaps unread data or the live wrap marker, the segment "
                   "computed by muggle_shm_ringbuf_open holds the whole announced ring, "
                   "indices in range, exact acceptance condition of a drained ring with the refuted 'half the ring' clause as "
                   "known finding; interleaving model (1 reader, locked writers, release/acquire views, memory orders "
                   "re-extracted) with the reachable-state invariant for all interleavings, visibility and crash safety proved.  Tie: differential run of the extracted "
                   "model against the code compiled from the working tree (ASan, exact-size heap ring opened through "
                   "muggle_shm_ringbuf_open; real SysV segment smoke test), deterministic-scheduler trace acceptance for the "
                   "concurrent part, independent FIFO/overlap monitor."),
    "design_ref": "DESIGN.md section 6 / C08, Appendix A.7",
    "level_note": ("Trusted: Coq kernel, extraction, differential harness, vsched; SC+views memory model as stand-in for C11; "
                   "kernel shm semantics."),
    "technique": "Coq invariant proofs (sequential refinement to a FIFO + all-interleavings invariant) + extracted-model differential run + scheduler trace acceptance",
}
