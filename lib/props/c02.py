"""C02 — ring buffer: one total write order, read-once delivers each message once, payload
visibility: plugin for bin/check."""
import os
import re
import vcommon as V

ID = "C02"
COQ_DIRS = ["C02"]
MODEL_BASE = "c02_model"
OCAML_DRIVER = "ocaml/c02_driver.ml"
OCAML_INCLUDES = ["ocaml/vsacc.ml.inc"]
C_DRIVER = "harness/drivers/c02_driver.c"
REPO_SOURCES = ["muggle/c/sync/ring_buffer.c", "muggle/c/sync/spinlock.c", "muggle/c/sync/mutex.c",
                "muggle/c/sync/condition_variable.c", "muggle/c/base/thread.c", "muggle/c/base/utils.c"]
HEADER_LINES = 3
SHRINK = False          # a case is (scenario, schedule); schedules are not line-shrinkable
CASE_TIMEOUT = 5.0
MODEL_CASE_TIMEOUT = 5.0
RULE = ("scenarios (all 16 combinations of SINGLE_WRITER / SINGLE_READER / READ_BUSY_LOOP / MSG_READ_ONCE incl. the "
        "rejected one, optionally with the deprecated 0x04 bit; requested capacity 2..8 (rounded 2/4/8); 1..3 writers x 1..3 readers "
        "(1 where the flag promises a single one); 1..4 messages per writer; in half of the scenarios some or all messages "
        "carry adversarial pointer values (NULL, (void*)-1, small integers = ring positions/cursor values, addresses of the "
        "ring's blocks / the ring, repeated values) instead of the address of their own payload object; reader indices started at 2^32-3 (or 0, or "
        "2^32-3-k*cap) so that the 32-bit index wraps; harness throttle on) x seeded random schedules (context-switch "
        "density 20/50/80 %; for the futex-sleeping reader modes two thirds of the schedules also interrupt would-block "
        "futex waits with EINTR at 15/30/60 % and wake them spuriously at 0/20 %) run on the real code under the "
        "deterministic scheduler; every trace replayed on the "
        "extracted model; plus a negative stream with the throttle off (precondition violated; only model/implementation "
        "agreement is checked unless the trace happens to satisfy the precondition); non-trivial = the trace contains a "
        "contended lock acquisition, a reader that found the ring empty (futex wait / spin) or a throttled writer; "
        "distinct = distinct trace text")
TRUSTED_BASE = [
    "modelled, not verified: sequentially consistent interleaving of atomic operations plus release/acquire views for "
    "the plain cells (slots, payloads, read_cursor) as stand-in for C11 (DRF-SC assumed, not proved); futex = atomic "
    "compare-and-block / wake (lowest sleeping thread first), where a wait that would block may instead return -1/EINTR "
    "or 0 without a wake-up (schedule choices, also steps of the model), and pthread mutex = exclusive ownership with "
    "acquire/release, as interposed by harness/vsched; real weak-memory reorderings cannot be exhibited on x86 under a "
    "serialised run",
    "memory orders of the 7 sites (tas, clear, cursor store in write_lock / write_single, cursor load in read_wait / "
    "read_busy_loop / read_once) and the flag -> mode table of muggle_ring_buffer_get_mode are re-extracted from the "
    "executed code into coq/gen/Params_C02.v on every run; the theorems' side conditions are discharged against them",
    "the harness client (c02_driver.c: tickets, payload store before the write, throttle, per-reader counters) is "
    "part of the model (plain segments); capacity rounding (muggle_next_pow_of_2) is C20's subject, here only run",
]
ASSUMPTIONS = [
    "documented usage: writers never get a full capacity ahead of a waiting reader (the harness throttle enforces "
    "writes begun < next reader index + capacity; the theorems carry it as the ghost monitor s_lapped = false)",
    "SINGLE_WRITER / SINGLE_READER flags are honoured by the user (one writer / one reader thread)",
    "read-once readers all use read-once mode",
]
EVIDENCE_NOTES = [
    "message values: the driver sends adversarial pointer values as messages in every reader mode (NULL, (void*)-1, "
    "small integers equal to 1 / ring positions / cursor values / capacity, addresses of the ring's own blocks and of "
    "the ring object, the same value several times; counts per kind under input_distribution value-*); the monitor "
    "judges by VALUE: read #k of a reader returns exactly the value of the k-th published message and never blocks "
    "once it exists (scheduler DEADLOCK / LIVELOCK = violation with the schedule as replay).  Justification for "
    "sampling values: ring_delivery_value_independent / ring_trace_value_independent (the model is parametric in the "
    "values) plus the additional obligation rb_code_never_compares_payload, which is a heuristic SOURCE SCAN of "
    "ring_buffer.c run in gen_params on every check (comparisons whose operand is x->data, a local assigned from it or "
    "the data argument); it is a textual scan, not a proof about the C code",
    "all listed theorems are proved in full (no _partial left): rb_payload_visible covers every writer/reader mode "
    "including read-once (read_cursor under read_mutex); rb_once_positions states that a reader's positions strictly "
    "increase and that every taken position is returned or pending with exactly one reader; rb_throttle_no_lap "
    "proves that the model of the harness throttle implies the no-lapping precondition (s_lapped never fires)",
    "the model additionally evaluates its ghost monitors on every accepted trace (F MODEL line = divergence if the "
    "precondition monitor fires under the throttle or a plain read is uncovered under SC orders), and the Python "
    "monitor re-checks the throttle independently on the trace",
]

SITES = [  # (params field, discovery scenario, op, cell)
    ("mo_tas", "lockwait", "tas", "wlock"), ("mo_clear", "lockwait", "clear", "wlock"),
    ("mo_st_lock", "lockwait", "store", "cursor"), ("mo_st_single", "singlebusy", "store", "cursor"),
    ("mo_ld_wait", "lockwait", "load", "cursor"), ("mo_ld_busy", "singlebusy", "load", "cursor"),
    ("mo_ld_once", "once", "load", "cursor"),
]
MO = {"rlx": "Rlx", "con": "Con", "acq": "Acq", "rel": "Rel", "acqrel": "AcqRel", "sc": "SeqCst", "none": "MoNone"}
TWO32 = 1 << 32
F_SW, F_SR, F_BUSY, F_ONCE = 0x01, 0x02, 0x08, 0x10


# pointer values a message can carry (codes shared with c02_driver.c): a message is an opaque void*
V_NULL, V_MINUS1, V_RING = -2, -3, -2000


def v_int(n):
    return -10 - n


def v_block(k):
    return -1000 - k


def val_kind(code):
    if code >= 0:
        return "own-object"
    if code == V_NULL:
        return "NULL"
    if code == V_MINUS1:
        return "(void*)-1"
    if code == V_RING:
        return "&ring"
    if -265 <= code <= -11:
        return "small-int"
    if -2000 < code <= -1000:
        return "&blocks[k]"
    return "other"


def scan_payload_comparisons(repo=None):
    """Cheap source scan (an ADDITIONAL obligation, not a proof): the ring must treat message values as opaque.
    Returns the lines of ring_buffer.c in which a payload value (an expression ending in .data / ->data, a local
    assigned from one, or the `data` parameter of the write functions) is an operand of a comparison."""
    path = os.path.join(repo or V.REPO, "muggle/c/sync/ring_buffer.c")
    txt = open(path).read()
    txt = re.sub(r"/\*.*?\*/", lambda m: "\n" * m.group(0).count("\n"), txt, flags=re.S)
    txt = re.sub(r"//[^\n]*", "", txt)
    txt = txt.replace("->", ".")
    # crude function split: top-level '{' ... '}' blocks together with the header before them
    depth, start, funcs = 0, 0, []
    for i, ch in enumerate(txt):
        if ch == "{":
            if depth == 0:
                start = max(txt.rfind(";", 0, i), txt.rfind("}", 0, i)) + 1
            depth += 1
        elif ch == "}":
            depth -= 1
            if depth == 0:
                funcs.append((start, i + 1))
    cmp_op = r"(?:==|!=|<=|>=|(?<![<>=!-])<(?![<=])|(?<![<>=!-])>(?![>=]))"
    hits = []
    for a, b in funcs:
        body = txt[a:b]
        tainted = set(re.findall(r"\b(\w+)\s*=\s*[^=;]*\.data\b", body))
        if re.search(r"void\s*\*\s*data\s*\)", body.split("{")[0]):
            tainted.add("data")
        operand = r"(?:[\w\]\[.]*\.data\b" + "".join(r"|\b%s\b" % re.escape(t) for t in sorted(tainted)) + ")"
        pat = re.compile(r"%s\s*\)*\s*%s|%s\s*(?:\([^()]*\)\s*)?\(*\s*%s" % (operand, cmp_op, cmp_op, operand))
        line0 = txt.count("\n", 0, a)
        for k, ln in enumerate(body.split("\n")):
            if pat.search(ln):
                hits.append("%d: %s" % (line0 + k + 1, ln.strip()))
    return hits


def build_impl(ctx):
    return V.build_vsched_driver(ID, C_DRIVER, REPO_SOURCES)


def py_mode(flag):
    """independent transcription of the documented flag semantics (ring_buffer.h): returns
    (wmode, rmode) or None for the rejected combination"""
    w = 1 if flag & F_SW else 0
    if flag & F_SR:
        return (w, 2 if flag & F_BUSY else 1)
    if flag & F_ONCE:
        return None if flag & F_BUSY else (w, 3)
    return (w, 2 if flag & F_BUSY else 0)


def next_pow2(n):
    c = 1
    while c < n:
        c *= 2
    return c


def _discovery_cases():
    return [V.Case("disc-lockwait", ["rb 0 4 1 1", "w 2 1", "r 3:4294967293", "sched rand 1 30 0 0"]),
            V.Case("disc-singlebusy", ["rb 9 4 1 1", "w 3", "r 3:4294967293", "sched rand 2 30 0 0"]),
            V.Case("disc-once", ["rb 16 4 1 0", "w 2 1", "r 2:0 1:0", "sched rand 3 30 0 0"]),
            V.Case("disc-modes", ["modes"])]


def gen_params(ctx):
    """Memory orders actually passed by the code at each site (observed by the hooks) and the
    flag -> mode table the code computes."""
    exe = build_impl(ctx)
    res = V.run_batch(exe, _discovery_cases(), per_case_timeout=5.0)
    seen = {}
    table = []
    for name, r in res.items():
        scen = name.split("-")[1]
        for ln in r["lines"]:
            w = ln.split()
            if len(w) >= 5 and w[0] == "E":
                seen.setdefault((scen, w[2], w[3]), set()).add(w[4])
            if len(w) == 6 and w[0] == "F" and w[1] == "mode":
                table.append((int(w[2]), int(w[3]), int(w[4]), int(w[5])))
    fields, notes = [], []
    for field, scen, op, cell in SITES:
        mos = seen.get((scen, op, cell), set())
        if len(mos) != 1:
            # an unobserved or ambiguous site is a failed obligation, not a default
            notes.append("(* site %s (%s %s %s): observed %s *)" % (field, scen, op, cell, sorted(mos)))
            fields.append("%s := MoNone" % field)
        else:
            fields.append("%s := %s" % (field, MO.get(next(iter(mos)), "MoNone")))
    if len(table) != 32:
        notes.append("(* flag -> mode table: %d of 32 rows observed *)" % len(table))
    hits = scan_payload_comparisons()
    for h in hits:
        notes.append("(* payload compared in ring_buffer.c line %s *)" % h.replace("*)", "* )"))
    rows = "; ".join("(%d, %d, %d, %d)" % (f, rc, wm, rm) for f, rc, wm, rm in table)
    txt = ("(* generated by lib/props/c02.py from the memory orders observed at each atomic site of\n"
           "   ring_buffer.c / spinlock.c and from the flag -> mode table computed by\n"
           "   muggle_ring_buffer_init on this run; do not edit *)\n"
           "From MV Require Import C02.Model.\nLocal Open Scope Z_scope.\n" + "\n".join(notes) + ("\n" if notes else "") +
           "Definition code_params : params :=\n  {| " + ";\n     ".join(fields) + " |}.\n"
           "(* (flag, init return value, write_mode, read_mode); -1 = not set *)\n"
           "Definition code_mode_table : list (Z * Z * Z * Z) :=\n  [" + rows + "].\n"
           "(* source scan of ring_buffer.c: number of lines in which a payload value (x->data, a local assigned from\n"
           "   it, the data argument) is an operand of a comparison; the ring must treat messages as opaque *)\n"
           "Definition code_payload_comparisons : nat := %d.\n" % len(hits))
    return txt


# ---------------------------------------------------------------------------
# generator

def _scenario(rng, throttle, flag=None):
    if flag is None:
        # mode first (uniform over the 8 accepted combinations, the rejected one 1 in 16), then any flag value
        # that selects it (includes the deprecated 0x04 bit and redundant bits)
        target = None if rng.chance(1, 16) else (rng.below(2), rng.below(4))
        flag = rng.choice([f for f in range(32) if py_mode(f) == target])
    cap = rng.choice([2, 2, 4, 4, 4, 8, 8])
    capreq = rng.range(cap // 2 + 1, cap) if cap > 2 else 2
    mode = py_mode(flag)
    if mode is None:
        return ["rb %d %d %d 0" % (flag, capreq, throttle), "w 1", "r 1:0"]
    wm, rm = mode
    nw = 1 if wm == 1 else rng.range(1, 3)
    nr = 1 if (flag & F_SR) else rng.range(1, 3)
    wc = [rng.range(1, 4) for _ in range(nw)]
    total = sum(wc)
    base = rng.choice([TWO32 - 3, TWO32 - 3, TWO32 - 3, TWO32 - 1, 0, TWO32 - 2, 5])
    pre = base % cap
    if rm == 3:
        # read-once: the index is ignored; the pre-written messages are delivered too
        left = total + pre
        quotas = []
        for i in range(nr):
            q = left if i == nr - 1 else rng.range(0, left)
            quotas.append(q)
            left -= q
        quotas = rng.shuffle(quotas)
        idx = [base for _ in range(nr)]
    else:
        quotas = [total] * nr
        idx = [(base - cap * rng.range(0, 2)) % TWO32 for _ in range(nr)]
    lines = ["rb %d %d %d %d" % (flag, capreq, throttle, pre), "w " + " ".join(map(str, wc)),
             "r " + " ".join("%d:%d" % (q, i) for q, i in zip(quotas, idx))]
    # adversarial message values (about half of the scenarios): NULL, (void*)-1, small integers equal to ring
    # positions / cursor values / 1, the address of the ring's own blocks and of the ring, repeated identical values
    if rng.chance(1, 2):
        nmsg = total + pre
        pool = [V_NULL, V_MINUS1, V_MINUS1, v_int(1), v_int(rng.range(1, cap)), v_int(cap), v_block(rng.below(cap)),
                v_block(0), V_RING]
        vals = {}
        for _ in range(rng.range(1, max(1, min(4, nmsg)))):
            vals[rng.below(nmsg)] = rng.choice(pool)
        if rng.chance(1, 3) and nmsg >= 2:          # the same value several times in a row
            c0, a0 = rng.choice(pool), rng.below(nmsg - 1)
            vals[a0] = c0
            vals[a0 + 1] = c0
        if rng.chance(1, 6):                         # every message is a special value
            for i in range(nmsg):
                vals.setdefault(i, rng.choice(pool))
        lines.append("v " + " ".join("%d:%d" % (i, vals[i]) for i in sorted(vals)))
    return lines


def _mk(name, scen, sched):
    return V.Case(name, list(scen) + ["sched " + sched], {"scen": scen[0]})


def _rand_sched(rng, scen, sticks=(20, 50, 80)):
    """seeded random schedule; scenarios whose readers sleep in the futex (wait, single-wait, read-once) get, in
    two cases out of three, interrupted futex waits (muggle_sync_wait returns -1/EINTR instead of blocking) and
    spurious wake-ups (returns 0 without a wake): the reader must loop and never return without its message"""
    seed, stick = rng.below(1 << 30), rng.choice(list(sticks))
    mode = py_mode(int(scen[0].split()[1]))
    if mode is not None and mode[1] in (0, 1, 3) and rng.chance(2, 3):
        return "rand %d %d 0 0 %d %d" % (seed, stick, rng.choice([15, 30, 60]), rng.choice([0, 0, 20]))
    return "rand %d %d 0 0" % (seed, stick)


def corpus_cases(ctx):
    cs = [V.Case("corpus-modes", ["modes"])]
    # every accepted flag combination once with a fixed schedule seed, and the rejected ones
    for flag in range(32):
        cs.append(_mk("corpus-flag-%d" % flag, _scenario(V.Rng(1000 + flag), 1, flag), "rand %d 50 0 0" % (flag + 1)))
    # two writers, capacity 2, index wrap, reader parked between its load and its wait
    cs.append(_mk("corpus-wrap-cap2", ["rb 0 2 1 1", "w 3 3", "r 6:4294967293 6:4294967291"], "rand 77 20 0 0"))
    cs.append(_mk("corpus-once-cap2", ["rb 16 2 1 0", "w 3 3", "r 2:0 3:7 1:9"], "rand 78 20 0 0"))
    cs.append(_mk("corpus-list", ["rb 0 4 1 1", "w 2 2", "r 4:4294967293"],
                  "list - 0 0 1 1 2 2 0 0 1 1 2 2 0 1 2 0 1 2 2 2 1 1 0 0"))
    # interrupted / spuriously woken futex waits: the waiting reader must loop, never return without its message
    cs.append(_mk("corpus-eintr-wait", ["rb 0 4 1 1", "w 2 2", "r 4:4294967293 4:4294967293"], "rand 91 30 0 0 60 20"))
    cs.append(_mk("corpus-eintr-singlewait", ["rb 2 2 1 1", "w 3", "r 3:4294967293"], "rand 92 30 0 0 60 0"))
    cs.append(_mk("corpus-eintr-once", ["rb 16 2 1 0", "w 2 2", "r 2:0 2:0"], "rand 93 30 0 0 60 20"))
    cs.append(_mk("corpus-eintr-list", ["rb 0 4 1 1", "w 2", "r 2:4294967293"],
                  "list f0,w1,f2, 1 1 1 1 1 1 1 1 1 1 1 1 0 0 0 0 0 0 0 0 1 1 1 1 1 1 1 1"))
    # adversarial message values: (void*)-1, NULL, small integers, ring addresses, repeats - in every reader mode
    for k, (flag, nm) in enumerate([(0, "wait"), (2, "singlewait"), (8, "busy"), (16, "once"), (9, "single-busy")]):
        rd = "r 2:0 3:0" if flag == 16 else ("r 5:4294967293" if flag in (2, 9) else "r 5:4294967293 5:4294967293")
        pre = 0 if flag == 16 else 1
        wl = "w 5" if flag == 9 else "w 2 %d" % (3 if flag == 16 else 2)
        if flag == 9:
            rd, pre, wl = "r 5:4294967293", 1, "w 5"
        elif flag != 16:
            wl = "w 2 3"
        cs.append(_mk("corpus-values-%s" % nm, ["rb %d 4 1 %d" % (flag, pre), wl, rd,
                                                "v 1:-3 2:-2 3:-11 4:-1001 5:-3"], "rand %d 40 0 0" % (300 + k)))
    cs.append(_mk("corpus-values-repeat", ["rb 0 2 1 1", "w 3 2", "r 5:4294967293", "v 0:-3 1:-3 2:-3 3:-12 4:-12 5:-2000"],
                  "rand 311 30 0 0 30 0"))
    corp = os.path.join(V.VERIF, "corpus", ID)
    if os.path.isdir(corp):
        for f in sorted(os.listdir(corp)):
            if f.endswith(".case"):
                cs.append(V.Case.load(os.path.join(corp, f)))
    return cs


def generate(rng, tier):
    cases = []
    npos = 5000 if tier == "quick" else 60000
    nneg = 1200 if tier == "quick" else 15000
    for i in range(npos):
        scen = _scenario(rng, 1)
        cases.append(_mk("pos-%d" % i, scen, _rand_sched(rng, scen)))
    for i in range(nneg):
        scen = _scenario(rng, 0)
        cases.append(_mk("neg-%d" % i, scen, _rand_sched(rng, scen)))
    return cases


def search(rng, diverging, tier):
    out = []
    for i in range(4000):
        flag = rng.choice([0, 0, 0, 8, 16, 16, 1, 9, 17, 2, 10])
        scen = _scenario(rng, 1, flag)
        out.append(_mk("search-%d" % i, scen, _rand_sched(rng, scen, (10, 30, 50, 80))))
    return out


def _code_param_values():
    p = os.path.join(V.COQ, "gen", "Params_C02.v")
    txt = open(p).read()
    vals = []
    for field, _, _, _ in SITES:
        m = re.search(r"%s := (\w+)" % field, txt)
        vals.append(m.group(1) if m else "MoNone")
    return vals


def model_search(ctx):
    """The parameter obligation broke (a memory order was weakened): x86 under a serialised run cannot
    show the effect, so look for a history of the MODEL, with the parameters extracted from the code,
    in which a reader's plain read is not covered by its view."""
    vals = _code_param_values()
    scens = [["rb 0 4 1 0", "w 2 2", "r 4:0"], ["rb 1 4 1 0", "w 3", "r 3:0"], ["rb 9 2 1 0", "w 3", "r 3:0"],
             ["rb 16 4 1 0", "w 2 1", "r 2:0 1:0"], ["rb 8 4 1 1", "w 2 2", "r 4:4294967293 4:4294967293"],
             ["rb 17 2 1 0", "w 3", "r 2:0 1:0"], ["rb 0 2 1 1", "w 1 1 1", "r 3:4294967293"]]
    cases = []
    for i, sc in enumerate(scens):
        cases.append(V.Case("modelsearch-%d" % i, sc + ["params " + " ".join(vals), "explore %d 3000" % (ctx.seed + i)]))
    res = ctx.run_model(cases)
    for c in cases:
        r = res.get(c.name)
        if r and r["lines"] and r["lines"][0].startswith("FOUND"):
            lines = list(c.lines) + r["lines"]
            return (V.Case(c.name, lines), "model history (memory orders as extracted from the code: %s): %s" % (
                " ".join(vals), r["lines"][0][6:]))
    return None


def model_cases(cases, impl_results):
    out = []
    for c in cases:
        r = impl_results.get(c.name)
        lines = list(c.lines) + ["TRACE"] + (list(r["lines"]) if r else [])
        out.append(V.Case(c.name, lines, c.meta))
    return out


# ---------------------------------------------------------------------------
# independent monitor (does not use the Coq model): works on the scheduler trace

REL_OK = {"rel", "acqrel", "sc"}
ACQ_OK = {"acq", "acqrel", "sc"}


def _weak_orders(lines):
    """sites of the trace whose memory order is too weak for the hand-over of plain data"""
    bad = []
    for ln in lines:
        w = ln.split()
        if len(w) >= 5 and w[0] == "E":
            if w[2] == "store" and w[3] == "cursor" and w[4] not in REL_OK:
                bad.append("store cursor %s" % w[4])
            elif w[2] == "load" and w[3] == "cursor" and w[4] not in ACQ_OK:
                bad.append("load cursor %s" % w[4])
            elif w[2] == "tas" and w[3] == "wlock" and w[4] not in ACQ_OK:
                bad.append("tas wlock %s" % w[4])
            elif w[2] == "clear" and w[3] == "wlock" and w[4] not in REL_OK:
                bad.append("clear wlock %s" % w[4])
    return sorted(set(bad))


def _parse_case(case):
    rb = w = r = None
    for ln in case.lines:
        t = ln.split()
        if not t:
            continue
        if t[0] == "rb" and len(t) == 5:
            rb = tuple(int(x) for x in t[1:])
        elif t[0] == "w":
            w = [int(x) for x in t[1:]]
        elif t[0] == "r":
            r = [(int(e.split(":")[0]), int(e.split(":")[1])) for e in t[1:]]
    return rb, w, r


def _parse_vals(case):
    vals = {}
    for ln in case.lines:
        t = ln.split()
        if t and t[0] == "v":
            for e in t[1:]:
                i, c = e.split(":")
                if int(c) < 0:
                    vals[int(i)] = int(c)
    return vals


def monitor(case, lines):
    if any(ln.strip() == "modes" for ln in case.lines):
        return _mon_modes(lines)
    found = [ln for ln in case.lines if ln.startswith("FOUND")]
    if found:
        # replay of a model-level history (weakened memory order): it reproduces as long as the
        # code still passes the weak order at that site
        weak = _weak_orders(lines)
        if weak:
            return "%s [the code passes: %s]" % (found[0][6:], ", ".join(weak))
        return None
    rb, wc, rq = _parse_case(case)
    if rb is None or wc is None or rq is None:
        return None
    flag, capreq, throttle, pre = rb
    mode = py_mode(flag)
    f = [ln for ln in lines if ln.startswith("F ")]
    if not f:
        return "no output"
    if mode is None or capreq <= 0:
        return None if f[0] == "F init=6" else "flag 0x%x must be rejected with MUGGLE_ERR_INVALID_PARAM, got %r" % (flag, f[0])
    if f[0] != "F init=0":
        return "init failed for an accepted flag combination 0x%x: %r" % (flag, f[0])
    cap = next_pow2(capreq)
    want = "F cap=%d wmode=%d rmode=%d" % (cap, mode[0], mode[1])
    if len(f) < 2 or f[1] != want:
        return "mode/capacity: expected %r, got %r" % (want, f[1] if len(f) > 1 else None)
    return _mon_trace(lines, cap, mode, throttle, pre, wc, rq, _parse_vals(case))


def _mon_modes(lines):
    rows = {}
    for ln in lines:
        w = ln.split()
        if len(w) == 6 and w[:2] == ["F", "mode"]:
            rows[int(w[2])] = (int(w[3]), int(w[4]), int(w[5]))
    for flag in range(32):
        m = py_mode(flag)
        exp = (6, -1, -1) if m is None else (0, m[0], m[1])
        if rows.get(flag) != exp:
            return "flag 0x%x: expected (ret, wmode, rmode) = %s, code gives %s" % (flag, exp, rows.get(flag))
    return None


def _mon_trace(lines, cap, mode, throttle, pre, wc, rq, vals=None):
    vals = vals or {}
    val = lambda mid: vals.get(mid, mid)      # the pointer value message mid carries (own object = its id)
    nw, nr = len(wc), len(rq)
    once = mode[1] == 3
    log = list(range(pre))              # publication-order log (message ids)
    pending = {}                        # writer tid -> id put but not yet published
    got = {t: [] for t in range(nw, nw + nr)}
    takes = []                          # read-once: (reader, k, len(log) at the unlock)
    unlocks = {t: 0 for t in range(nw, nw + nr)}
    begun = pre
    precond = True
    exited = set()
    last_got = {}
    bad = None
    for ln in lines:
        w = ln.split()
        if not w:
            continue
        if w[0] in ("DEADLOCK", "LIVELOCK"):
            why = "scheduler reported %s" % ln
            if not once:
                for i, t in enumerate(range(nw, nw + nr)):
                    k = len(got[t])
                    if k < rq[i][0] and pre + k < len(log):
                        why += "; reader %d never returns from read #%d although the %d-th message (id %d, value %d = %s) is published" % (
                            t, k, pre + k, log[pre + k], val(log[pre + k]), val_kind(val(log[pre + k])))
                        break
            bad = bad or why
            break
        if w[0] == "X":
            exited.add(int(w[1]))
        elif w[0] == "E":
            t = int(w[1])
            if w[2] == "store" and w[3] == "cursor":
                if t not in pending:
                    bad = bad or "thread %d stores the cursor without a message" % t
                    continue
                log.append(pending.pop(t))
                if int(w[5]) != len(log) % cap:
                    bad = bad or "cursor store %s after %d publications (capacity %d)" % (w[5], len(log), cap)
            elif w[2] == "munlock" and w[3] == "rmtx":
                takes.append((t, unlocks.get(t, 0), len(log)))
                unlocks[t] = unlocks.get(t, 0) + 1
        elif w[0] == "R":
            t = int(w[1])
            if w[2] == "put":
                pending[t] = int(w[3])
                begun += 1
                if once:
                    lo = sum(len(v) for v in got.values())
                else:
                    lo = pre + min(len(v) for v in got.values())
                if not begun < lo + cap:
                    precond = False
            elif w[2] == "got":
                mid = int(w[3])
                k = len(got[t])
                got[t].append(mid)
                last_got[t] = mid
                if not once and precond and bad is None:
                    pos = pre + k
                    if pos >= len(log):
                        bad = "reader %d returned from read #%d (value %d = %s) before the %d-th message was published" % (t, k, mid, val_kind(mid) if mid != -1 else "no message value", pos)
                    elif mid != val(log[pos]):
                        if mid == -1:
                            bad = "reader %d read #%d returned a pointer that is no message value at all, the %d-th message carries %d" % (t, k, pos, val(log[pos]))
                        else:
                            bad = "reader %d read #%d returned value %d, the %d-th published message (id %d) carries %d (%s)" % (
                                t, k, mid, pos, log[pos], val(log[pos]), val_kind(val(log[pos])))
            elif w[2] == "pay":
                mid = last_got.get(t, -1)
                want = mid * 7 + 3 if mid >= 0 else -1
                if precond and bad is None and int(w[3]) != want:
                    bad = "reader %d received message %d but sees payload %s instead of %d" % (t, mid, w[3], want)
    if not precond:
        if throttle:
            return "harness fault: throttle on but the no-lapping precondition was violated in the trace"
        return None                     # negative stream: only model/implementation agreement is checked
    if bad:
        return bad
    if once:
        seq = []
        for (t, k, n) in takes:
            if k >= len(got[t]):
                return "reader %d unlocked read_mutex %d times but returned %d results" % (t, k + 1, len(got[t]))
            pos = len(seq)
            mid = got[t][k]
            if pos >= n:
                return "read-once reader %d took position %d (message %d) before it was published" % (t, pos, mid)
            if val(log[pos]) != mid:
                if mid >= 0 and mid in seq:
                    return "read-once: message %d delivered twice (to reader %d at position %d)" % (mid, t, pos)
                return "read-once: position %d delivered value %d to reader %d, write order has message %d carrying %d (loss, duplication or reordering)" % (pos, mid, t, log[pos], val(log[pos]))
            seq.append(mid)
        if len(seq) != sum(q for q, _ in rq):
            return "read-once: %d results for %d requested reads" % (len(seq), sum(q for q, _ in rq))
    else:
        for i, t in enumerate(range(nw, nw + nr)):
            if len(got[t]) != rq[i][0]:
                return "reader %d completed %d of %d reads" % (t, len(got[t]), rq[i][0])
    if len(log) != pre + sum(wc):
        return "%d messages published, %d written" % (len(log) - pre, sum(wc))
    if len(set(log)) != len(log):
        return "a message was published twice: %s" % log
    if len(exited) != nw + nr:
        return "%d of %d threads finished" % (len(exited), nw + nr)
    return None


def nontrivial_key(case, lines):
    txt = "\n".join(lines)
    if " tas wlock acq 1 " in txt or " fwait " in txt or " plain thr " in txt or "F mode" in txt:
        return hash(txt)
    if re.search(r"F init=[1-9]", txt):
        return hash(case.lines[0])
    # a busy reader that found the ring empty: two consecutive loads by one thread without a result
    if re.search(r"E (\d+) load cursor \w+ \d+ 0 0\nP \1\nE \1 load cursor", txt):
        return hash(txt)
    return None


def tally(dist, case, lines):
    rb, wc, rq = _parse_case(case)
    if rb is None:
        dist["modes-table"] = dist.get("modes-table", 0) + 1
        return
    m = py_mode(rb[0])
    k = "rejected" if m is None else "w%s-r%s" % (("lock", "single")[m[0]], ("wait", "singlewait", "busy", "once")[m[1]])
    dist[k] = dist.get(k, 0) + 1
    dist["throttle-%d" % rb[2]] = dist.get("throttle-%d" % rb[2], 0) + 1
    dist["cap-%d" % next_pow2(max(1, rb[1]))] = dist.get("cap-%d" % next_pow2(max(1, rb[1])), 0) + 1
    dist["events"] = dist.get("events", 0) + sum(1 for ln in lines if ln.startswith("E "))
    for ln in lines:
        if " fwait " in ln and ln.endswith(" 1"):
            dist["futex_sleeps"] = dist.get("futex_sleeps", 0) + 1
        elif " fwait " in ln and ln.endswith(" 2"):
            dist["futex_interrupted"] = dist.get("futex_interrupted", 0) + 1
        elif " fwait " in ln and ln.endswith(" 3"):
            dist["futex_spurious_wake"] = dist.get("futex_spurious_wake", 0) + 1
        elif ln.startswith("DEADLOCK") or ln.startswith("LIVELOCK"):
            dist["neg-" + ln.split()[0].lower()] = dist.get("neg-" + ln.split()[0].lower(), 0) + 1
    for code in _parse_vals(case).values():
        dist["value-" + val_kind(code)] = dist.get("value-" + val_kind(code), 0) + 1
    if _parse_vals(case):
        dist["cases-with-special-values"] = dist.get("cases-with-special-values", 0) + 1
        vs = list(_parse_vals(case).values())
        if len(set(vs)) < len(vs):
            dist["cases-with-repeated-value"] = dist.get("cases-with-repeated-value", 0) + 1
    if rq and any(i + q >= TWO32 for q, i in rq if q > 0):
        dist["index-wrap"] = dist.get("index-wrap", 0) + 1


MANIFEST = {
    "level_text": ("Coq theorems over an executable interleaving model of ring_buffer.c (write spinlock or single "
                   "writer, cursor as futex word, plain slots/payloads/read_cursor under release/acquire views, read "
                   "mutex; wait / single-wait / busy-loop / read-once readers) with an arbitrary number of writers and "
                   "readers, any power-of-two capacity and every schedule: under the documented no-lapping precondition "
                   "read(i) returns the i-th published message and only after it exists, all readers agree, the 32-bit "
                   "index wrap is harmless, read-once takes in read-mutex order are a prefix of the publication order with "
                   "strictly increasing per-reader positions and every position owned by one reader, every slot / payload / "
                   "read_cursor read is covered by the reader's view in all modes (memory orders re-extracted from the code "
                   "each run), and the harness throttle implies the precondition.  Tie: the real code runs under a deterministic scheduler (hooked atomics, emulated "
                   "futex/mutex) and every trace is replayed on the extracted model; an independent monitor checks "
                   "publication order, per-reader sequences, read-once prefix and payloads on the traces."),
    "design_ref": "DESIGN.md sections 4.2, 4.3, 6/C02, Appendix A.6, B",
    "level_note": ("Trusted: Coq kernel, extraction, vsched scheduler and its futex/mutex semantics, SC+views memory "
                   "model as stand-in for C11 (DRF-SC assumed); weak-memory effects exist only in the model."),
    "technique": "Coq invariant proofs over all interleavings (N threads, any 2^k capacity) + deterministic-scheduler trace acceptance by the extracted model",
}
