"""C02 — ring buffer: one total write order, read-once delivers each message once, payload
visibility: plugin for bin/check."""
import os
import re
import vcommon as V

ID = "C02"
COQ_DIRS = ["C02"]
MODEL_BASE = "c02_model"
OCAML_DRIVER = "ocaml/c02_driver.ml"
OCAML_INCLUDES = ["ocaml/vsacc.ml.inc"]
C_DRIVER = "harness/drivers/c02_driver.c"
REPO_SOURCES = ["muggle/c/sync/ring_buffer.c", "muggle/c/sync/spinlock.c", "muggle/c/sync/mutex.c",
                "muggle/c/sync/condition_variable.c", "muggle/c/base/thread.c", "muggle/c/base/utils.c"]
HEADER_LINES = 3
SHRINK = False          # a case is (scenario, schedule); schedules are not line-shrinkable
CASE_TIMEOUT = 5.0
MODEL_CASE_TIMEOUT = 5.0
RULE = ("scenarios (all 16 combinations of SINGLE_WRITER / SINGLE_READER / READ_BUSY_LOOP / MSG_READ_ONCE incl. the "
        "rejected one, optionally with the deprecated 0x04 bit; capacity 1, 2, 4, 8, 16, 32, 64 (requested values that round "
        "to them); 1..3 writers x 1..3 readers (1 where the flag promises a single one); 1..4 messages per writer, for the "
        "rings of 16..64 blocks up to 40 per writer so that the ring wraps; 0..capacity-1 messages in the ring when the "
        "threads start; read-all readers start at ANY valid index: at the cursor, LATE at an older still valid message, "
        "at different residues, near / across the 32-bit wrap of the index (2^32-k), and may STOP EARLY (quota smaller "
        "than the number of messages, also 0); read-once readers may stop up to capacity-1 messages before the end; in half "
        "of the scenarios some or all messages carry adversarial pointer values (NULL, (void*)-1, any small integer 1..255 "
        "incl. ring positions / cursor values / capacity / 0xFF, addresses of the ring's blocks / the ring, the same value "
        "several times or for every message) instead of the address of their own payload object; harness throttle on) x "
        "seeded random schedules (context-switch density 20/50/80 %; for the futex-sleeping reader modes two thirds of the "
        "schedules also interrupt would-block futex waits with EINTR at 15/30/60 % and wake them spuriously at 0/20 %) run "
        "on the real code under the deterministic scheduler; every trace replayed on the extracted model; plus a negative "
        "stream with the throttle off (precondition violated; only model/implementation agreement is checked unless the "
        "trace happens to satisfy the precondition); plus IDLE scenarios under the scheduler's virtual clock (time(), "
        "clock_gettime(), gettimeofday(), nanosleep() of the scheduled threads read virtual time): the writer stays quiet "
        "for 2.5 .. 60 virtual seconds and then writes fewer messages than there are caught-up readers, in every reader "
        "mode; plus the type probe and the capacity-rounding table (1100 requests up to 2^20 and refused ones); non-trivial "
        "= the trace contains a contended lock acquisition, a reader that found the ring empty (futex wait / spin) or a "
        "throttled writer; distinct = distinct trace text")
TRUSTED_BASE = [
    "modelled, not verified: sequentially consistent interleaving of atomic operations plus release/acquire views for "
    "the plain cells (slots, payloads, read_cursor) as stand-in for C11 (DRF-SC assumed, not proved); futex = atomic "
    "compare-and-block / wake (lowest sleeping thread first), where a wait that would block may instead return -1/EINTR "
    "or 0 without a wake-up (schedule choices, also steps of the model), and pthread mutex = exclusive ownership with "
    "acquire/release, as interposed by harness/vsched; real weak-memory reorderings cannot be exhibited on x86 under a "
    "serialised run",
    "the scheduler's VIRTUAL CLOCK (harness/vsched/vsched.c, vs_clock.c: time advances per scheduling step, jumps when "
    "every runnable thread spins or nobody is runnable; a quiet period is a schedule in which the thread is not chosen, "
    "invisible to the program and to the model) stands for wall-clock time; code that looks at the clock only every N "
    "spins is reached only by the long idle scenarios of search() (run when an obligation or the correspondence broke)",
    "memory orders of the 7 sites (tas, clear, cursor store in write_lock / write_single, cursor load in read_wait / "
    "read_busy_loop / read_once), the flag -> mode table of muggle_ring_buffer_get_mode, the capacity-rounding table of "
    "muggle_ring_buffer_init, the sizeof / signedness of the fields and the public prototypes are re-extracted from the "
    "executed / compiled code into coq/gen/Params_C02.v on every run; the theorems' side conditions are discharged "
    "against them.  The macro bodies of muggle/c/base/atomic.h are NOT compiled into the driver (vs_hooks.h redefines "
    "every muggle_atomic_* with the builtin and the call-site order): a tie for them is C04's subject",
    "second tie (translator kind): lib/props/c02_slice.py slices the integer content of the write / wake / read functions "
    "and of the two entry points out of the clang JSON AST of the C text of this run (one loop iteration executed "
    "symbolically, lock / unlock calls dropped, file-local helpers inlined) into Gallina (C integer semantics of "
    "lib/leaftrans.py); obligations rb_code_*_matches prove them equal to reference functions for every capacity 2^k "
    "(k <= 30), every position and every 32-bit index by a shape-independent decision tactic, and C02/ProofsTie.v proves "
    "that the model's step function computes the same references; trusted: clang 14 AST, the slicer.  Only the futex "
    "(MUGGLE_C_HAVE_SYNC_OBJ) configuration of ring_buffer.c is compiled, sliced and modelled",
    "AST scans (lib/props/c02_scan.py, clang JSON; taint analysis / width scan, not proofs): no payload value is used "
    "other than copied / returned / discarded; no integer variable or conversion narrower than 32 bits",
    "the harness client (c02_driver.c: tickets, payload store before the write, throttle over the readers that still "
    "read, per-reader start positions and counters) is part of the model (plain segments)",
]
ASSUMPTIONS = [
    "documented usage: writers never get a full capacity ahead of a reader that is still reading (the harness throttle "
    "enforces writes begun < next index of every such reader + capacity; the theorems carry it as the ghost monitor "
    "s_lapped = false)",
    "a reader's first index names a ring position that has been written (or the cursor position): wf_cfg's "
    "0 <= rd_start; an index whose position was never written reads an uninitialised block and is outside the property",
    "SINGLE_WRITER / SINGLE_READER flags are honoured by the user (one writer / one reader thread)",
    "read-once readers all use read-once mode",
]
EVIDENCE_NOTES = [
    "message values: the driver sends adversarial pointer values as messages in every reader mode (NULL, (void*)-1, "
    "any small integer 1..255, addresses of the ring's own blocks and of the ring object, the same value several times "
    "or for all messages; counts per kind under input_distribution value-*); the monitor judges by VALUE: read #k of a "
    "reader returns exactly the value of the message at its logical index and never blocks once it exists (scheduler "
    "DEADLOCK / LIVELOCK = violation with the schedule as replay).  Justification for sampling values: "
    "ring_delivery_value_independent / ring_trace_value_independent (the model is parametric in the values) plus the "
    "additional obligation rb_code_never_compares_payload, an AST-based taint scan of ring_buffer.c run in gen_params on "
    "every check (lib/props/c02_scan.py): every use of a payload value - blocks[i].data, what is stored into it, every "
    "variable / parameter / return value it is copied through, also through the function pointer tables - other than "
    "copying, returning or discarding it is counted (truthiness tests, ?:, switch, comparisons, arithmetic, casts to "
    "integers, dereferences, calls of functions outside the file such as memcmp); it is a scan, not a proof about the C code",
    "blocking until the message exists: safety half in rb_read_returns_ith; the monitor clause 'no reader is blocked at "
    "the end of a scenario whose message exists' is checked on every trace, including the idle scenarios (quiet writer "
    "under the virtual clock, fewer messages than readers); liveness under fairness is C03's subject",
    "all listed theorems are proved in full (no _partial left): rb_payload_visible covers every writer/reader mode "
    "including read-once (read_cursor under read_mutex); rb_once_positions states that a reader's positions strictly "
    "increase and that every taken position is returned or pending with exactly one reader; rb_throttle_no_lap "
    "proves that the model of the harness throttle implies the no-lapping precondition (s_lapped never fires); "
    "rb_start_position / wf_cfg admit every first index whose ring position has been written (late joiners, different "
    "residues, any quota); rb_capacity_rounding states the rounding for every 32-bit request",
    "the model additionally evaluates its ghost monitors on every accepted trace (F MODEL line = divergence if the "
    "precondition monitor fires under the throttle or a plain read is uncovered under SC orders), and the Python "
    "monitor re-checks the throttle independently on the trace",
]

SITES = [  # (params field, discovery scenario, op, cell)
    ("mo_tas", "lockwait", "tas", "wlock"), ("mo_clear", "lockwait", "clear", "wlock"),
    ("mo_st_lock", "lockwait", "store", "cursor"), ("mo_st_single", "singlebusy", "store", "cursor"),
    ("mo_ld_wait", "lockwait", "load", "cursor"), ("mo_ld_busy", "singlebusy", "load", "cursor"),
    ("mo_ld_once", "once", "load", "cursor"),
]
MO = {"rlx": "Rlx", "con": "Con", "acq": "Acq", "rel": "Rel", "acqrel": "AcqRel", "sc": "SeqCst", "none": "MoNone"}
TWO32 = 1 << 32
F_SW, F_SR, F_BUSY, F_ONCE = 0x01, 0x02, 0x08, 0x10


# pointer values a message can carry (codes shared with c02_driver.c): a message is an opaque void*
V_NULL, V_MINUS1, V_RING = -2, -3, -2000


def v_int(n):
    return -10 - n


def v_block(k):
    return -1000 - k


def val_kind(code):
    if code >= 0:
        return "own-object"
    if code == V_NULL:
        return "NULL"
    if code == V_MINUS1:
        return "(void*)-1"
    if code == V_RING:
        return "&ring"
    if -265 <= code <= -11:
        return "small-int"
    if -2000 < code <= -1000:
        return "&blocks[k]"
    return "other"


SCAN_CFLAGS = ["-std=gnu11", "-DNDEBUG", "-DMUGGLEC_VERIF", "-DMUGGLE_C_EXPORTS"]


def scan_payload_comparisons(repo=None):
    """AST-based source scan (lib/props/c02_scan.py, clang JSON; an ADDITIONAL obligation, not a proof): the ring
    must treat message values as opaque.  Returns (hits, payload read sites, payload store sites, narrow-int hits):
    hits = every use of a payload value (blocks[i].data, what is stored into it, whatever is assigned from / returned
    with / passed along such a value inside the file, also through the function pointer tables) other than copying,
    returning or discarding it - truthiness tests, comparisons, ?: conditions, switch, arithmetic, casts to
    integers, dereferences, calls of functions outside the file (memcmp, ...).  Raises c02_scan.ScanError when the
    file cannot be analysed (the caller breaks the obligation)."""
    try:
        from props import c02_scan
    except ImportError:
        import c02_scan
    V.gen_config_header()
    repo = repo or V.REPO
    return c02_scan.scan_all(os.path.join(repo, "muggle/c/sync/ring_buffer.c"),
                             SCAN_CFLAGS + ["-I" + repo, "-I" + V.GEN_INC])


def cap_requests():
    """requested capacities for the rounding table: every n in 0..1025, 2^k-1, 2^k, 2^k+1 up to 2^20, refused ones
    above 2^30, a few that need more memory than there is (alloc-failed rows are dropped)"""
    ns = list(range(0, 1026))
    for k in range(11, 20):
        ns += [2 ** k - 1, 2 ** k, 2 ** k + 1]
    ns += [2 ** 20 - 1, 2 ** 20, 3000, 5000, 70000, 100000, 300001, 777777, 1000000,
           2 ** 22 + 1, 2 ** 30, 2 ** 30 + 1, 2 ** 31 - 1, 2 ** 31, 2 ** 31 + 1, 2 ** 32 - 1]
    return ns


def build_impl(ctx):
    # virtual clock: time() / clock_gettime() / gettimeofday() of scheduled threads read the scheduler's clock
    return V.build_vsched_driver(ID, C_DRIVER, REPO_SOURCES, extra_c=["harness/vsched/vs_clock.c"],
                                 extra_wraps=["time", "clock_gettime", "gettimeofday"])


def py_mode(flag):
    """independent transcription of the documented flag semantics (ring_buffer.h): returns
    (wmode, rmode) or None for the rejected combination"""
    w = 1 if flag & F_SW else 0
    if flag & F_SR:
        return (w, 2 if flag & F_BUSY else 1)
    if flag & F_ONCE:
        return None if flag & F_BUSY else (w, 3)
    return (w, 2 if flag & F_BUSY else 0)


def next_pow2(n):
    c = 1
    while c < n:
        c *= 2
    return c


def _discovery_cases():
    return [V.Case("disc-lockwait", ["rb 0 4 1 1", "w 2 1", "r 3:4294967293", "sched rand 1 30 0 0"]),
            V.Case("disc-singlebusy", ["rb 9 4 1 1", "w 3", "r 3:4294967293", "sched rand 2 30 0 0"]),
            V.Case("disc-once", ["rb 16 4 1 0", "w 2 1", "r 2:0 1:0", "sched rand 3 30 0 0"]),
            V.Case("disc-modes", ["modes"]), V.Case("disc-types", ["types"]),
            V.Case("disc-caps", ["caps " + " ".join(map(str, cap_requests()))])]


def gen_params(ctx):
    """Memory orders actually passed by the code at each site (observed by the hooks) and the
    flag -> mode table the code computes."""
    exe = build_impl(ctx)
    res = V.run_batch(exe, _discovery_cases(), per_case_timeout=5.0)
    seen = {}
    table = []
    for name, r in res.items():
        scen = name.split("-")[1]
        for ln in r["lines"]:
            w = ln.split()
            if len(w) >= 5 and w[0] == "E":
                seen.setdefault((scen, w[2], w[3]), set()).add(w[4])
            if len(w) == 6 and w[0] == "F" and w[1] == "mode":
                table.append((int(w[2]), int(w[3]), int(w[4]), int(w[5])))
    fields, notes = [], []
    for field, scen, op, cell in SITES:
        mos = seen.get((scen, op, cell), set())
        if len(mos) != 1:
            # an unobserved or ambiguous site is a failed obligation, not a default
            notes.append("(* site %s (%s %s %s): observed %s *)" % (field, scen, op, cell, sorted(mos)))
            fields.append("%s := MoNone" % field)
        else:
            fields.append("%s := %s" % (field, MO.get(next(iter(mos)), "MoNone")))
    if len(table) != 32:
        notes.append("(* flag -> mode table: %d of 32 rows observed *)" % len(table))
    # C types (driver probe) and capacity rounding (muggle_ring_buffer_init run for every request)
    ftypes, sigs, blk, caps = [], [], None, []
    for ln in res.get("disc-types", {}).get("lines", []):
        w = ln.split()
        if len(w) == 5 and w[:2] == ["F", "field"]:
            ftypes.append((w[2], int(w[3]), int(w[4])))
        elif len(w) == 4 and w[:2] == ["F", "sig"]:
            sigs.append((w[2], int(w[3])))
        elif len(w) == 5 and w[:2] == ["F", "block"]:
            blk = (int(w[3]), int(w[4]))
    nfail = 0
    for ln in res.get("disc-caps", {}).get("lines", []):
        w = ln.split()
        if len(w) == 5 and w[:2] == ["F", "cap"]:
            caps.append((int(w[2]), int(w[3]), int(w[4])))
        elif len(w) == 4 and w[3] == "alloc-failed":
            nfail += 1
    if [f[0] for f in ftypes] != ["capacity", "cursor", "read_cursor", "flag", "write_mode", "read_mode"] or \
            [g[0] for g in sigs] != ["read", "write", "init"] or blk is None:
        notes.append("(* type probe incomplete: %s %s %s *)" % (ftypes, sigs, blk))
        ftypes, sigs, blk = [], [], (-1, -1)
    # source scans (clang AST): payload opacity, integer widths
    try:
        hits, nread, nstore, narrow = scan_payload_comparisons()
        if nread < 1 or nstore < 1:
            hits = list(hits) + ["the scan found no read / no store of a block's payload (%d / %d): it is blind" % (nread, nstore)]
    except Exception as e:                      # a scan that cannot run breaks the obligation, never a silent pass
        hits, nread, nstore, narrow = ["scan failed: %s" % str(e)[:300]] * 999, 0, 0, ["scan failed"] * 999
    for h in hits[:40]:
        notes.append("(* payload used in ring_buffer.c: %s *)" % h.replace("*)", "* )").replace("(*", "( *"))
    for h in narrow[:40]:
        notes.append("(* narrow integer in ring_buffer.c: %s *)" % h.replace("*)", "* )").replace("(*", "( *"))
    # translator tie: the integer content of the functions of ring_buffer.c, sliced out of the clang AST of this run
    try:
        try:
            from props import c02_scan, c02_slice
        except ImportError:
            import c02_scan
            import c02_slice
        tie = c02_slice.gallina(c02_scan.load_tu(os.path.join(V.REPO, "muggle/c/sync/ring_buffer.c"),
                                                 SCAN_CFLAGS + ["-I" + V.REPO, "-I" + V.GEN_INC]))
    except Exception as e:                      # a translator failure breaks the obligations, never a silent skip
        msg = str(e)[:400].replace("*)", "* )").replace("(*", "( *")
        tie = ("(* lib/props/c02_slice.py could not slice ring_buffer.c: %s *)\n" % msg +
               "".join("Definition %s (m cap cur rc wpos idx : Z) : Z * Z * Z * Z * Z * Z := (99, 0, 0, 0, 0, 0).\n"
                       "Definition %s_len : Z := 0.\n" % (g, g) for g in ("gen_write_fn", "gen_wake_fn", "gen_read_fn")) +
               "Definition gen_write_entry (wm rm : Z) : list (Z * Z) := [].\n"
               "Definition gen_read_entry (cap rm idx : Z) : Z * Z * Z := (99, 0, 0).\n"
               "#[global] Hint Unfold gen_write_fn gen_wake_fn gen_read_fn gen_write_entry gen_read_entry : c02tie.\n")
    rows = "; ".join("(%d, %d, %d, %d)" % (f, rc, wm, rm) for f, rc, wm, rm in table)
    caprows = ";\n   ".join("; ".join("(%d, %d, %d)" % r for r in caps[i:i + 8]) for i in range(0, len(caps), 8))
    txt = ("(* generated by lib/props/c02.py from the memory orders observed at each atomic site of\n"
           "   ring_buffer.c / spinlock.c and from the flag -> mode table computed by\n"
           "   muggle_ring_buffer_init on this run; do not edit *)\n"
           "From MV Require Import C02.Model.\nLocal Open Scope Z_scope.\n" + "\n".join(notes) + ("\n" if notes else "") +
           "Definition code_params : params :=\n  {| " + ";\n     ".join(fields) + " |}.\n"
           "(* (flag, init return value, write_mode, read_mode); -1 = not set *)\n"
           "Definition code_mode_table : list (Z * Z * Z * Z) :=\n  [" + rows + "].\n"
           "(* AST scan of ring_buffer.c (lib/props/c02_scan.py): number of uses of a payload value (blocks[i].data, what is\n"
           "   stored into it, values copied from / returned with / passed along it inside the file) other than copying,\n"
           "   returning or discarding it; the ring must treat messages as opaque.  %d payload reads, %d payload stores seen *)\n"
           "Definition code_payload_comparisons : nat := %d.\n" % (nread, nstore, len(hits)) +
           "(* (sizeof, signed) of capacity, cursor, read_cursor, flag, write_mode, read_mode as compiled *)\n"
           "Definition code_field_types : list (Z * Z) := [" + "; ".join("(%d, %d)" % (a, b) for _, a, b in ftypes) + "].\n"
           "(* muggle_ring_buffer_read / _write / _init have exactly the prototypes the model transcribes (1 = yes) *)\n"
           "Definition code_sigs : list Z := [" + "; ".join(str(v) for _, v in sigs) + "].\n"
           "(* (offset, size) of the payload pointer inside a block *)\n"
           "Definition code_block_ptr : Z * Z := (%d, %d).\n" % blk +
           "(* integer variables / conversions narrower than 32 bits in the functions of ring_buffer.c (AST scan) *)\n"
           "Definition code_narrow_ints : nat := %d.\n" % len(narrow) +
           "(* (requested capacity, return code of muggle_ring_buffer_init, capacity field or -1), %d requests could not be\n"
           "   allocated and are left out *)\n" % nfail +
           "Definition code_cap_table : list (Z * Z * Z) :=\n  [" + caprows + "].\n"
           "\n(* --- integer content of the functions of muggle/c/sync/ring_buffer.c, sliced out of the C text of this run\n"
           "   (lib/props/c02_slice.py): inputs cap = r->capacity, cur = r->cursor read plainly, rc = r->read_cursor,\n"
           "   wpos = value of the atomic load of r->cursor, idx = the index argument; result (kind, val, slot_w, cur_st,\n"
           "   rc_st, wake), see C02/ProofsTie.v --- *)\n"
           "From MV Require Import Lib.Leaf.\n" + tie)
    return txt


# ---------------------------------------------------------------------------
# generator

CAPS = [1, 2, 2, 2, 2, 4, 4, 4, 4, 4, 4, 8, 8, 8, 8, 16, 16, 32, 64]


def rd_start(pre, idx0, cap):
    """logical position (in the write order) of the message the first index idx0 names: the largest position
    <= pre congruent to idx0 modulo the capacity; negative = that ring position has never been written"""
    return pre - ((pre - idx0) % cap)


def _values(rng, lines, nmsg, cap):
    # adversarial message values (about half of the scenarios): NULL, (void*)-1, ANY small integer 1..255 (in
    # particular ring positions / cursor values / 1 / capacity / 0xFF), the address of the ring's own blocks and of
    # the ring, repeated identical values
    if nmsg <= 0 or not rng.chance(1, 2):
        return
    pool = [V_NULL, V_NULL, V_MINUS1, V_MINUS1, v_int(1), v_int(rng.range(1, max(1, cap))), v_int(min(255, cap)),
            v_int(rng.range(1, 255)), v_int(rng.range(1, 255)), v_int(255), v_int(254), v_int(rng.choice([2, 3, 7, 15, 16, 127, 128])),
            v_block(rng.below(cap)), v_block(0), V_RING]
    vals = {}
    for _ in range(rng.range(1, max(1, min(6, nmsg)))):
        vals[rng.below(nmsg)] = rng.choice(pool)
    if rng.chance(1, 3) and nmsg >= 2:          # the same value several times in a row
        c0, a0 = rng.choice(pool), rng.below(nmsg - 1)
        vals[a0] = c0
        vals[a0 + 1] = c0
        if nmsg >= 3 and rng.chance(1, 2):
            vals[min(nmsg - 1, a0 + 2)] = c0
    if rng.chance(1, 6):                         # every message is a special value
        for i in range(nmsg):
            vals.setdefault(i, rng.choice(pool))
    if rng.chance(1, 12):                        # every message carries the SAME special value
        c0 = rng.choice(pool)
        for i in range(nmsg):
            vals[i] = c0
    lines.append("v " + " ".join("%d:%d" % (i, vals[i]) for i in sorted(vals)))


def _scenario(rng, throttle, flag=None, cap=None):
    if flag is None:
        # mode first (uniform over the 8 accepted combinations, the rejected one 1 in 16), then any flag value
        # that selects it (includes the deprecated 0x04 bit and redundant bits)
        target = None if rng.chance(1, 16) else (rng.below(2), rng.below(4))
        flag = rng.choice([f for f in range(32) if py_mode(f) == target])
    if cap is None:
        cap = rng.choice(CAPS)
    capreq = rng.range(cap // 2 + 1, cap) if cap > 2 else cap
    mode = py_mode(flag)
    if mode is None:
        return ["rb %d %d %d 0" % (flag, capreq, throttle), "w 1", "r 1:0"]
    wm, rm = mode
    nw = 1 if wm == 1 else rng.range(1, 3)
    nr = 1 if (flag & F_SR) else rng.range(1, 3)
    # messages per writer: a few; for the larger rings sometimes enough to wrap the ring
    hi = 4 if cap <= 8 or not rng.chance(1, 2) else min(40, cap)
    wc = [rng.range(1, hi) for _ in range(nw)]
    total = sum(wc)
    # pre messages are in the ring when the threads start (cursor = pre < capacity); base is the 32-bit index that
    # names the cursor position: near the 32-bit wrap, at it, or small
    pre = 0 if cap == 1 else rng.choice([rng.below(cap), rng.below(cap), rng.below(min(cap, 4)), cap - 1])
    wraps = TWO32 // cap
    kbase = rng.choice([wraps - 1, wraps - 1, wraps - 1, 0, wraps - 1 if pre >= 3 else 0, rng.below(wraps), 1])
    base = (kbase * cap + pre) % TWO32
    if rm == 3 and cap == 1:
        # a ring of one block can never be read, and the read-once throttle (delivered + capacity) never lets a
        # writer begin: zero-read readers, throttle off (only model / implementation agreement is checked)
        throttle = 0
        quotas = [0] * nr
        idx = [rng.choice([0, TWO32 - 1, 5]) for _ in range(nr)]
    elif rm == 3:
        # read-once: the index is ignored; the pre-written messages are delivered too; the readers may stop
        # up to capacity-1 messages before the end (the throttle still lets the writers finish)
        left = total + pre
        if cap > 1 and throttle and rng.chance(1, 4):
            left -= rng.range(0, min(left, cap - 1))
        quotas = []
        for i in range(nr):
            q = left if i == nr - 1 else rng.range(0, left)
            quotas.append(q)
            left -= q
        quotas = rng.shuffle(quotas)
        idx = [rng.choice([base, base, (base + rng.below(cap)) % TWO32, rng.below(TWO32)]) for _ in range(nr)]
    elif cap == 1:
        # a ring of one block can never be read (cursor == position always): only zero-read readers
        quotas = [0] * nr
        idx = [rng.choice([0, TWO32 - 1, 5]) for _ in range(nr)]
    else:
        quotas, idx = [], []
        kind = rng.below(4)         # 0: all at the cursor; 1: all late at one older message; 2,3: mixed
        common = rng.range(0, pre)
        for i in range(nr):
            st = pre if kind == 0 else common if kind == 1 else rng.choice([pre, rng.range(0, pre), 0, max(0, pre - 1)])
            full = (pre - st) + total
            q = full if rng.chance(1, 2) else rng.range(0, full)      # stops early (possibly reads nothing)
            quotas.append(q)
            idx.append((base - (pre - st) - cap * rng.choice([0, 0, 1, 2])) % TWO32)
    lines = ["rb %d %d %d %d" % (flag, capreq, throttle, pre), "w " + " ".join(map(str, wc)),
             "r " + " ".join("%d:%d" % (q, i) for q, i in zip(quotas, idx))]
    _values(rng, lines, total + pre, cap)
    return lines


def _idle_scenario(rng, flag=None, heavy=False):
    """The writer stays QUIET for virtual seconds (virtual clock of harness/vsched) and then writes fewer messages
    than there are caught-up readers: no reader may stay blocked once its message exists.  A cheap variant (clock
    jumps while everybody spins; a few hundred steps) and a heavy one (no jumps, 20 us per step, up to a million
    steps: long enough for code that looks at the clock only every 2^16 spins and parks after seconds)."""
    if flag is None:
        flag = rng.choice([0, 0, 1, 8, 8, 9, 9, 8, 2, 3, 10, 11, 16, 17, 0 | 4, 8 | 4])
    wm, rm = py_mode(flag)
    cap = rng.choice([2, 4, 4, 8, 16])
    nr = 1 if (flag & F_SR) else (rng.range(2, 3) if not heavy else rng.choice([2, 3]))
    pre = rng.below(min(cap, 3))
    burst = 0 if heavy else rng.below(min(3, cap - pre))      # messages written before the quiet period
    after = 1 if (heavy or nr <= 2) else rng.range(1, nr - 1)  # fewer than there are readers
    if rm == 3:
        after = max(1, nr - 1) if not heavy else 1
    total = burst + after
    wraps = TWO32 // cap
    base = ((wraps - 1) * cap + pre) % TWO32 if rng.chance(1, 2) else pre
    if rm == 3:
        quotas = [0] * nr
        for k in range(total + pre):
            quotas[k % nr] += 1
    else:
        quotas = [total] * nr
    lines = ["rb %d %d 1 %d" % (flag, cap, pre), "w %d" % total,
             "r " + " ".join("%d:%d" % (q, base) for q in quotas)]
    if heavy:
        lines += ["clock 20000 0", "q 0:0:%d" % (13000 if nr == 2 else 21000), "budget 3000000"]
    else:
        qs = ["0:%d:%d" % (burst, rng.choice([2500, 5000, 60000]))]
        if after >= 2 and rng.chance(1, 2):
            qs.append("0:%d:%d" % (burst + 1, rng.choice([2500, 7000])))
        lines += ["clock %d %d" % (rng.choice([1000, 100000]), rng.choice([250000000, 1000000000])), "q " + " ".join(qs)]
    return lines


def _mk(name, scen, sched):
    return V.Case(name, list(scen) + ["sched " + sched], {"scen": scen[0]})


def _rand_sched(rng, scen, sticks=(20, 50, 80)):
    """seeded random schedule; scenarios whose readers sleep in the futex (wait, single-wait, read-once) get, in
    two cases out of three, interrupted futex waits (muggle_sync_wait returns -1/EINTR instead of blocking) and
    spurious wake-ups (returns 0 without a wake): the reader must loop and never return without its message"""
    seed, stick = rng.below(1 << 30), rng.choice(list(sticks))
    mode = py_mode(int(scen[0].split()[1]))
    if mode is not None and mode[1] in (0, 1, 3) and rng.chance(2, 3):
        return "rand %d %d 0 0 %d %d" % (seed, stick, rng.choice([15, 30, 60]), rng.choice([0, 0, 20]))
    return "rand %d %d 0 0" % (seed, stick)


def corpus_cases(ctx):
    cs = [V.Case("corpus-modes", ["modes"]), V.Case("corpus-types", ["types"]),
          V.Case("corpus-caps", ["caps " + " ".join(map(str, cap_requests()))])]
    # every accepted flag combination once with a fixed schedule seed, and the rejected ones
    for flag in range(32):
        cs.append(_mk("corpus-flag-%d" % flag, _scenario(V.Rng(1000 + flag), 1, flag), "rand %d 50 0 0" % (flag + 1)))
    # two writers, capacity 2, index wrap, reader parked between its load and its wait
    cs.append(_mk("corpus-wrap-cap2", ["rb 0 2 1 1", "w 3 3", "r 6:4294967293 6:4294967291"], "rand 77 20 0 0"))
    cs.append(_mk("corpus-once-cap2", ["rb 16 2 1 0", "w 3 3", "r 2:0 3:7 1:9"], "rand 78 20 0 0"))
    cs.append(_mk("corpus-list", ["rb 0 4 1 1", "w 2 2", "r 4:4294967293"],
                  "list - 0 0 1 1 2 2 0 0 1 1 2 2 0 1 2 0 1 2 2 2 1 1 0 0"))
    # interrupted / spuriously woken futex waits: the waiting reader must loop, never return without its message
    cs.append(_mk("corpus-eintr-wait", ["rb 0 4 1 1", "w 2 2", "r 4:4294967293 4:4294967293"], "rand 91 30 0 0 60 20"))
    cs.append(_mk("corpus-eintr-singlewait", ["rb 2 2 1 1", "w 3", "r 3:4294967293"], "rand 92 30 0 0 60 0"))
    cs.append(_mk("corpus-eintr-once", ["rb 16 2 1 0", "w 2 2", "r 2:0 2:0"], "rand 93 30 0 0 60 20"))
    cs.append(_mk("corpus-eintr-list", ["rb 0 4 1 1", "w 2", "r 2:4294967293"],
                  "list f0,w1,f2, 1 1 1 1 1 1 1 1 1 1 1 1 0 0 0 0 0 0 0 0 1 1 1 1 1 1 1 1"))
    # adversarial message values: (void*)-1, NULL, small integers, ring addresses, repeats - in every reader mode
    for k, (flag, nm) in enumerate([(0, "wait"), (2, "singlewait"), (8, "busy"), (16, "once"), (9, "single-busy")]):
        rd = "r 2:0 3:0" if flag == 16 else ("r 5:4294967293" if flag in (2, 9) else "r 5:4294967293 5:4294967293")
        pre = 0 if flag == 16 else 1
        wl = "w 5" if flag == 9 else "w 2 %d" % (3 if flag == 16 else 2)
        if flag == 9:
            rd, pre, wl = "r 5:4294967293", 1, "w 5"
        elif flag != 16:
            wl = "w 2 3"
        cs.append(_mk("corpus-values-%s" % nm, ["rb %d 4 1 %d" % (flag, pre), wl, rd,
                                                "v 1:-3 2:-2 3:-11 4:-1001 5:-3"], "rand %d 40 0 0" % (300 + k)))
    cs.append(_mk("corpus-values-repeat", ["rb 0 2 1 1", "w 3 2", "r 5:4294967293", "v 0:-3 1:-3 2:-3 3:-12 4:-12 5:-2000"],
                  "rand 311 30 0 0 30 0"))
    # capacities 1 (never readable: zero-read readers), 16, 32, 64 with enough messages to wrap the ring
    cs.append(_mk("corpus-cap1", ["rb 0 1 1 0", "w 3 2", "r 0:0 0:4294967295"], "rand 401 40 0 0"))
    cs.append(_mk("corpus-cap1-once", ["rb 16 1 0 0", "w 2", "r 0:0"], "rand 402 40 0 0"))
    cs.append(_mk("corpus-cap16-wrap", ["rb 0 9 1 5", "w 12 11", "r 23:4294967285 18:4294967285"], "rand 403 50 0 0 30 0"))
    cs.append(_mk("corpus-cap32-busy", ["rb 8 17 1 31", "w 20 20", "r 40:4294967295 71:4294967264 9:4294967290"], "rand 404 50 0 0"))
    cs.append(_mk("corpus-cap64-once", ["rb 16 33 1 3", "w 35 35", "r 30:0 23:7 20:9"], "rand 405 50 0 0 30 20"))
    cs.append(_mk("corpus-cap64-single", ["rb 11 64 1 63", "w 70", "r 133:4294967232"], "rand 406 60 0 0"))
    # late joiners (older, still valid first index; different residues; across the 32-bit wrap), early stop
    cs.append(_mk("corpus-late-wait", ["rb 0 8 1 5", "w 4 4", "r 10:4294967291 8:4294967293 3:4294967288 0:4294967292"], "rand 411 40 0 0 30 20"))
    cs.append(_mk("corpus-late-busy", ["rb 8 4 1 3", "w 3 3", "r 9:0 6:3 2:2"], "rand 412 40 0 0"))
    cs.append(_mk("corpus-late-single", ["rb 2 8 1 6", "w 5", "r 7:4294967292"], "rand 413 40 0 0 60 0"))
    cs.append(_mk("corpus-late-values", ["rb 9 8 1 4", "w 6", "r 10:4294967288 8:4294967290", "v 0:-2 1:-3 2:-265 3:-11 5:-2 9:-137"], "rand 414 40 0 0"))
    cs.append(_mk("corpus-unwritten-position", ["rb 0 8 1 2", "w 2", "r 1:5"], "rand 415 40 0 0"))
    # the writer stays quiet for virtual seconds, then writes fewer messages than there are readers (all reader modes)
    for k, fl in enumerate([0, 1, 8, 9, 2, 10, 16, 17]):
        cs.append(_mk("corpus-idle-%d" % fl, _idle_scenario(V.Rng(2000 + fl), fl), "rand %d 50 0 0" % (420 + k)))
    corp = os.path.join(V.VERIF, "corpus", ID)
    if os.path.isdir(corp):
        for f in sorted(os.listdir(corp)):
            if f.endswith(".case"):
                cs.append(V.Case.load(os.path.join(corp, f)))
    return cs


def generate(rng, tier):
    cases = []
    npos = 5000 if tier == "quick" else 60000
    nneg = 1200 if tier == "quick" else 15000
    for i in range(npos):
        scen = _scenario(rng, 1)
        cases.append(_mk("pos-%d" % i, scen, _rand_sched(rng, scen)))
    for i in range(nneg):
        scen = _scenario(rng, 0)
        cases.append(_mk("neg-%d" % i, scen, _rand_sched(rng, scen)))
    for i in range(250 if tier == "quick" else 3000):
        scen = _idle_scenario(rng)
        cases.append(_mk("idle-%d" % i, scen, _rand_sched(rng, scen)))
    if tier != "quick":
        # long idle periods (up to a million scheduling steps of 20 us): ~5 s each on the model side, thorough tier only
        for i, fl in enumerate([8, 9, 0, 16]):
            scen = _idle_scenario(rng, fl, heavy=True)
            cases.append(_mk("idle-heavy-%d" % i, scen, "rand %d 50 0 0" % rng.below(1 << 30)))
    return cases


def search(rng, diverging, tier):
    """extra inputs when an obligation or the correspondence broke: the ordinary families with more schedule
    densities, the idle families (quiet writer, virtual clock) and - last, they are long - the heavy idle cases in
    which busy readers spin through up to a million steps of 20 us each, so that code which looks at the clock
    only once in a while (every 2^16 spins) and reacts after seconds reaches that branch"""
    out = []
    for i in range(3500):
        flag = rng.choice([0, 0, 0, 8, 16, 16, 1, 9, 17, 2, 10])
        scen = _scenario(rng, 1, flag)
        out.append(_mk("search-%d" % i, scen, _rand_sched(rng, scen, (10, 30, 50, 80))))
    for i in range(600):
        scen = _idle_scenario(rng)
        out.append(_mk("search-idle-%d" % i, scen, _rand_sched(rng, scen, (10, 30, 50, 80))))
    for i, fl in enumerate([8, 9, 8, 0, 16, 10, 2]):
        scen = _idle_scenario(rng, fl, heavy=True)
        out.append(_mk("search-idle-heavy-%d" % i, scen, "rand %d 50 0 0" % rng.below(1 << 30)))
    return out


def _code_param_values():
    p = os.path.join(V.COQ, "gen", "Params_C02.v")
    txt = open(p).read()
    vals = []
    for field, _, _, _ in SITES:
        m = re.search(r"%s := (\w+)" % field, txt)
        vals.append(m.group(1) if m else "MoNone")
    return vals


def model_search(ctx):
    """The parameter obligation broke (a memory order was weakened): x86 under a serialised run cannot
    show the effect, so look for a history of the MODEL, with the parameters extracted from the code,
    in which a reader's plain read is not covered by its view."""
    vals = _code_param_values()
    scens = [["rb 0 4 1 0", "w 2 2", "r 4:0"], ["rb 1 4 1 0", "w 3", "r 3:0"], ["rb 9 2 1 0", "w 3", "r 3:0"],
             ["rb 16 4 1 0", "w 2 1", "r 2:0 1:0"], ["rb 8 4 1 1", "w 2 2", "r 4:4294967293 4:4294967293"],
             ["rb 17 2 1 0", "w 3", "r 2:0 1:0"], ["rb 0 2 1 1", "w 1 1 1", "r 3:4294967293"]]
    cases = []
    for i, sc in enumerate(scens):
        cases.append(V.Case("modelsearch-%d" % i, sc + ["params " + " ".join(vals), "explore %d 3000" % (ctx.seed + i)]))
    res = ctx.run_model(cases)
    for c in cases:
        r = res.get(c.name)
        if r and r["lines"] and r["lines"][0].startswith("FOUND"):
            lines = list(c.lines) + r["lines"]
            return (V.Case(c.name, lines), "model history (memory orders as extracted from the code: %s): %s" % (
                " ".join(vals), r["lines"][0][6:]))
    return None


def model_cases(cases, impl_results):
    out = []
    for c in cases:
        r = impl_results.get(c.name)
        lines = list(c.lines) + ["TRACE"] + (list(r["lines"]) if r else [])
        out.append(V.Case(c.name, lines, c.meta))
    return out


# ---------------------------------------------------------------------------
# independent monitor (does not use the Coq model): works on the scheduler trace

REL_OK = {"rel", "acqrel", "sc"}
ACQ_OK = {"acq", "acqrel", "sc"}


def _weak_orders(lines):
    """sites of the trace whose memory order is too weak for the hand-over of plain data"""
    bad = []
    for ln in lines:
        w = ln.split()
        if len(w) >= 5 and w[0] == "E":
            if w[2] == "store" and w[3] == "cursor" and w[4] not in REL_OK:
                bad.append("store cursor %s" % w[4])
            elif w[2] == "load" and w[3] == "cursor" and w[4] not in ACQ_OK:
                bad.append("load cursor %s" % w[4])
            elif w[2] == "tas" and w[3] == "wlock" and w[4] not in ACQ_OK:
                bad.append("tas wlock %s" % w[4])
            elif w[2] == "clear" and w[3] == "wlock" and w[4] not in REL_OK:
                bad.append("clear wlock %s" % w[4])
    return sorted(set(bad))


def _parse_case(case):
    rb = w = r = None
    for ln in case.lines:
        t = ln.split()
        if not t:
            continue
        if t[0] == "rb" and len(t) == 5:
            rb = tuple(int(x) for x in t[1:])
        elif t[0] == "w":
            w = [int(x) for x in t[1:]]
        elif t[0] == "r":
            r = [(int(e.split(":")[0]), int(e.split(":")[1])) for e in t[1:]]
    return rb, w, r


def _parse_vals(case):
    vals = {}
    for ln in case.lines:
        t = ln.split()
        if t and t[0] == "v":
            for e in t[1:]:
                i, c = e.split(":")
                if int(c) < 0:
                    vals[int(i)] = int(c)
    return vals


def monitor(case, lines):
    if any(ln.strip() == "modes" for ln in case.lines):
        return _mon_modes(lines)
    if any(ln.strip() == "types" for ln in case.lines):
        return _mon_types(lines)
    if any(ln.startswith("caps ") for ln in case.lines):
        return _mon_caps(case, lines)
    found = [ln for ln in case.lines if ln.startswith("FOUND")]
    if found:
        # replay of a model-level history (weakened memory order): it reproduces as long as the
        # code still passes the weak order at that site
        weak = _weak_orders(lines)
        if weak:
            return "%s [the code passes: %s]" % (found[0][6:], ", ".join(weak))
        return None
    rb, wc, rq = _parse_case(case)
    if rb is None or wc is None or rq is None:
        return None
    flag, capreq, throttle, pre = rb
    mode = py_mode(flag)
    f = [ln for ln in lines if ln.startswith("F ")]
    if not f:
        return "no output"
    if mode is None or capreq <= 0:
        return None if f[0] == "F init=6" else "flag 0x%x must be rejected with MUGGLE_ERR_INVALID_PARAM, got %r" % (flag, f[0])
    if f[0] != "F init=0":
        return "init failed for an accepted flag combination 0x%x: %r" % (flag, f[0])
    cap = next_pow2(capreq)
    want = "F cap=%d wmode=%d rmode=%d" % (cap, mode[0], mode[1])
    if len(f) < 2 or f[1] != want:
        return "mode/capacity: expected %r, got %r" % (want, f[1] if len(f) > 1 else None)
    if mode[1] != 3 and any(rd_start(pre, i0, cap) < 0 for _, i0 in rq):
        # a first index that names a never-written ring position: outside the property (the harness refuses it)
        return None if len(f) > 2 and f[2] == "F badcase" else "harness must refuse a never-written start position, got %r" % (f[2:3],)
    return _mon_trace(lines, cap, mode, throttle, pre, wc, rq, _parse_vals(case))


def _mon_modes(lines):
    rows = {}
    for ln in lines:
        w = ln.split()
        if len(w) == 6 and w[:2] == ["F", "mode"]:
            rows[int(w[2])] = (int(w[3]), int(w[4]), int(w[5]))
    for flag in range(32):
        m = py_mode(flag)
        exp = (6, -1, -1) if m is None else (0, m[0], m[1])
        if rows.get(flag) != exp:
            return "flag 0x%x: expected (ret, wmode, rmode) = %s, code gives %s" % (flag, exp, rows.get(flag))
    return None


def _mon_types(lines):
    """independent statement of the documented types: the capacity is a (signed 32-bit) muggle_atomic_int, the two
    cursors are 32-bit futex words, the public index is a uint32_t"""
    want = {"capacity": (4, 1), "cursor": (4, 0), "read_cursor": (4, 0)}
    got = {}
    for ln in lines:
        w = ln.split()
        if len(w) == 5 and w[:2] == ["F", "field"]:
            got[w[2]] = (int(w[3]), int(w[4]))
        elif len(w) == 4 and w[:2] == ["F", "sig"] and w[3] != "1":
            return "prototype of muggle_ring_buffer_%s is not the documented one" % w[2]
    for k, v in want.items():
        if got.get(k) != v:
            return "field %s: (sizeof, signed) = %s, expected %s" % (k, got.get(k), v)
    return None


def _mon_caps(case, lines):
    """capacity rounding: the smallest power of two >= the request, requests 0 and > 2^30 refused"""
    seen = 0
    for ln in lines:
        w = ln.split()
        if len(w) < 4 or w[:2] != ["F", "cap"]:
            continue
        seen += 1
        n = int(w[2])
        if w[3] == "alloc-failed":
            if n <= 2 ** 20:
                return "capacity %d: allocation failed" % n
            continue
        rc, cp = int(w[3]), int(w[4])
        if n == 0 or n > 2 ** 30:
            if rc != 6:
                return "capacity request %d must be refused with MUGGLE_ERR_INVALID_PARAM, got rc=%d capacity=%d" % (n, rc, cp)
        elif rc != 0 or cp != next_pow2(n):
            return "capacity request %d: rc=%d capacity=%d, expected %d" % (n, rc, cp, next_pow2(n))
    return None if seen else "no output"


def _mon_trace(lines, cap, mode, throttle, pre, wc, rq, vals=None):
    vals = vals or {}
    val = lambda mid: vals.get(mid, mid)      # the pointer value message mid carries (own object = its id)
    nw, nr = len(wc), len(rq)
    once = mode[1] == 3
    log = list(range(pre))              # publication-order log (message ids)
    pending = {}                        # writer tid -> id put but not yet published
    got = {t: [] for t in range(nw, nw + nr)}
    # logical start position of each reader (its first index names a ring position); quota = reads it will do
    start = {t: rd_start(pre, rq[i][1], cap) for i, t in enumerate(range(nw, nw + nr))}
    quota = {t: rq[i][0] for i, t in enumerate(range(nw, nw + nr))}
    takes = []                          # read-once: (reader, k, len(log) at the unlock)
    unlocks = {t: 0 for t in range(nw, nw + nr)}
    begun = pre
    precond = True
    exited = set()
    last_got = {}
    bad = None
    for ln in lines:
        w = ln.split()
        if not w:
            continue
        if w[0] in ("DEADLOCK", "LIVELOCK"):
            why = "scheduler reported %s" % ln
            if not once:
                for i, t in enumerate(range(nw, nw + nr)):
                    k = len(got[t])
                    if k < rq[i][0] and start[t] + k < len(log):
                        why += "; reader %d never returns from read #%d although the %d-th message (id %d, value %d = %s) is published" % (
                            t, k, start[t] + k, log[start[t] + k], val(log[start[t] + k]), val_kind(val(log[start[t] + k])))
                        break
            bad = bad or why
            break
        if w[0] == "X":
            exited.add(int(w[1]))
        elif w[0] == "E":
            t = int(w[1])
            if w[2] == "store" and w[3] == "cursor":
                if t not in pending:
                    bad = bad or "thread %d stores the cursor without a message" % t
                    continue
                log.append(pending.pop(t))
                if int(w[5]) != len(log) % cap:
                    bad = bad or "cursor store %s after %d publications (capacity %d)" % (w[5], len(log), cap)
            elif w[2] == "munlock" and w[3] == "rmtx":
                takes.append((t, unlocks.get(t, 0), len(log)))
                unlocks[t] = unlocks.get(t, 0) + 1
        elif w[0] == "R":
            t = int(w[1])
            if w[2] == "put":
                pending[t] = int(w[3])
                begun += 1
                if once:
                    lo = sum(len(v) for v in got.values())
                else:
                    # the writers must stay less than a capacity ahead of every reader that still reads
                    act = [start[u] + len(got[u]) for u in got if len(got[u]) < quota[u]]
                    lo = min(act) if act else None
                if lo is not None and not begun < lo + cap:
                    precond = False
            elif w[2] == "got":
                mid = int(w[3])
                k = len(got[t])
                got[t].append(mid)
                last_got[t] = mid
                if not once and precond and bad is None:
                    pos = start[t] + k
                    if pos >= len(log):
                        bad = "reader %d returned from read #%d (value %d = %s) before the %d-th message was published" % (t, k, mid, val_kind(mid) if mid != -1 else "no message value", pos)
                    elif mid != val(log[pos]):
                        if mid == -1:
                            bad = "reader %d read #%d returned a pointer that is no message value at all, the %d-th message carries %d" % (t, k, pos, val(log[pos]))
                        else:
                            bad = "reader %d read #%d returned value %d, the %d-th published message (id %d) carries %d (%s)" % (
                                t, k, mid, pos, log[pos], val(log[pos]), val_kind(val(log[pos])))
            elif w[2] == "pay":
                mid = last_got.get(t, -1)
                want = mid * 7 + 3 if mid >= 0 else -1
                if precond and bad is None and int(w[3]) != want:
                    bad = "reader %d received message %d but sees payload %s instead of %d" % (t, mid, w[3], want)
    if not precond:
        if throttle:
            return "harness fault: throttle on but the no-lapping precondition was violated in the trace"
        return None                     # negative stream: only model/implementation agreement is checked
    if bad:
        return bad
    if once:
        seq = []
        for (t, k, n) in takes:
            if k >= len(got[t]):
                return "reader %d unlocked read_mutex %d times but returned %d results" % (t, k + 1, len(got[t]))
            pos = len(seq)
            mid = got[t][k]
            if pos >= n:
                return "read-once reader %d took position %d (message %d) before it was published" % (t, pos, mid)
            if val(log[pos]) != mid:
                if mid >= 0 and mid in seq:
                    return "read-once: message %d delivered twice (to reader %d at position %d)" % (mid, t, pos)
                return "read-once: position %d delivered value %d to reader %d, write order has message %d carrying %d (loss, duplication or reordering)" % (pos, mid, t, log[pos], val(log[pos]))
            seq.append(mid)
        if len(seq) != sum(q for q, _ in rq):
            return "read-once: %d results for %d requested reads" % (len(seq), sum(q for q, _ in rq))
    else:
        for i, t in enumerate(range(nw, nw + nr)):
            if len(got[t]) != rq[i][0]:
                return "reader %d completed %d of %d reads" % (t, len(got[t]), rq[i][0])
    if len(log) != pre + sum(wc):
        return "%d messages published, %d written" % (len(log) - pre, sum(wc))
    if len(set(log)) != len(log):
        return "a message was published twice: %s" % log
    if len(exited) != nw + nr:
        return "%d of %d threads finished" % (len(exited), nw + nr)
    return None


def nontrivial_key(case, lines):
    txt = "\n".join(lines)
    if " tas wlock acq 1 " in txt or " fwait " in txt or " plain thr " in txt or "F mode" in txt or \
            "F field" in txt or "F cap " in txt:
        return hash(txt)
    if re.search(r"F init=[1-9]", txt):
        return hash(case.lines[0])
    # a busy reader that found the ring empty: two consecutive loads by one thread without a result
    if re.search(r"E (\d+) load cursor \w+ \d+ 0 0\nP \1\nE \1 load cursor", txt):
        return hash(txt)
    return None


def tally(dist, case, lines):
    rb, wc, rq = _parse_case(case)
    if rb is None:
        k = "modes-table" if any(ln.strip() == "modes" for ln in case.lines) else "types-or-capacity-table"
        dist[k] = dist.get(k, 0) + 1
        return
    m = py_mode(rb[0])
    k = "rejected" if m is None else "w%s-r%s" % (("lock", "single")[m[0]], ("wait", "singlewait", "busy", "once")[m[1]])
    dist[k] = dist.get(k, 0) + 1
    dist["throttle-%d" % rb[2]] = dist.get("throttle-%d" % rb[2], 0) + 1
    dist["cap-%d" % next_pow2(max(1, rb[1]))] = dist.get("cap-%d" % next_pow2(max(1, rb[1])), 0) + 1
    dist["events"] = dist.get("events", 0) + sum(1 for ln in lines if ln.startswith("E "))
    for ln in lines:
        if " fwait " in ln and ln.endswith(" 1"):
            dist["futex_sleeps"] = dist.get("futex_sleeps", 0) + 1
        elif " fwait " in ln and ln.endswith(" 2"):
            dist["futex_interrupted"] = dist.get("futex_interrupted", 0) + 1
        elif " fwait " in ln and ln.endswith(" 3"):
            dist["futex_spurious_wake"] = dist.get("futex_spurious_wake", 0) + 1
        elif ln.startswith("DEADLOCK") or ln.startswith("LIVELOCK"):
            dist["neg-" + ln.split()[0].lower()] = dist.get("neg-" + ln.split()[0].lower(), 0) + 1
    for code in _parse_vals(case).values():
        dist["value-" + val_kind(code)] = dist.get("value-" + val_kind(code), 0) + 1
    if _parse_vals(case):
        dist["cases-with-special-values"] = dist.get("cases-with-special-values", 0) + 1
        vs = list(_parse_vals(case).values())
        if len(set(vs)) < len(vs):
            dist["cases-with-repeated-value"] = dist.get("cases-with-repeated-value", 0) + 1
    if rq and any(i + q >= TWO32 for q, i in rq if q > 0):
        dist["index-wrap"] = dist.get("index-wrap", 0) + 1
    if m is not None and m[1] != 3 and rq and wc:
        cap = next_pow2(max(1, rb[1]))
        sts = [rd_start(rb[3], i0, cap) for _, i0 in rq]
        if any(0 <= st < rb[3] for st in sts):
            dist["late-joiner"] = dist.get("late-joiner", 0) + 1
        if len(set(st % cap for st in sts)) > 1:
            dist["readers-at-different-residues"] = dist.get("readers-at-different-residues", 0) + 1
        if any(0 <= st and q < (rb[3] - st) + sum(wc) for (q, _), st in zip(rq, sts)):
            dist["reader-stops-early"] = dist.get("reader-stops-early", 0) + 1
    if any(ln.startswith("clock ") for ln in case.lines):
        dist["idle-writer-virtual-clock"] = dist.get("idle-writer-virtual-clock", 0) + 1


MANIFEST = {
    "level_text": ("Coq theorems over an executable interleaving model of ring_buffer.c (write spinlock or single "
                   "writer, cursor as futex word, plain slots/payloads/read_cursor under release/acquire views, read "
                   "mutex; wait / single-wait / busy-loop / read-once readers) with an arbitrary number of writers and "
                   "readers, any power-of-two capacity, any first index of every reader (late joiners, different residues, "
                   "readers that stop early) and every schedule: under the documented no-lapping precondition "
                   "read(i) returns the i-th published message and only after it exists, all readers agree, the 32-bit "
                   "index wrap is harmless, read-once takes in read-mutex order are a prefix of the publication order with "
                   "strictly increasing per-reader positions and every position owned by one reader, every slot / payload / "
                   "read_cursor read is covered by the reader's view in all modes (memory orders re-extracted from the code "
                   "each run), the harness throttle implies the precondition, init rounds every request 1..2^30 to the "
                   "smallest power of two and refuses the rest.  Ties: (1) the real code runs under a deterministic scheduler "
                   "(hooked atomics, emulated futex/mutex, virtual clock) and every trace is replayed on the extracted model; "
                   "an independent monitor checks publication order, per-reader sequences, read-once prefix, payloads and "
                   "that no reader stays blocked once its message exists; (2) the integer content of the write / wake / read "
                   "functions is re-translated from the C text on every run and proved equal to the model's step functions "
                   "for every capacity up to 2^30; (3) flag -> mode table, capacity table, field types, prototypes re-extracted "
                   "and compared; AST scans for payload opacity and integer widths."),
    "design_ref": "DESIGN.md sections 4.2, 4.3, 4.4, 6/C02, Appendix A.6, B",
    "level_note": ("Trusted: Coq kernel, extraction, vsched scheduler and its futex/mutex/clock semantics, SC+views memory "
                   "model as stand-in for C11 (DRF-SC assumed); weak-memory effects exist only in the model; clang AST, slicer."),
    "technique": "Coq invariant proofs over all interleavings (N threads, any 2^k capacity) + deterministic-scheduler trace acceptance by the extracted model + translator tie for the index arithmetic",
}
