"""C11 — slicer for the pointer-splicing / cursor / index-range code of the sequence containers and
the pointer slot (second tie of the translator kind, DESIGN.md 4.4).

Symbolic execution of a NAMED function of the current C text (clang JSON AST, loaded with
lib/leaftrans.load_function) into one Gallina term that uses only the vocabulary of
coq/Lib/Leaf.v (wrapu, lget, lset, cdiv, crem, b2z, z2b), coq/C11/ModelHeap.v (upd, HEAD, TAIL,
NULLP) and coq/C11/GenLib.v (lshift, lcopy, lmove, lblit).  Nothing depends on the shape of the text:

  * node pointers are integer ids: &c->head = HEAD, &c->tail = TAIL, NULL = NULLP, &c->slots[k] = k
    (pointer slot; c->slots is id 0 and pointer arithmetic on items is arithmetic on ids); the
    fields of the node struct are maps  m_<field> : Z -> Z  (next, prev, data, in_used, slot_idx);
    `p->next = q` becomes  let m_next_k := upd m_next_j p q in ..., every later read goes
    through the newest map, so a read placed after a store sees the store (stale pointers are
    visible in the term);
  * data pointers (void *) are integers, NULL = 0; c->pool is an opaque integer (f_pool);
  * c->pp_slots is a list of ids (a_pp), c->nodes of array list / stack a list of data values
    (a_nodes; the node struct has the single field data); &c->nodes[i] is (object, i);
  * scalar fields are the arguments f_<name> (all of them, used or not), unsigned arithmetic wraps
    explicitly (wrapu 32 / 64), a cast to a signed type is value preserving;
  * malloc / muggle_memory_pool_alloc: converted to a node pointer it is the oracle `newp`
    (NULLP = failure); converted to a pointer to array cells it is the fresh object m1 (argument:
    contents) whose address is NULL iff m1_ok = 0, the requested size is the output msz;
    free / muggle_memory_pool_free of a node: the id is appended to the output list fr;
    a function-pointer parameter (the free-data callback) is the integer argument p_<name> (0 = NULL:
    the documented way to hold borrowed data); `if (callback)` tests it; a call through it appends
    its data argument to the output list cb;
  * calls of functions defined in the same file are inlined in continuation-passing style (any
    number of statements, early returns, pointer parameters, calls inside && || ! ?: and
    conditions are evaluated exactly when C evaluates them);
  * functions named in `opaque` are not entered: the call records its integer argument (output
    oarg), returns the argument ores and replaces the fields the callee writes by fresh arguments
    h_<field> (c->nodes by the fresh object h_nodes);
  * a counting loop (for / while, induction variable i, `i < E`, `i <= E`, `i > E`, `i >= E`, one
    step i++ / i-- as the for-increment or the last statement, body = one cell-to-cell copy
    A[i + c1].data = B[i + c2].data) is summarised as  lshift n i0 step c1 c2 A  (same object,
    sequential semantics) or  lcopy n i0 step c1 c2 A B  with n the trip count;
    memmove / memcpy between cells:  lmove A d s (bytes / sizeof)  /  lblit A d B s (bytes / sizeof);
  * an out-parameter `unsigned int *p`:  *p = v  is the output out_<p>;
  * every path ends in the same tuple (fixed per container kind, see OUTS).

Anything else raises LeafError: the caller writes it as a comment into coq/gen/Params_C11.v, which
breaks the obligation (never a silent skip)."""
import os
import re
import subprocess
import tempfile
import leaftrans as L

LeafError = L.LeafError

NODE_T = {"muggle_linked_list_node": "ll", "muggle_queue_node": "qu", "muggle_pointer_slot_item": "ps"}
CELL_T = {"muggle_array_list_node": "al", "muggle_stack_node": "st"}
CONT_T = {"muggle_linked_list_t": "ll", "muggle_queue_t": "qu", "muggle_pointer_slot_t": "ps",
          "muggle_array_list_t": "al", "muggle_stack_t": "st",
          "muggle_linked_list": "ll", "muggle_queue": "qu", "muggle_pointer_slot": "ps",
          "muggle_array_list": "al", "muggle_stack": "st"}
SENTINEL = {"head": "HEAD", "tail": "TAIL"}
FIELDS = {"ll": ["pool", "size"], "qu": ["pool", "size"], "ps": ["alloc_index", "capacity", "free_index"],
          "al": ["capacity", "size"], "st": ["capacity", "top"]}
MAPS = {"ll": ["next", "prev", "data"], "qu": ["next", "prev", "data"],
        "ps": ["next", "prev", "data", "in_used", "slot_idx"], "al": [], "st": []}
MAPS_OUT = {"ll": ["next", "prev", "data"], "qu": ["next", "prev", "data"], "ps": ["next", "prev", "data", "in_used"]}
ALLOCATORS = ("malloc", "muggle_memory_pool_alloc")
RELEASERS = ("free", "muggle_memory_pool_free")


def qt(n):
    return n.get("type", {}).get("qualType", "")


def norm_t(t):
    t = t.replace("const ", "").replace("volatile ", "").replace("struct ", "").replace("restrict", "").strip()
    return t


def base_name(t):
    """'muggle_linked_list_node_t *' -> ('muggle_linked_list_node', 1)"""
    t = norm_t(t)
    depth = 0
    while t.endswith("*"):
        t = t[:-1].strip()
        depth += 1
    if t.endswith("_t") and t[:-2] in list(NODE_T) + list(CELL_T):
        t = t[:-2]
    return t, depth


def tkind(t):
    """classification of a C type"""
    if L.ctype({"type": {"qualType": t}}) is not None:
        return "int"
    b, d = base_name(t)
    if d == 0:
        if b in NODE_T:
            return "node"
        if b in CELL_T:
            return "cellstruct"
        if b == "muggle_dsaa_data_free" or "(*)" in t:
            return "fn"
        if b == "void":
            return "void"
        return None
    if "(*)" in t:
        return "fn"
    if d == 1:
        if b in NODE_T:
            return "nodeptr"
        if b in CELL_T:
            return "cellptr"
        if b in CONT_T:
            return "cont"
        if b == "void":
            return "data"
        if b == "muggle_memory_pool_t":
            return "opaque"
        if L.ctype({"type": {"qualType": b}}) is not None:
            return "outp"
        return None
    if d == 2 and b in NODE_T:
        return "ptrarr"
    return None


def is_lit(text):
    return re.fullmatch(r"\(-?\d+\)", text) is not None


def lit_val(text):
    return int(text[1:-1])


class Env:
    def __init__(self):
        self.loc = {}       # local / parameter name -> value
        self.fld = {}       # scalar field -> text
        self.ptrf = {}      # pointer field (nodes) -> value
        self.maps = {}      # node field -> current map name
        self.objs = {}      # array object -> current contents name
        self.ok = {}        # array object -> text of "address is not NULL" (bool)
        self.out = {}       # cb, fr (python lists of texts), msz, oarg, out_<p>
        self.nalloc = 0

    def copy(self):
        e = Env()
        e.loc, e.fld, e.ptrf, e.maps, e.objs, e.ok = dict(self.loc), dict(self.fld), dict(self.ptrf), dict(self.maps), \
            dict(self.objs), dict(self.ok)
        e.out = {k: (list(v) if isinstance(v, list) else v) for k, v in self.out.items()}
        e.nalloc = self.nalloc
        return e

    def with_loc(self, loc):
        e = self.copy()
        e.loc = loc
        return e


class Slicer:
    def __init__(self, src, cflags, opaque=(), leaves=()):
        self.src, self.cflags = src, cflags
        self.opaque = set(opaque)
        self.leaves = set(leaves)     # integer helpers tied on their own by lib/leaftrans.py: called, not inlined
        self.leafsig = {}
        self.cache = {}
        self.cnt = 0
        self.depth = 0
        self.kind = None
        self.consts = {}
        self.params = []
        self.outps = []

    # ---- clang / gcc helpers -------------------------------------------------
    def fn(self, name):
        if name not in self.cache:
            try:
                self.cache[name] = L.load_function(self.src, name, self.cflags)
            except LeafError:
                self.cache[name] = None
        return self.cache[name]

    def const_of(self, expr):
        """value of sizeof(T) / an enum constant, computed by the compiler on the file itself"""
        if expr not in self.consts:
            with tempfile.TemporaryDirectory() as td:
                c = os.path.join(td, "k.c")
                with open(c, "w") as fh:
                    fh.write('#include "%s"\nconst long long c11_const_value = (long long)(%s);\n' % (self.src, expr))
                # compile only (nothing is linked or run): the value is read from the assembly text
                p = subprocess.run(["gcc", "-w", "-S", "-O0"] + [f for f in self.cflags if not f.startswith("-std")] +
                                   ["-o", "-", c], stdout=subprocess.PIPE, stderr=subprocess.PIPE, text=True, timeout=120)
                m = re.search(r"^c11_const_value:\s*\n\s*\.quad\s+(-?\d+)", p.stdout, re.M)
                if p.returncode != 0 or not m:
                    raise LeafError("cannot evaluate constant %s: %s" % (expr, p.stderr[-200:].replace("\n", " ")))
                self.consts[expr] = int(m.group(1))
        return self.consts[expr]

    def fresh(self, base):
        self.cnt += 1
        return "%s_%d" % (re.sub(r"\W", "_", base), self.cnt)

    def let(self, base, text, k):
        nm = self.fresh(base)
        return "let %s := %s in\n  %s" % (nm, text, k(nm))

    @staticmethod
    def body_of(f):
        return [c for c in f["inner"] if c.get("kind") == "CompoundStmt"][0]

    def callee(self, call):
        c = call["inner"][0]
        while c.get("kind") in ("ImplicitCastExpr", "ParenExpr"):
            c = c["inner"][0]
        if c.get("kind") != "DeclRefExpr":
            raise LeafError("indirect call through an expression")
        return c["referencedDecl"]["name"], c["referencedDecl"].get("kind")

    def has_call(self, n):
        if n.get("kind") == "CallExpr":
            return True
        return any(self.has_call(c) for c in n.get("inner", []) if c)

    # ---- coercions -------------------------------------------------------------
    def as_P(self, v):
        if v[0] == "P":
            return v[1]
        if v[0] == "N0":
            return "NULLP"
        if v[0] == "M":
            return "newp"
        raise LeafError("node pointer expected, got " + v[0])

    def as_D(self, v):
        if v[0] in ("D", "O"):
            return v[1]
        if v[0] == "N0":
            return "0"
        raise LeafError("data pointer expected, got " + v[0])

    def as_Z(self, v):
        if v[0] == "Z":
            return v[1]
        if v[0] == "B":
            return "(b2z %s)" % v[1]
        raise LeafError("integer expected, got " + v[0])

    def truth(self, v, env):
        k = v[0]
        if k == "B":
            return v[1]
        if k == "Z":
            if is_lit(v[1]):
                return "true" if lit_val(v[1]) != 0 else "false"
            return "(negb (%s =? 0))" % v[1]
        if k == "P":
            return "(negb (%s =? NULLP))" % v[1]
        if k == "M":
            return "(negb (newp =? NULLP))"
        if k in ("D", "O"):
            return "(negb (%s =? 0))" % v[1]
        if k == "F":
            return "(negb (p_%s =? 0))" % v[1]
        if k in ("U", "S"):
            return "true"
        if k == "A":
            return env.ok.get(v[1], "true")
        if k == "N0":
            return "false"
        raise LeafError("value of kind %s used as a condition" % k)

    def conv(self, v, t, env):
        """value converted to C type t (declaration, assignment, argument, return)"""
        kd = tkind(t)
        if kd == "int":
            ty = L.ctype({"type": {"qualType": t}})
            if ty[1] == 1:
                return ("B", self.truth(v, env))
            return ("Z", self.as_Z(v), ty)
        if kd == "nodeptr":
            if v[0] == "M":
                return ("P", "newp")
            if v[0] in ("P", "N0"):
                return ("P", self.as_P(v))
        if kd == "data":
            if v[0] in ("D", "N0", "O"):
                return ("D", self.as_D(v))
            if v[0] in ("M", "A", "P", "S"):
                return v           # a typed pointer passed as void * (free, memcpy, callback context)
        if kd == "cellptr":
            if v[0] == "M":
                return self.new_object(v, env)
            if v[0] == "A":
                return v
            if v[0] == "N0":
                return v
        if kd == "opaque" and v[0] in ("O", "N0"):
            return ("O", self.as_D(v))
        if kd in ("cont", "fn", "outp") and v[0] in ("S", "F", "U"):
            return v
        raise LeafError("cannot convert a %s value to %s" % (v[0], t))

    def new_object(self, v, env):
        if "m1" in env.objs:
            raise LeafError("second array allocation on one path")
        env.objs["m1"] = "m1"
        env.ok["m1"] = "(negb (m1_ok =? 0))"
        if v[1] is None:
            raise LeafError("array allocated from the node pool")
        env.out["msz"] = v[1]
        return ("A", "m1", "(0)")

    # ---- integer arithmetic (as lib/leaftrans.py) -------------------------------------
    def wrap(self, n, e):
        ty = L.ctype(n)
        if ty is None:
            raise LeafError("non-integer arithmetic")
        if not ty[0]:
            if is_lit(e) and 0 <= lit_val(e) < 2 ** ty[1]:
                return ("Z", e, ty)
            return ("Z", "(wrapu %d %s)" % (ty[1], e), ty)
        return ("Z", e, ty)

    def fold(self, op, x, y):
        if is_lit(x) and is_lit(y):
            a, b = lit_val(x), lit_val(y)
            if op == "+":
                return "(%d)" % (a + b)
            if op == "-":
                return "(%d)" % (a - b)
            if op == "*":
                return "(%d)" % (a * b)
            if op == "<<" and 0 <= b < 64:
                return "(%d)" % (a << b)
        return None

    # ---- lvalues ---------------------------------------------------------------------
    def struct_lv(self, n, env, k):
        """expression denoting a node struct / an array cell -> k(('N', id) | ('C', obj, idx), env)"""
        n = self.strip_paren(n)
        kd = n.get("kind")
        if kd == "MemberExpr" and n["name"] in SENTINEL and tkind(qt(n)) == "node":
            return self.ev(n["inner"][0], env, lambda b, e: self.need_cont(b) or k(("N", SENTINEL[n["name"]]), e))
        if kd == "ArraySubscriptExpr":
            def with_base(b, e):
                def with_idx(i, e2):
                    return k(self.index(b, self.as_Z(i)), e2)
                return self.ev(n["inner"][1], e, with_idx)
            return self.ev(n["inner"][0], env, with_base)
        if kd == "UnaryOperator" and n.get("opcode") == "*":
            return self.ev(n["inner"][0], env, lambda b, e: k(self.index(b, "(0)"), e))
        raise LeafError("unsupported struct expression " + str(kd))

    def need_cont(self, b):
        if b[0] != "S":
            raise LeafError("member of something that is not the container")
        return None

    def index(self, b, i):
        """element i of the array a pointer value points into"""
        if b[0] == "P":
            if self.kind != "ps":
                raise LeafError("indexing a node pointer")
            return ("N", self.add_text(b[1], i))
        if b[0] == "A":
            return ("C", b[1], self.add_text(b[2], i))
        raise LeafError("indexing a %s value" % b[0])

    def add_text(self, a, b):
        if a == "(0)":
            return b
        if b == "(0)":
            return a
        f = self.fold("+", a, b)
        return f or "(%s + %s)" % (a, b)

    @staticmethod
    def strip_paren(n):
        while n.get("kind") in ("ParenExpr", "ConstantExpr"):
            n = n["inner"][0]
        return n

    def lvalue(self, n, env, k):
        """-> k(lv, env);  lv = ('var', name) | ('fld', name) | ('nf', id, field) | ('cell', obj, idx) | ('out', name)"""
        n = self.strip_paren(n)
        kd = n.get("kind")
        if kd == "DeclRefExpr":
            nm = n["referencedDecl"]["name"]
            if nm not in env.loc:
                raise LeafError("unknown variable " + nm)
            return k(("var", nm), env)
        if kd == "MemberExpr":
            name, base = n["name"], n["inner"][0]
            if n.get("isArrow"):
                def with_ptr(b, e):
                    if b[0] == "S":
                        if name in SENTINEL:
                            raise LeafError("sentinel struct used as a value")
                        return k(("fld", name), e)
                    if b[0] in ("P", "M"):
                        return k(("nf", self.as_P(b), name), e)
                    if b[0] == "A":
                        return k(self.cell_field(("C", b[1], b[2]), name), e)
                    raise LeafError("-> on a %s value" % b[0])
                return self.ev(base, env, with_ptr)

            def with_struct(s, e):
                if s[0] == "N":
                    return k(("nf", s[1], name), e)
                return k(self.cell_field(s, name), e)
            return self.struct_lv(base, env, with_struct)
        if kd == "ArraySubscriptExpr":
            def with_elem(s, e):
                if s[0] != "C":
                    raise LeafError("array element that is a whole struct used as a value")
                return k(("cell", s[1], s[2]), e)
            return self.struct_lv(n, env, with_elem)
        if kd == "UnaryOperator" and n.get("opcode") == "*":
            def with_p(b, e):
                if b[0] == "U":
                    return k(("out", b[1]), e)
                if b[0] == "A":
                    return k(("cell", b[1], b[2]), e)
                raise LeafError("* on a %s value" % b[0])
            return self.ev(n["inner"][0], env, with_p)
        raise LeafError("unsupported lvalue " + str(kd))

    def cell_field(self, s, name):
        if self.kind not in ("al", "st") or name != "data":
            raise LeafError("field %s of an array cell" % name)
        return ("cell", s[1], s[2])

    def load(self, lv, n, env):
        kd = lv[0]
        t = qt(n)
        if kd == "var":
            v = env.loc[lv[1]]
            if v[0] == "UNDEF":
                raise LeafError("read of the uninitialised local " + lv[1])
            return v
        if kd == "fld":
            nm = lv[1]
            if nm in env.fld:
                if nm == "pool":
                    return ("O", env.fld[nm])
                return ("Z", env.fld[nm], L.ctype(n))
            if nm in env.ptrf:
                return env.ptrf[nm]
            raise LeafError("unknown container field " + nm)
        if kd == "nf":
            if lv[2] not in env.maps:
                raise LeafError("unknown node field " + lv[2])
            text = "(%s %s)" % (env.maps[lv[2]], lv[1])
            tk = tkind(t)
            if tk == "nodeptr":
                return ("P", text)
            if tk == "data":
                return ("D", text)
            if tk == "int":
                return ("Z", text, L.ctype(n))
            raise LeafError("node field %s of type %s" % (lv[2], t))
        if kd == "cell":
            if lv[1] not in env.objs:
                raise LeafError("unknown array object " + lv[1])
            text = "(lget %s %s)" % (env.objs[lv[1]], lv[2])
            if lv[1] == "pp":
                return ("P", text)
            return ("D", text)
        raise LeafError("read through an out-parameter")

    def store(self, lv, v, t, env, k):
        """store value v (converted to the type t of the lvalue) -> text"""
        kd = lv[0]
        if kd == "var":
            env.loc[lv[1]] = self.conv(v, t, env)
            return k(env)
        if kd == "fld":
            nm = lv[1]
            if nm in env.fld:
                if nm == "pool":
                    raise LeafError("store to the pool pointer")
                env.fld[nm] = self.as_Z(self.conv(v, t, env))
                return k(env)
            if nm in env.ptrf and self.kind in ("al", "st"):
                env.ptrf[nm] = self.conv(v, t, env)
                return k(env)
            raise LeafError("store to the container field " + nm)
        if kd == "nf":
            if lv[2] not in env.maps:
                raise LeafError("unknown node field " + lv[2])
            tk = tkind(t)
            if tk == "nodeptr":
                val = self.as_P(v)
            elif tk == "data":
                val = self.as_D(v)
            elif tk == "int":
                val = self.as_Z(self.conv(v, t, env))
            else:
                raise LeafError("store to node field %s of type %s" % (lv[2], t))

            def cont(nm):
                env.maps[lv[2]] = nm
                return k(env)
            return self.let("m_" + lv[2], "upd %s %s %s" % (env.maps[lv[2]], lv[1], val), cont)
        if kd == "cell":
            if lv[1] not in env.objs:
                raise LeafError("unknown array object " + lv[1])
            val = self.as_P(v) if lv[1] == "pp" else self.as_D(v)

            def cont(nm):
                env.objs[lv[1]] = nm
                return k(env)
            return self.let("a_" + lv[1], "lset %s %s %s" % (env.objs[lv[1]], lv[2], val), cont)
        if kd == "out":
            env.out["out_" + lv[1]] = self.as_Z(self.conv(v, t, env))
            return k(env)
        raise LeafError("unsupported store")

    # ---- expressions (continuation-passing) ---------------------------------------------
    def ev(self, n, env, k):
        kd = n.get("kind")
        if kd in ("ParenExpr", "ConstantExpr"):
            return self.ev(n["inner"][0], env, k)
        if kd in ("ImplicitCastExpr", "CStyleCastExpr"):
            return self.cast(n, env, k)
        if kd == "IntegerLiteral":
            return k(("Z", "(%d)" % int(n["value"]), L.ctype(n)), env)
        if kd == "CharacterLiteral":
            return k(("Z", "(%d)" % int(n["value"]), L.ctype(n)), env)
        if kd == "GNUNullExpr":
            return k(("N0",), env)
        if kd == "UnaryExprOrTypeTraitExpr":
            if n.get("name") != "sizeof":
                raise LeafError("unsupported " + str(n.get("name")))
            t = n["argType"]["qualType"] if "argType" in n else qt(n["inner"][0])
            return k(("Z", "(%d)" % self.const_of("sizeof(%s)" % t), L.ctype(n)), env)
        if kd == "DeclRefExpr":
            rk = n["referencedDecl"].get("kind")
            nm = n["referencedDecl"]["name"]
            if rk == "EnumConstantDecl":
                return k(("Z", "(%d)" % self.const_of(nm), L.ctype(n)), env)
            if rk == "FunctionDecl":
                return k(("FN", nm), env)
            return self.lvalue(n, env, lambda lv, e: k(self.load(lv, n, e), e))
        if kd in ("MemberExpr", "ArraySubscriptExpr"):
            return self.lvalue(n, env, lambda lv, e: k(self.load(lv, n, e), e))
        if kd == "UnaryOperator":
            return self.unary(n, env, k)
        if kd == "BinaryOperator":
            return self.binary(n, env, k)
        if kd == "ConditionalOperator":
            c, a, b = n["inner"]
            if not self.has_call(a) and not self.has_call(b) and not self.has_call(c):
                # pure: one value
                def with_c(cv, e):
                    ct = self.truth(cv, e)
                    va = self.ev(a, e, lambda v, _e: ("@", v))
                    vb = self.ev(b, e, lambda v, _e: ("@", v))
                    if isinstance(va, tuple) and isinstance(vb, tuple):
                        return k(self.merge(ct, va[1], vb[1], qt(n), e), e)
                    raise LeafError("conditional operand with an effect")
                return self.ev(c, env, with_c)
            return self.cond(c, env, lambda e: self.ev(a, e, k), lambda e: self.ev(b, e, k))
        if kd == "CallExpr":
            return self.call(n, env, k)
        raise LeafError("unsupported expression kind " + str(kd))

    def merge(self, ct, va, vb, t, env):
        if ct == "true":
            return va
        if ct == "false":
            return vb
        tk = tkind(t)
        if tk == "nodeptr" or (tk is None and (va[0] == "P" or vb[0] == "P")):
            return ("P", "(if %s then %s else %s)" % (ct, self.as_P(va), self.as_P(vb)))
        if tk == "data" and va[0] in ("D", "N0") and vb[0] in ("D", "N0"):
            return ("D", "(if %s then %s else %s)" % (ct, self.as_D(va), self.as_D(vb)))
        if tk == "int":
            ty = L.ctype({"type": {"qualType": t}})
            if va[0] == "B" and vb[0] == "B":
                return ("B", "(if %s then %s else %s)" % (ct, va[1], vb[1]))
            return ("Z", "(if %s then %s else %s)" % (ct, self.as_Z(va), self.as_Z(vb)), ty)
        raise LeafError("conditional expression of type " + t)

    def cast(self, n, env, k):
        ck = n.get("castKind")
        inner = n["inner"][-1]
        if ck == "LValueToRValue":
            return self.ev(inner, env, k)
        if ck in ("NoOp", "FunctionToPointerDecay", "ArrayToPointerDecay"):
            return self.ev(inner, env, k)
        if ck == "NullToPointer":
            return k(("N0",), env)
        if ck == "ToVoid":
            return self.ev(inner, env, lambda v, e: k(("V",), e))
        if ck == "BitCast":
            t = qt(n)

            def with_v(v, e):
                if v[0] == "N0":
                    return k(v, e)
                if tkind(t) is None:
                    raise LeafError("cast to " + t)
                return k(self.conv(v, t, e), e)
            return self.ev(inner, env, with_v)
        if ck == "PointerToBoolean":
            return self.ev(inner, env, lambda v, e: k(("B", self.truth(v, e)), e))
        if ck in ("IntegralCast", "IntegralToBoolean", "BooleanToSignedIntegral"):
            def with_i(v, e):
                ty = L.ctype(n)
                if ty is None:
                    raise LeafError("cast to non-integer")
                if ck == "IntegralToBoolean" or ty[1] == 1:
                    return k(("B", self.truth(v, e)), e)
                x = self.as_Z(v)
                src = v[2] if v[0] == "Z" and len(v) > 2 else None
                if not ty[0]:
                    if (src and not src[0] and src[1] <= ty[1]) or (is_lit(x) and 0 <= lit_val(x) < 2 ** ty[1]):
                        return k(("Z", x, ty), e)
                    return k(("Z", "(wrapu %d %s)" % (ty[1], x), ty), e)
                return k(("Z", x, ty), e)      # to signed: value preserving where representable
            return self.ev(inner, env, with_i)
        raise LeafError("unsupported cast " + str(ck))

    def unary(self, n, env, k):
        op = n["opcode"]
        a = n["inner"][0]
        if op == "&":
            a0 = self.strip_paren(a)
            t = qt(a0)
            if tkind(t) in ("node", "cellstruct"):
                def with_s(s, e):
                    if s[0] == "N":
                        return k(("P", s[1]), e)
                    return k(("A", s[1], s[2]), e)
                return self.struct_lv(a0, env, with_s)
            raise LeafError("address of something that is not a node or an array cell")
        if op == "*":
            return self.lvalue(n, env, lambda lv, e: k(self.load(lv, n, e), e))
        if op in ("++", "--"):
            return self.incdec(n, env, lambda e: k(("V",), e))
        if op == "!":
            return self.ev(a, env, lambda v, e: k(("B", self.neg(self.truth(v, e))), e))
        if op == "-":
            def with_m(v, e):
                x = self.as_Z(v)
                return k(self.wrap(n, "(%d)" % (-lit_val(x)) if is_lit(x) else "(- %s)" % x), e)
            return self.ev(a, env, with_m)
        if op == "+":
            return self.ev(a, env, k)
        if op == "~":
            def with_t(v, e):
                ty = L.ctype(n)
                x = self.as_Z(v)
                if ty and not ty[0]:
                    return k(("Z", "(2 ^ %d - 1 - %s)" % (ty[1], x), ty), e)
                return k(("Z", "(- %s - 1)" % x, ty), e)
            return self.ev(a, env, with_t)
        raise LeafError("unsupported unary " + op)

    @staticmethod
    def neg(b):
        if b == "true":
            return "false"
        if b == "false":
            return "true"
        m = re.fullmatch(r"\(negb (.*)\)", b)
        if m and m.group(1).count("(") == m.group(1).count(")") and balanced(m.group(1)):
            return m.group(1)
        return "(negb %s)" % b

    def binary(self, n, env, k):
        op = n["opcode"]
        a, b = n["inner"]
        if op in ("&&", "||"):
            if self.has_call(n):
                return self.cond(n, env, lambda e: k(("B", "true"), e), lambda e: k(("B", "false"), e))

            def with_a(va, e):
                def with_b(vb, e2):
                    ta, tb = self.truth(va, e2), self.truth(vb, e2)
                    return k(("B", "(%s %s %s)" % (ta, op, tb)), e2)
                return self.ev(b, e, with_b)
            return self.ev(a, env, with_a)
        if op == ",":
            return self.ev(a, env, lambda _v, e: self.ev(b, e, k))
        if op == "=" or (op.endswith("=") and op not in ("==", "!=", "<=", ">=")):
            return self.assign(n, env, lambda e: k(("V",), e))

        def with_a(va, e):
            def with_b(vb, e2):
                return k(self.binop(n, op, va, vb, e2), e2)
            return self.ev(b, e, with_b)
        return self.ev(a, env, with_a)

    def binop(self, n, op, va, vb, env):
        ptr = {"P", "D", "O", "A", "N0", "M", "S"}
        if op in ("==", "!="):
            if va[0] in ptr or vb[0] in ptr:
                r = self.ptr_eq(va, vb, env)
                return ("B", r if op == "==" else self.neg(r))
        if op in ("+", "-") and (va[0] in ("P", "A") or vb[0] in ("P", "A")):
            if vb[0] in ("P", "A"):
                if op == "-" or va[0] in ("P", "A"):
                    raise LeafError("unsupported pointer arithmetic")
                va, vb = vb, va
            off = self.as_Z(vb)
            if op == "-":
                off = "(- %s)" % off
            if va[0] == "P":
                if self.kind != "ps":
                    raise LeafError("arithmetic on a node pointer")
                return ("P", self.add_text(va[1], off))
            return ("A", va[1], self.add_text(va[2], off))
        x, y = self.as_Z(va), self.as_Z(vb)
        if op in ("<", "<=", ">", ">=", "==", "!="):
            m = {"<": "<?", "<=": "<=?", ">": ">?", ">=": ">=?", "==": "=?"}
            if is_lit(x) and is_lit(y):
                a, b = lit_val(x), lit_val(y)
                r = {"<": a < b, "<=": a <= b, ">": a > b, ">=": a >= b, "==": a == b, "!=": a != b}[op]
                return ("B", "true" if r else "false")
            if op == "!=":
                return ("B", "(negb (%s =? %s))" % (x, y))
            return ("B", "(%s %s %s)" % (x, m[op], y))
        if op in ("+", "-", "*"):
            return self.wrap(n, self.fold(op, x, y) or "(%s %s %s)" % (x, op, y))
        if op == "/":
            return ("Z", "(cdiv %s %s)" % (x, y), L.ctype(n))
        if op == "%":
            return ("Z", "(crem %s %s)" % (x, y), L.ctype(n))
        if op == "&":
            return ("Z", "(Z.land %s %s)" % (x, y), L.ctype(n))
        if op == "|":
            return ("Z", "(Z.lor %s %s)" % (x, y), L.ctype(n))
        if op == "^":
            return ("Z", "(Z.lxor %s %s)" % (x, y), L.ctype(n))
        if op == "<<":
            return self.wrap(n, self.fold(op, x, y) or "(Z.shiftl %s %s)" % (x, y))
        if op == ">>":
            return ("Z", "(Z.shiftr %s %s)" % (x, y), L.ctype(n))
        raise LeafError("unsupported binary " + op)

    def ptr_eq(self, va, vb, env):
        ka, kb = va[0], vb[0]
        if ka == "N0" and kb == "N0":
            return "true"
        if (ka == "F" and kb == "N0") or (kb == "F" and ka == "N0"):
            return "(p_%s =? 0)" % (va[1] if ka == "F" else vb[1])
        if (ka in ("U", "S") and kb == "N0") or (kb in ("U", "S") and ka == "N0"):
            return "false"          # the out-parameter / container is always supplied
        if "A" in (ka, kb):
            o = va if ka == "A" else vb
            other = vb if ka == "A" else va
            if other[0] != "N0":
                raise LeafError("comparison of two array pointers")
            return self.neg(self.truth(o, env))
        if ka in ("P", "M") or kb in ("P", "M"):
            return "(%s =? %s)" % (self.as_P(va), self.as_P(vb))
        if ka in ("D", "O") or kb in ("D", "O"):
            return "(%s =? %s)" % (self.as_D(va), self.as_D(vb))
        raise LeafError("unsupported pointer comparison %s / %s" % (ka, kb))

    # ---- conditions: short-circuit lowered to branches ------------------------------------
    def cond(self, n, env, kt, kf):
        n0 = self.strip_paren(n)
        kd = n0.get("kind")
        if kd == "UnaryOperator" and n0.get("opcode") == "!":
            return self.cond(n0["inner"][0], env, kf, kt)
        if kd == "BinaryOperator" and n0.get("opcode") == "&&":
            return self.cond(n0["inner"][0], env, lambda e: self.cond(n0["inner"][1], e, kt, kf), kf)
        if kd == "BinaryOperator" and n0.get("opcode") == "||":
            return self.cond(n0["inner"][0], env, kt, lambda e: self.cond(n0["inner"][1], e, kt, kf))
        if kd in ("ImplicitCastExpr", "CStyleCastExpr") and n0.get("castKind") in ("IntegralToBoolean", "PointerToBoolean",
                                                                                 "LValueToRValue", "NoOp") and \
                self.has_call(n0) and n0.get("castKind") != "LValueToRValue":
            return self.cond(n0["inner"][-1], env, kt, kf)

        def with_v(v, e):
            c = self.truth(v, e)
            if c == "true":
                return kt(e)
            if c == "false":
                return kf(e)
            return "(if %s\n  then %s\n  else %s)" % (c, kt(e.copy()), kf(e.copy()))
        return self.ev(n0, env, with_v)

    # ---- calls ----------------------------------------------------------------------------
    def call(self, n, env, k):
        callee = n["inner"][0]
        args = n["inner"][1:]
        c0 = callee
        while c0.get("kind") in ("ImplicitCastExpr", "ParenExpr"):
            c0 = c0["inner"][0]
        if c0.get("kind") != "DeclRefExpr":
            raise LeafError("indirect call through an expression")
        name, rk = c0["referencedDecl"]["name"], c0["referencedDecl"].get("kind")

        def eval_args(i, acc, e, kk):
            if i == len(args):
                return kk(acc, e)
            return self.ev(args[i], e, lambda v, e2: eval_args(i + 1, acc + [v], e2, kk))

        if rk in ("ParmVarDecl", "VarDecl"):
            v = env.loc.get(name)
            if not v or v[0] != "F":
                raise LeafError("call through the variable " + name)

            def callback(vs, e):
                if not vs:
                    raise LeafError("callback without arguments")
                e.out["cb"] = e.out["cb"] + [self.as_D(vs[-1])]
                return k(("V",), e)
            return eval_args(0, [], env, callback)
        if name in self.opaque:
            return eval_args(0, [], env, lambda vs, e: self.opaque_call(name, vs, e, k))
        if name in self.leaves:
            return eval_args(0, [], env, lambda vs, e: self.leaf_call(name, n, vs, e, k))
        if name in ALLOCATORS:
            def alloc(vs, e):
                if e.nalloc:
                    raise LeafError("second allocation on one path")
                e.nalloc += 1
                if name == "malloc":
                    return k(("M", self.as_Z(vs[0])), e)
                return k(("M", None), e)
            return eval_args(0, [], env, alloc)
        if name in RELEASERS:
            def release(vs, e):
                p = vs[-1]
                if p[0] in ("P", "M"):
                    e.out["fr"] = e.out["fr"] + [self.as_P(p)]
                elif p[0] not in ("A", "O", "N0"):
                    raise LeafError("%s of a %s value" % (name, p[0]))
                return k(("V",), e)
            return eval_args(0, [], env, release)
        if name in ("memmove", "memcpy"):
            return eval_args(0, [], env, lambda vs, e: self.memmove(name, vs, e, k))
        f = self.fn(name)
        if f is None:
            raise LeafError("call of %s: no definition in this file" % name)
        return eval_args(0, [], env, lambda vs, e: self.inline(f, vs, e, k))

    def inline(self, f, vs, env, k):
        self.depth += 1
        if self.depth > 10:
            raise LeafError("call nesting too deep at " + f["name"])
        try:
            parms = [c for c in f.get("inner", []) if c.get("kind") == "ParmVarDecl"]
            if len(parms) != len(vs):
                raise LeafError("argument count mismatch calling " + f["name"])
            loc = {}
            for p, v in zip(parms, vs):
                loc[p["name"]] = self.conv(v, qt(p), env)
            caller = env.loc
            rt = f["type"]["qualType"].split("(")[0].strip()

            def kret(v, e):
                e2 = e.with_loc(dict(caller))
                if rt == "void":
                    return k(("V",), e2)
                return k(self.conv(v, rt, e2) if v[0] != "N0" else v, e2)
            return self.exec([self.body_of(f)], env.with_loc(loc), kret, lambda e: kret(("V",), e))
        finally:
            self.depth -= 1

    def written_fields(self, name, seen=None):
        """container fields assigned by a function of this file (transitively)"""
        seen = seen if seen is not None else set()
        if name in seen:
            return set()
        seen.add(name)
        f = self.fn(name)
        if f is None:
            return set()
        acc = set()

        def walk(n):
            kd = n.get("kind")
            tgt = None
            if kd in ("BinaryOperator", "CompoundAssignOperator") and n.get("opcode", "").endswith("=") and \
                    n.get("opcode") not in ("==", "!=", "<=", ">="):
                tgt = n["inner"][0]
            if kd == "UnaryOperator" and n.get("opcode") in ("++", "--"):
                tgt = n["inner"][0]
            if tgt is not None:
                t = self.strip_paren(tgt)
                if t.get("kind") == "MemberExpr" and t.get("isArrow") and tkind(qt(t["inner"][0])) == "cont":
                    acc.add(t["name"])
            if kd == "CallExpr":
                try:
                    cn, ck = self.callee(n)
                    if ck == "FunctionDecl":
                        acc.update(self.written_fields(cn, seen))
                except LeafError:
                    pass
            for c in n.get("inner", []):
                if c:
                    walk(c)
        walk(f)
        return acc

    def leaf_call(self, name, n, vs, env, k):
        """application of the definition lib/leaftrans.py generates for this helper (same run, same text)"""
        if name not in self.leafsig:
            _text, fields, params, written, ret_kind = L.translate(self.src, name, self.cflags)
            if written or ret_kind != "Z":
                raise LeafError("leaf helper %s writes fields or does not return an integer" % name)
            self.leafsig[name] = (fields, params)
        fields, params = self.leafsig[name]
        if vs[0][0] != "S" or len(vs) != len(params) + 1:
            raise LeafError("unexpected arguments of the leaf helper " + name)
        fa = []
        for key, is_arr in fields:
            fl = key[2:]
            if is_arr or fl not in env.fld:
                raise LeafError("leaf helper %s reads the field %s" % (name, fl))
            fa.append(env.fld[fl])
        text = "(gen_%s %s)" % (name, " ".join(fa + [self.as_Z(v) for v in vs[1:]]))
        return self.let("r_" + name[-9:], text, lambda nm: k(("Z", nm, L.ctype(n)), env))

    def opaque_call(self, name, vs, env, k):
        if env.out.get("oarg") != "(-1)":
            raise LeafError("second call of %s on one path" % name)
        ints = [v for v in vs if v[0] in ("Z", "B")]
        if len(ints) != 1 or vs[0][0] != "S":
            raise LeafError("unexpected arguments of " + name)
        env.out["oarg"] = self.as_Z(ints[0])
        for fld in sorted(self.written_fields(name)):
            if fld == "capacity":
                env.fld["capacity"] = "h_capacity"
            elif fld == "nodes":
                env.objs["h_nodes"] = "h_nodes"
                env.ptrf["nodes"] = ("A", "h_nodes", "(0)")
            else:
                raise LeafError("%s writes the field %s" % (name, fld))
        return k(("B", "(negb (ores =? 0))"), env)

    def memmove(self, name, vs, env, k):
        d, s, nb = vs
        if d[0] != "A" or s[0] != "A":
            raise LeafError("%s between things that are not array cells" % name)
        cells = "(cdiv %s (%d))" % (self.as_Z(nb), 8)
        if self.const_of("sizeof(void *)") != 8:
            raise LeafError("pointer size is not 8")
        if d[1] == s[1]:
            if name == "memcpy":
                raise LeafError("memcpy inside one array object")
            text = "lmove %s %s %s %s" % (env.objs[d[1]], d[2], s[2], cells)
        else:
            text = "lblit %s %s %s %s %s" % (env.objs[d[1]], d[2], env.objs[s[1]], s[2], cells)

        def cont(nm):
            env.objs[d[1]] = nm
            return k(("V",), env)
        return self.let("a_" + d[1], text, cont)

    # ---- statements ------------------------------------------------------------------------
    def exec(self, stmts, env, kret, kfall):
        if not stmts:
            return kfall(env)
        s, rest = stmts[0], list(stmts[1:])
        kd = s.get("kind")

        def go(e):
            return self.exec(rest, e, kret, kfall)
        if kd == "CompoundStmt":
            return self.exec(list(s.get("inner", [])) + rest, env, kret, kfall)
        if kd == "NullStmt":
            return go(env)
        if kd == "DeclStmt":
            decls = list(s.get("inner", []))

            def do_decl(i, e):
                if i == len(decls):
                    return go(e)
                d = decls[i]
                if d.get("kind") != "VarDecl":
                    raise LeafError("unsupported declaration")
                t = qt(d)
                if tkind(t) is None:
                    raise LeafError("local of type " + t)
                init = [c for c in d.get("inner", []) if c]
                if not init:
                    e.loc = dict(e.loc)
                    e.loc[d["name"]] = ("UNDEF",)
                    return do_decl(i + 1, e)

                def with_v(v, e2):
                    e2.loc = dict(e2.loc)
                    e2.loc[d["name"]] = self.bind_local(d["name"], self.conv(v, t, e2))
                    return do_decl(i + 1, e2)
                return self.ev(init[-1], e, with_v)
            return do_decl(0, env)
        if kd == "ReturnStmt":
            inner = [c for c in s.get("inner", []) if c]
            if not inner:
                return kret(("V",), env)
            return self.ev(inner[0], env, kret)
        if kd == "IfStmt":
            inner = s["inner"]
            th = [inner[1]]
            el = [inner[2]] if len(inner) > 2 else []
            return self.cond(inner[0], env,
                             lambda e: self.exec(th + rest, e, kret, kfall),
                             lambda e: self.exec(el + rest, e, kret, kfall))
        if kd in ("ForStmt", "WhileStmt"):
            return self.loop(s, env, kret, go)
        if kd in ("BinaryOperator", "CompoundAssignOperator") and s.get("opcode", "").endswith("=") and \
                s.get("opcode") not in ("==", "!=", "<=", ">="):
            return self.assign(s, env, go)
        if kd == "UnaryOperator" and s.get("opcode") in ("++", "--"):
            return self.incdec(s, env, go)
        if kd in ("CallExpr", "CStyleCastExpr", "ImplicitCastExpr", "ParenExpr"):
            return self.ev(s, env, lambda _v, e: go(e))
        if kd == "DoStmt":
            # do { } while (0) wrappers of macros
            body, c = s["inner"]
            c0 = self.strip_paren(c)
            if c0.get("kind") == "IntegerLiteral" and c0.get("value") == "0":
                return self.exec([body] + rest, env, kret, kfall)
        raise LeafError("unsupported statement kind " + str(kd))

    def bind_local(self, name, v):
        return v

    def assign(self, s, env, k):
        lhs, rhs = s["inner"]
        t = qt(lhs)
        if s["opcode"] == "=":
            return self.ev(rhs, env, lambda v, e: self.lvalue(lhs, e, lambda lv, e2: self.store(lv, v, t, e2, k)))
        op = s["opcode"][:-1]

        def with_lv(lv, e):
            cur = self.load(lv, lhs, e)

            def with_r(v, e2):
                fake = {"type": s.get("computeResultType", s["type"])}
                r = self.binop(fake, op, cur, v, e2)
                ty = L.ctype(s)
                if r[0] == "Z" and ty and not ty[0] and not r[1].startswith("(wrapu %d " % ty[1]):
                    r = ("Z", "(wrapu %d %s)" % (ty[1], r[1]), ty)
                return self.store(lv, r, t, e2, k)
            return self.ev(rhs, e, with_r)
        return self.lvalue(lhs, env, with_lv)

    def incdec(self, s, env, k):
        lhs = s["inner"][0]
        t = qt(lhs)

        def with_lv(lv, e):
            cur = self.load(lv, lhs, e)
            r = self.binop({"type": s["type"]}, "+" if s["opcode"] == "++" else "-", cur, ("Z", "(1)", L.ctype(s)), e)
            return self.store(lv, r, t, e, k)
        return self.lvalue(lhs, env, with_lv)

    # ---- counting loops ----------------------------------------------------------------------
    def mentions(self, n, name):
        if n.get("kind") == "DeclRefExpr" and n["referencedDecl"]["name"] == name:
            return True
        return any(self.mentions(c, name) for c in n.get("inner", []) if c)

    def is_var(self, n, name):
        while n.get("kind") in ("ParenExpr", "ImplicitCastExpr") and n.get("castKind", "LValueToRValue") in ("LValueToRValue", "NoOp"):
            n = n["inner"][0]
        return n.get("kind") == "DeclRefExpr" and n["referencedDecl"]["name"] == name

    def step_of(self, st, iname):
        """+1 / -1 when st is i++ / ++i / i-- / --i / i += 1 / i -= 1 / i = i + 1 / i = i - 1"""
        st = self.strip_paren(st)
        kd = st.get("kind")
        if kd == "UnaryOperator" and st.get("opcode") in ("++", "--") and self.is_var(st["inner"][0], iname):
            return 1 if st["opcode"] == "++" else -1
        if kd == "CompoundAssignOperator" and st.get("opcode") in ("+=", "-=") and self.is_var(st["inner"][0], iname):
            r = self.affine(st["inner"][1], iname)
            if r == (0, 1):
                return 1 if st["opcode"] == "+=" else -1
        if kd == "BinaryOperator" and st.get("opcode") == "=" and self.is_var(st["inner"][0], iname):
            r = self.affine(st["inner"][1], iname)
            if r in ((1, 1), (1, -1)):
                return r[1]
        return None

    def affine(self, n, iname):
        """(coefficient of i, constant) of an index expression built from i and literals, else None"""
        kd = n.get("kind")
        if kd in ("ParenExpr", "ConstantExpr"):
            return self.affine(n["inner"][0], iname)
        if kd in ("ImplicitCastExpr", "CStyleCastExpr") and n.get("castKind") in ("LValueToRValue", "NoOp", "IntegralCast"):
            return self.affine(n["inner"][-1], iname)
        if kd == "IntegerLiteral":
            return (0, int(n["value"]))
        if kd == "DeclRefExpr":
            return (1, 0) if n["referencedDecl"]["name"] == iname else None
        if kd == "UnaryOperator" and n.get("opcode") == "-":
            r = self.affine(n["inner"][0], iname)
            return None if r is None else (-r[0], -r[1])
        if kd == "BinaryOperator" and n.get("opcode") in ("+", "-"):
            a, b = self.affine(n["inner"][0], iname), self.affine(n["inner"][1], iname)
            if a is None or b is None:
                return None
            sg = 1 if n["opcode"] == "+" else -1
            return (a[0] + sg * b[0], a[1] + sg * b[1])
        return None

    def cell_ref(self, n, iname, env):
        """A[i + c].data (or A[i + c] for a pointer array) -> (object, base index text, c)"""
        n = self.strip_paren(n)
        while n.get("kind") == "ImplicitCastExpr" and n.get("castKind") == "LValueToRValue":
            n = self.strip_paren(n["inner"][0])
        if n.get("kind") == "MemberExpr" and not n.get("isArrow") and n.get("name") == "data":
            n = self.strip_paren(n["inner"][0])
        elif self.kind in ("al", "st"):
            raise LeafError("loop body does not copy the data field of a cell")
        if n.get("kind") != "ArraySubscriptExpr":
            raise LeafError("loop body is not a copy between array cells")
        base, idx = n["inner"]
        if self.mentions(base, iname):
            raise LeafError("array base depends on the loop variable")
        bv = self.ev(base, env, lambda v, _e: ("@", v))
        if not (isinstance(bv, tuple) and bv[0] == "@" and bv[1][0] == "A"):
            raise LeafError("loop body indexes something that is not an array of cells")
        af = self.affine(idx, iname)
        if af is None or af[0] != 1:
            raise LeafError("loop index is not of the form i + constant")
        return bv[1][1], bv[1][2], af[1]

    def loop(self, s, env, kret, go):
        if s["kind"] == "ForStmt":
            init, _cv, cond, inc, body = [(c if c else None) for c in s["inner"]]
        else:
            init, cond, inc, body = None, s["inner"][-2], None, s["inner"][-1]
        if init is not None:
            marker = {"kind": "@loop", "cond": cond, "inc": inc, "body": body}
            return self.exec([init], env, kret, lambda e: self.loop_core(marker, e, go))
        return self.loop_core({"cond": cond, "inc": inc, "body": body}, env, go)

    def loop_core(self, lp, env, go):
        cond, inc, body = lp["cond"], lp["inc"], lp["body"]
        if cond is None:
            raise LeafError("loop without a condition")
        c0 = self.strip_paren(cond)
        if c0.get("kind") != "BinaryOperator" or c0.get("opcode") not in ("<", "<=", ">", ">="):
            raise LeafError("loop condition is not a comparison of the loop variable with a bound")
        a, b = c0["inner"]
        op = c0["opcode"]
        flip = {"<": ">", "<=": ">=", ">": "<", ">=": "<="}
        iname = None
        for side, other, o in ((a, b, op), (b, a, flip[op])):
            x = side
            while x.get("kind") in ("ParenExpr", "ImplicitCastExpr") and x.get("castKind", "LValueToRValue") in ("LValueToRValue", "NoOp"):
                x = x["inner"][0]
            if x.get("kind") == "DeclRefExpr" and x["referencedDecl"].get("kind") == "VarDecl" and \
                    env.loc.get(x["referencedDecl"]["name"], ("?",))[0] == "Z" and not self.mentions(other, x["referencedDecl"]["name"]):
                iname, bound, rel = x["referencedDecl"]["name"], other, o
                break
        if iname is None:
            raise LeafError("loop variable not found in the loop condition")
        ity = env.loc[iname][2] if len(env.loc[iname]) > 2 else None
        if ity is None or (not ity[0] and rel in (">=", "<=")):
            # `i >= 0` / `i <= MAX` on an unsigned variable wraps instead of leaving the loop: no finite trip count
            raise LeafError("unsigned loop variable compared with >= / <=")
        stmts = []

        def flat(n):
            if n.get("kind") == "CompoundStmt":
                for c in n.get("inner", []):
                    flat(c)
            elif n.get("kind") != "NullStmt":
                stmts.append(n)
        flat(body)
        if inc is not None:
            step = self.step_of(inc, iname)
        else:
            step = self.step_of(stmts[-1], iname) if stmts else None
            stmts = stmts[:-1]
        if step is None:
            raise LeafError("loop step is not i++ / i--")
        if len(stmts) != 1 or stmts[0].get("kind") != "BinaryOperator" or stmts[0].get("opcode") != "=":
            raise LeafError("loop body is not a single cell-to-cell copy")
        if (step == 1) != (rel in ("<", "<=")):
            raise LeafError("loop counts away from its bound")
        dobj, dbase, dc = self.cell_ref(stmts[0]["inner"][0], iname, env)
        sobj, sbase, sc = self.cell_ref(stmts[0]["inner"][1], iname, env)
        if dbase != "(0)" or sbase != "(0)":
            raise LeafError("loop over an array that does not start at its first cell")
        # the bound must not depend on what the loop writes: only scalars and fields are allowed in it
        bv = self.ev(bound, env, lambda v, _e: ("@", v))
        if not (isinstance(bv, tuple) and bv[0] == "@"):
            raise LeafError("loop bound with an effect")
        if "lget" in self.as_Z(bv[1]):
            raise LeafError("loop bound reads an array")
        E = self.as_Z(bv[1])
        i0 = self.as_Z(env.loc[iname])
        trip = {"<": "(%s - %s)" % (E, i0), "<=": "(%s - %s + 1)" % (E, i0),
                ">": "(%s - %s)" % (i0, E), ">=": "(%s - %s + 1)" % (i0, E)}[rel]
        if dobj == sobj:
            text = "lshift (Z.to_nat %s) %s (%d) (%d) (%d) %s" % (trip, i0, step, dc, sc, env.objs[dobj])
        else:
            text = "lcopy (Z.to_nat %s) %s (%d) (%d) (%d) %s %s" % (trip, i0, step, dc, sc, env.objs[dobj], env.objs[sobj])

        def cont(nm):
            env.objs[dobj] = nm
            ty = env.loc[iname][2] if len(env.loc[iname]) > 2 else None
            env.loc = dict(env.loc)
            env.loc[iname] = ("Z", "(%s + (%d) * Z.max 0 %s)" % (i0, step, trip), ty)
            return go(env)
        return self.let("a_" + dobj, text, cont)

    # ---- entry ---------------------------------------------------------------------------------
    def slice(self, name, gname):
        f = self.fn(name)
        if f is None:
            raise LeafError("function %s with a body not found in %s" % (name, self.src))
        self.cnt = 0
        env = Env()
        args, kind = [], None
        parms = [c for c in f.get("inner", []) if c.get("kind") == "ParmVarDecl"]
        for p in parms:
            if tkind(qt(p)) == "cont":
                kind = CONT_T[base_name(qt(p))[0]]
        if kind is None:
            raise LeafError("no container parameter")
        self.kind = kind
        for m in MAPS[kind]:
            env.maps[m] = "m_" + m
            args.append("(m_%s : Z -> Z)" % m)
        if kind == "ps":
            env.objs["pp"] = "a_pp"
            env.ptrf["pp_slots"] = ("A", "pp", "(0)")
            env.ptrf["slots"] = ("P", "(0)")
            args.append("(a_pp : list Z)")
        if kind in ("al", "st"):
            env.objs["nodes0"] = "a_nodes"
            env.ptrf["nodes"] = ("A", "nodes0", "(0)")
            args.append("(a_nodes : list Z)")
        for fl in FIELDS[kind]:
            env.fld[fl] = "f_" + fl
            args.append("(f_%s : Z)" % fl)
        if kind in ("ll", "qu"):
            args.append("(newp : Z)")
        if kind in ("al", "st"):
            args += ["(m1 : list Z)", "(m1_ok : Z)", "(ores : Z)", "(h_capacity : Z)", "(h_nodes : list Z)"]
        outps = []
        for p in parms:
            t, nm = qt(p), p["name"]
            tk = tkind(t)
            if tk == "cont":
                env.loc[nm] = ("S",)
            elif tk == "int":
                env.loc[nm] = ("Z", "p_" + nm, L.ctype(p))
                args.append("(p_%s : Z)" % nm)
            elif tk == "nodeptr":
                env.loc[nm] = ("P", "p_" + nm)
                args.append("(p_%s : Z)" % nm)
            elif tk == "data":
                env.loc[nm] = ("D", "p_" + nm)
                args.append("(p_%s : Z)" % nm)
            elif tk == "fn":
                env.loc[nm] = ("F", nm)
                args.append("(p_%s : Z)" % nm)
            elif tk == "outp":
                env.loc[nm] = ("U", nm)
                outps.append("out_" + nm)
            else:
                raise LeafError("unsupported parameter type " + t)
        env.out = {"cb": [], "fr": [], "msz": "(-1)", "oarg": "(-1)"}
        for o in outps:
            env.out[o] = "(-1)"
        rt = f["type"]["qualType"].split("(")[0].strip()

        def final(v, e):
            parts = [self.ret_text(v, rt, e)]
            if kind in ("ll", "qu", "ps"):
                parts += [e.maps[m] for m in MAPS_OUT[kind]]
            if kind == "ps":
                parts.append(e.objs["pp"])
            if kind in ("al", "st"):
                pv = e.ptrf["nodes"]
                if pv[0] != "A" or pv[2] != "(0)":
                    raise LeafError("the nodes field does not point to the start of an array")
                parts.append(e.objs[pv[1]])
            for fl in FIELDS[kind]:
                if fl != "pool":
                    parts.append(e.fld[fl])
            if kind in ("ll", "qu"):
                parts += [zlist(e.out["cb"]), zlist(e.out["fr"])]
            if kind in ("al", "st"):
                parts += [e.out["oarg"], e.out["msz"], zlist(e.out["cb"])]
            parts += [e.out[o] for o in outps]
            return "(" + ", ".join(parts) + ")"
        code = self.exec([self.body_of(f)], env, final, lambda e: final(("V",), e))
        return "Definition %s %s :=\n  %s.\n" % (gname, " ".join(args), code)

    def ret_text(self, v, rt, env):
        if rt == "void":
            return "0"
        tk = tkind(rt)
        if tk == "int":
            ty = L.ctype({"type": {"qualType": rt}})
            if ty[1] == 1:
                return "(b2z %s)" % self.truth(v, env)
            return self.as_Z(v)
        if tk == "nodeptr":
            return self.as_P(v)
        if tk == "data":
            return self.as_D(v)
        if tk == "cellptr":
            if v[0] == "N0":
                return "(-1)"
            cur = env.ptrf["nodes"]
            if v[0] == "A" and cur[0] == "A" and v[1] == cur[1]:
                return v[2]
            raise LeafError("returned pointer is not into the current nodes array")
        raise LeafError("unsupported return type " + rt)


def zlist(xs):
    return "(@nil Z)" if not xs else "[" + "; ".join(xs) + "]"


def balanced(s):
    d = 0
    for ch in s:
        if ch == "(":
            d += 1
        elif ch == ")":
            d -= 1
            if d < 0:
                return False
    return d == 0


# the functions of the second tie: (source file, C function, Gallina name, opaque callees)
AL_LEAVES = ("muggle_array_list_get_index",)
TARGETS = [
    ("muggle/c/dsaa/linked_list.c", "muggle_linked_list_insert", "gen_ll_insert", ()),
    ("muggle/c/dsaa/linked_list.c", "muggle_linked_list_append", "gen_ll_append", ()),
    ("muggle/c/dsaa/linked_list.c", "muggle_linked_list_remove", "gen_ll_remove", ()),
    ("muggle/c/dsaa/queue.c", "muggle_queue_enqueue", "gen_qu_enqueue", ()),
    ("muggle/c/dsaa/queue.c", "muggle_queue_dequeue", "gen_qu_dequeue", ()),
    ("muggle/c/memory/pointer_slot.c", "muggle_pointer_slot_insert", "gen_ps_insert", ()),
    ("muggle/c/memory/pointer_slot.c", "muggle_pointer_slot_remove", "gen_ps_remove", ()),
    ("muggle/c/dsaa/array_list.c", "muggle_array_list_insert", "gen_al_insert", ("muggle_array_list_ensure_capacity",)),
    ("muggle/c/dsaa/array_list.c", "muggle_array_list_append", "gen_al_append", ("muggle_array_list_ensure_capacity",)),
    ("muggle/c/dsaa/array_list.c", "muggle_array_list_remove", "gen_al_remove", ()),
    ("muggle/c/dsaa/array_list.c", "muggle_array_list_ensure_capacity", "gen_al_ensure", ()),
    ("muggle/c/dsaa/stack.c", "muggle_stack_push", "gen_st_push", ("muggle_stack_ensure_capacity",)),
    ("muggle/c/dsaa/stack.c", "muggle_stack_pop", "gen_st_pop", ()),
    ("muggle/c/dsaa/stack.c", "muggle_stack_ensure_capacity", "gen_st_ensure", ()),
]
ERR_CONSTS = ["MUGGLE_ERR_MEM_ALLOC", "MUGGLE_ERR_BEYOND_RANGE", "MUGGLE_ERR_MEM_DUPLICATE_FREE"]


def translate_all(repo, cflags):
    """-> Gallina text of every target (a target that cannot be translated becomes a comment)"""
    out = []
    slicers = {}
    for src, name, gname, opaque in TARGETS:
        key = (src, opaque)
        if key not in slicers:
            slicers[key] = Slicer(os.path.join(repo, src), cflags, opaque, AL_LEAVES if src.endswith("array_list.c") else ())
        try:
            out.append(slicers[key].slice(name, gname))
        except LeafError as e:
            out.append("(* translator error for %s (%s): %s *)\n" % (name, gname, str(e).replace("*)", "* )")))
        except (KeyError, IndexError, TypeError, ValueError) as e:
            out.append("(* translator error for %s (%s): unexpected AST shape (%s: %s) *)\n" %
                       (name, gname, type(e).__name__, str(e).replace("*)", "* )")))
    ps = slicers[("muggle/c/memory/pointer_slot.c", ())]
    for c in ERR_CONSTS:
        try:
            out.append("Definition gen_%s : Z := %d.\n" % (c, ps.const_of(c)))
        except LeafError as e:
            out.append("(* translator error for the constant %s: %s *)\n" % (c, e))
    return "\n".join(out)


if __name__ == "__main__":
    import sys
    repo = os.environ.get("VERIF_REPO", "/repo")
    root = os.path.dirname(os.path.dirname(os.path.dirname(os.path.abspath(__file__))))
    flags = ["-std=gnu11", "-I" + repo, "-I" + os.path.join(root, "build", "gen"), "-DNDEBUG"]
    sys.stdout.write(translate_all(repo, flags))
