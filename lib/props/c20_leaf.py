"""Small translator for leaf integer functions (DESIGN.md 4.4), used by C20.

clang -Xclang -ast-dump=json -Xclang -ast-dump-filter=<fn> -fsyntax-only  ->  Gallina.

Supported fragment: a function whose parameters and locals are integers;
statements: if (without fall-through of the 'then' part unless it returns),
return, assignment, compound assignment, local declarations with initialiser;
expressions: + - * & | ^ << >> ! && || comparisons, integer and character
literals, casts between integer types, parentheses; for a `const char *` parameter s
(a NUL-terminated string, modelled as `list Z`) also strlen(s) and s[k] with a literal k
(reading the terminator or beyond the list yields 0).
`for` loops whose trip count is decided by constants only (the control variable is a local
initialised with a constant, compared with constants, stepped by ++/--/op= constant and not
assigned in the body; no break/continue/return/goto in the body) are UNROLLED by evaluating
the control variable in Python (at most 64 iterations).  Calls of helpers defined in the same
file whose body is a single `return e;` are inlined by substitution.  Anything else raises
LeafError (reported by the check as a broken obligation).

Two numeric modes:
  'N' : every value is an unsigned 64-bit quantity held in Coq's N; + - * << wrap
        modulo 2^64 explicitly.  (muggle_next_pow_of_2)
  'Z' : values are Coq Z; arithmetic at (promoted) int is exact (signed overflow is
        undefined in C and excluded), casts to / arithmetic at an unsigned type
        of b bits wrap modulo 2^b.  (muggle_hex_to_byte)
"""
import json
import subprocess


class LeafError(Exception):
    pass


UNSIGNED_BITS = {
    "uint64_t": 64, "unsigned long": 64, "unsigned long long": 64, "size_t": 64,
    "uint32_t": 32, "unsigned int": 32, "uint16_t": 16, "unsigned short": 16,
    "uint8_t": 8, "unsigned char": 8,
}
SIGNED_BITS = {"int": 32, "long": 64, "long long": 64, "int64_t": 64, "int32_t": 32,
               "char": 8, "signed char": 8, "short": 16, "int16_t": 16, "int8_t": 8}


def clang_ast(repo, relpath, fn, include_dirs):
    cmd = ["clang", "-Xclang", "-ast-dump=json", "-Xclang", "-ast-dump-filter=" + fn,
           "-fsyntax-only", "-std=gnu11", "-DNDEBUG", "-w"]
    for d in include_dirs:
        cmd += ["-I", d]
    cmd.append(relpath)
    p = subprocess.run(cmd, cwd=repo, stdout=subprocess.PIPE, stderr=subprocess.PIPE, text=True, timeout=120)
    if p.returncode != 0:
        raise LeafError("clang failed: " + p.stderr[-400:])
    dec, i, objs, txt = json.JSONDecoder(), 0, [], p.stdout
    while i < len(txt):
        while i < len(txt) and txt[i].isspace():
            i += 1
        if i >= len(txt):
            break
        o, i = dec.raw_decode(txt, i)
        objs.append(o)
    for o in objs:
        if o.get("kind") == "FunctionDecl" and o.get("name") == fn and \
                any(c.get("kind") == "CompoundStmt" for c in o.get("inner", [])):
            return o
    raise LeafError("no definition of %s found in %s" % (fn, relpath))


def qt(n):
    t = n.get("type", {})
    return t.get("desugaredQualType") or t.get("qualType") or ""


class Tr:
    def __init__(self, mode):
        self.mode = mode
        self.S = "N" if mode == "N" else "Z"
        self.strings = set()
        self.scan = None      # (string name, index variable, Coq name of the scanned character)
        self.consts = {}      # unrolled loop control variables: name -> current Python value
        self.subst = {}       # parameters of a helper being inlined: name -> Gallina text
        self.str_alias = {}   # string parameters of a helper being inlined: name -> caller's string
        self.loader = None    # name -> FunctionDecl of a function defined in the same file
        self.depth = 0

    # ---- types
    def ubits(self, t):
        t = t.replace("const ", "").strip()
        return UNSIGNED_BITS.get(t)

    def check_type(self, t):
        t = t.replace("const ", "").strip()
        if t in UNSIGNED_BITS or t in SIGNED_BITS:
            if self.mode == "N" and t in UNSIGNED_BITS and UNSIGNED_BITS[t] != 64:
                raise LeafError("N mode supports only 64-bit unsigned, got " + t)
            return
        raise LeafError("unsupported type " + t)

    def wrap(self, e, t):
        b = self.ubits(t)
        if b is None:
            if self.mode == "N":
                raise LeafError("signed arithmetic in N mode (%s)" % t)
            return e
        return "((%s) mod %d)" % (e, 1 << b)

    # ---- expressions
    def expr(self, n):
        """expression in a VALUE context -> Gallina of the numeric sort (Z or N).  A C expression whose
        value is a truth value (comparison, !, &&, ||) is converted with b2z = `if b then 1 else 0`;
        every local initialised or assigned from it is therefore bound as a number, and its later use in
        a condition goes back through z2b = `negb (v =? 0)` (see cond)."""
        if self.is_boolean(n):
            return "(if %s then 1 else 0)" % self.cond(n)
        return self.value(n)

    def value(self, n):
        k = n.get("kind")
        inner = n.get("inner", [])
        if k in ("ParenExpr", "ConstantExpr"):
            return self.expr(inner[0])
        if k == "ImplicitCastExpr" or k == "CStyleCastExpr":
            ck = n.get("castKind")
            if ck in ("LValueToRValue", "NoOp"):
                return self.expr(inner[0])
            if ck == "IntegralCast":
                src, dst = inner[0], qt(n)
                self.check_type(dst)
                e = self.expr(src)
                if src.get("kind") in ("IntegerLiteral", "CharacterLiteral") and self.lit_fits(src, dst):
                    return e
                if self.mode == "N":
                    # only widening of already-unsigned-64 values or literals is accepted
                    if self.ubits(dst) == 64 and (self.ubits(qt(src)) == 64):
                        return e
                    raise LeafError("cast %s -> %s in N mode" % (qt(src), dst))
                if self.ubits(dst) is not None:
                    return self.wrap(e, dst)
                return e   # to a signed type: value assumed representable (checked by the differential run)
            raise LeafError("unsupported cast kind %s" % ck)
        if k == "IntegerLiteral":
            v = int(n["value"])
            if v < 0 and self.mode == "N":
                raise LeafError("negative literal in N mode")
            return str(v) if v >= 0 else "(%d)" % v
        if k == "CharacterLiteral":
            return str(int(n["value"]))
        if k == "DeclRefExpr":
            d = n.get("referencedDecl", {})
            if d.get("kind") not in ("ParmVarDecl", "VarDecl"):
                raise LeafError("reference to %s" % d.get("kind"))
            if d["name"] in self.consts:
                v = self.consts[d["name"]]
                return str(v) if v >= 0 else "(%d)" % v
            if d["name"] in self.subst:
                return self.subst[d["name"]]
            return d["name"]
        if k == "UnaryOperator":
            op, a = n["opcode"], self.expr(inner[0])
            if op == "!":
                return "(%s =? 0)" % self.as_int(inner[0])
            if op == "-" and self.mode == "Z":
                return self.wrap("(- %s)" % a, qt(n))
            if op == "+":
                return a
            if op == "~" and self.mode == "Z" and self.ubits(qt(n)) is None:
                return "(Z.lnot %s)" % a
            raise LeafError("unsupported unary %s" % op)
        if k == "BinaryOperator":
            op = n["opcode"]
            if op in ("&&", "||"):
                a, b = self.cond(inner[0]), self.cond(inner[1])
                return "(%s %s %s)" % (a, op, b)
            if op in ("<", "<=", ">", ">=", "==", "!="):
                a, b = self.expr(inner[0]), self.expr(inner[1])
                m = {"<": "<?", "<=": "<=?", "==": "=?"}
                if op in m:
                    return "(%s %s %s)" % (a, m[op], b)
                if op == ">":
                    return "(%s <? %s)" % (b, a)
                if op == ">=":
                    return "(%s <=? %s)" % (b, a)
                return "(negb (%s =? %s))" % (a, b)
            return self.arith(op, self.expr(inner[0]), self.expr(inner[1]), qt(n))
        if k == "CallExpr":
            callee = self.strip_casts(inner[0])
            if self.mode == "Z" and callee.get("kind") == "DeclRefExpr" and \
                    callee.get("referencedDecl", {}).get("name") == "strlen" and len(inner) == 2:
                return "(Z.of_nat (length %s))" % self.string_ref(inner[1])
            return self.inline(n)
        if k == "ArraySubscriptExpr" and self.mode == "Z":
            idx = self.strip_casts(inner[1])
            if self.scan and idx.get("kind") == "DeclRefExpr" and \
                    idx.get("referencedDecl", {}).get("name") == self.scan[1] and \
                    self.string_ref(inner[0]) == self.scan[0]:
                return self.scan[2]
            if idx.get("kind") != "IntegerLiteral" or int(idx["value"]) < 0:
                raise LeafError("array index is not a non-negative literal")
            return "(nth %d%%nat %s 0)" % (int(idx["value"]), self.string_ref(inner[0]))
        raise LeafError("unsupported expression kind %s" % k)

    def strip_casts(self, n):
        while n.get("kind") in ("ImplicitCastExpr", "ParenExpr") and n.get("inner"):
            n = n["inner"][0]
        return n

    def string_ref(self, n):
        n = self.strip_casts(n)
        if n.get("kind") == "DeclRefExpr":
            name = n.get("referencedDecl", {}).get("name")
            name = self.str_alias.get(name, name)
            if name in self.strings:
                return name
        raise LeafError("expected a string parameter")

    def inline(self, n):
        """call of a helper defined in the same file whose body is a single `return e;`"""
        inner = n.get("inner", [])
        callee = self.strip_casts(inner[0])
        if callee.get("kind") != "DeclRefExpr" or self.loader is None:
            raise LeafError("unsupported call")
        name = callee.get("referencedDecl", {}).get("name")
        if self.depth > 8:
            raise LeafError("call nesting too deep at %s" % name)
        fn = self.loader(name)
        parms = [c for c in fn.get("inner", []) if c.get("kind") == "ParmVarDecl"]
        body = [c for c in fn.get("inner", []) if c.get("kind") == "CompoundStmt"]
        ss = [x for x in (body[0].get("inner", []) if body else []) if x.get("kind") != "NullStmt"]
        if len(ss) != 1 or ss[0].get("kind") != "ReturnStmt" or not ss[0].get("inner"):
            raise LeafError("helper %s is not a single return expression" % name)
        args = inner[1:]
        if len(args) != len(parms):
            raise LeafError("argument count mismatch calling %s" % name)
        new_subst, new_alias = {}, {}
        for p_, a in zip(parms, args):
            if qt(p_).replace(" ", "") == "constchar*":
                new_alias[p_["name"]] = self.string_ref(a)
            else:
                self.check_type(qt(p_))
                e = self.expr(a)
                if self.ubits(qt(p_)) is not None and self.mode == "Z":
                    e = self.wrap(e, qt(p_))
                new_subst[p_["name"]] = e
        saved = (self.subst, self.str_alias, self.consts)
        self.subst, self.str_alias, self.consts = new_subst, new_alias, {}
        self.depth += 1
        try:
            return self.expr(ss[0]["inner"][0])
        finally:
            self.depth -= 1
            self.subst, self.str_alias, self.consts = saved

    # ---- loops with a constant trip count
    def const_eval(self, n, env):
        k = n.get("kind")
        inner = n.get("inner", [])
        if k in ("ParenExpr", "ConstantExpr", "ImplicitCastExpr", "CStyleCastExpr"):
            return self.const_eval(inner[0], env)
        if k in ("IntegerLiteral", "CharacterLiteral"):
            return int(n["value"])
        if k == "DeclRefExpr":
            name = n.get("referencedDecl", {}).get("name")
            if name in env:
                return env[name]
            if name in self.consts:
                return self.consts[name]
            raise LeafError("loop control depends on the non-constant %s" % name)
        if k == "UnaryOperator" and n["opcode"] in ("-", "+", "!"):
            v = self.const_eval(inner[0], env)
            return {"-": -v, "+": v, "!": int(not v)}[n["opcode"]]
        if k == "BinaryOperator":
            op = n["opcode"]
            a, b = self.const_eval(inner[0], env), self.const_eval(inner[1], env)
            table = {"+": lambda: a + b, "-": lambda: a - b, "*": lambda: a * b, "<<": lambda: a << b,
                     ">>": lambda: a >> b, "&": lambda: a & b, "|": lambda: a | b, "^": lambda: a ^ b,
                     "<": lambda: int(a < b), "<=": lambda: int(a <= b), ">": lambda: int(a > b),
                     ">=": lambda: int(a >= b), "==": lambda: int(a == b), "!=": lambda: int(a != b),
                     "&&": lambda: int(bool(a) and bool(b)), "||": lambda: int(bool(a) or bool(b))}
            if op not in table or (op in ("<<", ">>") and not 0 <= b < 64):
                raise LeafError("unsupported operator %s in a loop control expression" % op)
            return table[op]()
        raise LeafError("loop control expression of kind %s" % k)

    def fit(self, v, t):
        t = t.replace("const ", "").strip()
        if t in UNSIGNED_BITS:
            return v % (1 << UNSIGNED_BITS[t])
        if t in SIGNED_BITS:
            b = SIGNED_BITS[t]
            if not -(1 << (b - 1)) <= v < (1 << (b - 1)):
                raise LeafError("signed loop variable overflows")
            return v
        raise LeafError("loop variable of type %s" % t)

    def assigns(self, n, var):
        """does the subtree assign to var, or leave the loop body early?"""
        k = n.get("kind")
        if k in ("BreakStmt", "ContinueStmt", "ReturnStmt", "GotoStmt"):
            return True
        if k in ("CompoundAssignOperator",) or (k == "BinaryOperator" and n.get("opcode") == "=") or \
                (k == "UnaryOperator" and n.get("opcode") in ("++", "--", "&")):
            t = self.strip_casts(n["inner"][0])
            if t.get("kind") == "DeclRefExpr" and t.get("referencedDecl", {}).get("name") == var:
                return True
        return any(self.assigns(c, var) for c in n.get("inner", []) if isinstance(c, dict))

    def unroll_for(self, s):
        inner = s.get("inner", [])
        if len(inner) != 5:
            raise LeafError("unexpected shape of a for statement")
        init, _cv, cond, inc, body = inner
        if init.get("kind") == "DeclStmt" and len(init.get("inner", [])) == 1 and init["inner"][0].get("inner"):
            d = init["inner"][0]
            var, vtype, v = d["name"], qt(d), self.const_eval(d["inner"][0], {})
        elif init.get("kind") == "BinaryOperator" and init.get("opcode") == "=" and \
                self.strip_casts(init["inner"][0]).get("kind") == "DeclRefExpr":
            t = self.strip_casts(init["inner"][0])
            var, vtype, v = t["referencedDecl"]["name"], qt(t), self.const_eval(init["inner"][1], {})
        else:
            raise LeafError("for loop without a constant initialisation of its control variable")
        if not cond or not inc or not cond.get("kind") or not inc.get("kind"):
            raise LeafError("for loop without condition or step")
        if self.assigns(body, var):
            raise LeafError("loop body assigns its control variable or leaves the loop early")
        v = self.fit(v, vtype)
        out, n_iter = [], 0
        while self.const_eval(cond, {var: v}):
            n_iter += 1
            if n_iter > 64:
                raise LeafError("loop does not end within 64 iterations")
            out.append({"kind": "_Bind", "var": var, "value": v})
            out.append(body)
            k = inc.get("kind")
            tgt = self.strip_casts(inc["inner"][0]) if inc.get("inner") else {}
            if tgt.get("kind") != "DeclRefExpr" or tgt.get("referencedDecl", {}).get("name") != var:
                raise LeafError("loop step does not update the control variable")
            if k == "UnaryOperator" and inc.get("opcode") in ("++", "--"):
                v = v + 1 if inc["opcode"] == "++" else v - 1
            elif k == "CompoundAssignOperator":
                c = self.const_eval(inc["inner"][1], {var: v})
                op = inc["opcode"][:-1]
                if op not in ("+", "-", "*", "<<", ">>") or (op in ("<<", ">>") and not 0 <= c < 64):
                    raise LeafError("unsupported loop step %s" % inc["opcode"])
                v = {"+": v + c, "-": v - c, "*": v * c, "<<": v << c, ">>": v >> c}[op]
            elif k == "BinaryOperator" and inc.get("opcode") == "=":
                v = self.const_eval(inc["inner"][1], {var: v})
            else:
                raise LeafError("unsupported loop step")
            v = self.fit(v, vtype)
        out.append({"kind": "_Bind", "var": var, "value": v})
        return out

    def lit_fits(self, lit, dst):
        v = int(lit["value"])
        b = self.ubits(dst)
        if b is not None:
            return 0 <= v < (1 << b)
        return True

    def arith(self, op, a, b, t):
        S = self.S
        self.check_type(t)
        ub = self.ubits(t)
        W = (1 << ub) if ub else None
        if op == "|":
            return "(%s.lor %s %s)" % (S, a, b)
        if op == "&":
            return "(%s.land %s %s)" % (S, a, b)
        if op == "^":
            return "(%s.lxor %s %s)" % (S, a, b)
        if op == ">>":
            return "(%s.shiftr %s %s)" % (S, a, b)
        if op == "<<":
            return self.wrap("%s.shiftl %s %s" % (S, a, b), t)
        if op == "+":
            return self.wrap("%s + %s" % (a, b), t)
        if op == "*":
            return self.wrap("%s * %s" % (a, b), t)
        if op == "-":
            if W is not None:
                return "((%s + %d - %s) mod %d)" % (a, W, b, W)
            if self.mode == "N":
                raise LeafError("signed subtraction in N mode")
            return "(%s - %s)" % (a, b)
        raise LeafError("unsupported operator %s" % op)

    def is_boolean(self, n):
        k = n.get("kind")
        if k in ("ParenExpr", "ImplicitCastExpr") and n.get("castKind") in (None, "LValueToRValue", "NoOp", "IntegralCast"):
            return self.is_boolean(n["inner"][0])
        if k == "UnaryOperator" and n["opcode"] == "!":
            return True
        if k == "BinaryOperator" and n["opcode"] in ("&&", "||", "<", "<=", ">", ">=", "==", "!="):
            return True
        return False

    def as_int(self, n):
        """expression used as an integer operand of '!' """
        if self.is_boolean(n):
            return "(if %s then 1 else 0)" % self.cond(n)
        return self.expr(n)

    def cond(self, n):
        """expression in a boolean context -> Coq bool"""
        if self.is_boolean(n):
            k = n.get("kind")
            if k in ("ParenExpr", "ImplicitCastExpr"):
                return self.cond(n["inner"][0])
            return self.value(n)
        return "(negb (%s =? 0))" % self.expr(n)

    # ---- statements (continuation style)
    def returns(self, n):
        k = n.get("kind")
        if k == "ReturnStmt":
            return True
        if k == "CompoundStmt":
            inner = n.get("inner", [])
            return bool(inner) and self.returns(inner[-1])
        if k == "IfStmt":
            inner = n["inner"]
            return len(inner) == 3 and self.returns(inner[1]) and self.returns(inner[2])
        return False

    def block(self, stmts):
        if not stmts:
            raise LeafError("control reaches the end of the function without return")
        s, rest = stmts[0], stmts[1:]
        k = s.get("kind")
        if k == "CompoundStmt":
            return self.block(list(s.get("inner", [])) + rest)
        if k == "_Bind":
            self.consts[s["var"]] = s["value"]
            return self.block(rest)
        if k == "ForStmt":
            return self.block(self.unroll_for(s) + rest)
        if k == "ReturnStmt":
            return self.expr(s["inner"][0])
        if k == "IfStmt":
            inner = s["inner"]
            c = self.cond(inner[0])
            snap = dict(self.consts)
            if len(inner) == 3:
                t = self.block([inner[1]] + ([] if self.returns(inner[1]) else rest))
                self.consts = dict(snap)
                e = self.block([inner[2]] + ([] if self.returns(inner[2]) else rest))
                return "(if %s\n   then %s\n   else %s)" % (c, t, e)
            if not self.returns(inner[1]):
                raise LeafError("if without else whose body does not return")
            t = self.block([inner[1]])
            self.consts = dict(snap)
            return "(if %s\n   then %s\n   else %s)" % (c, t, self.block(rest))
        if k == "CompoundAssignOperator":
            lhs, rhs = s["inner"]
            if lhs.get("kind") != "DeclRefExpr":
                raise LeafError("assignment to a non-variable")
            name = lhs["referencedDecl"]["name"]
            if name in self.consts or name in self.subst:
                raise LeafError("assignment to a loop control variable or an inlined parameter")
            op = s["opcode"][:-1]
            if self.ubits(qt(lhs)) != self.ubits(qt(s)) or self.ubits(qt(lhs)) is None and self.mode == "N":
                raise LeafError("compound assignment with a type change")
            e = self.arith(op, name, self.expr(rhs), qt(s))
            return "(let %s := %s in\n %s)" % (name, e, self.block(rest))
        if k == "BinaryOperator" and s.get("opcode") == "=":
            lhs, rhs = s["inner"]
            if lhs.get("kind") != "DeclRefExpr" or lhs["referencedDecl"]["name"] in self.consts:
                raise LeafError("assignment to a non-variable or a loop control variable")
            return "(let %s := %s in\n %s)" % (lhs["referencedDecl"]["name"], self.expr(rhs), self.block(rest))
        if k == "DeclStmt":
            out = None
            names = []
            for d in s["inner"]:
                if d.get("kind") != "VarDecl" or not d.get("inner"):
                    raise LeafError("declaration without initialiser")
                self.check_type(qt(d))
                names.append((d["name"], self.expr(d["inner"][0])))
            body = self.block(rest)
            for name, e in reversed(names):
                body = "(let %s := %s in\n %s)" % (name, e, body)
            return body
        if k == "NullStmt":
            return self.block(rest)
        raise LeafError("unsupported statement kind %s" % k)


def translate(fdecl, gname, mode, loader=None):
    tr = Tr(mode)
    tr.loader = loader
    params, body = [], None
    for c in fdecl.get("inner", []):
        if c.get("kind") == "ParmVarDecl":
            if qt(c).replace(" ", "") == "constchar*" and mode == "Z":
                tr.strings.add(c["name"])
                params.append((c["name"], "list Z"))
                continue
            tr.check_type(qt(c))
            params.append((c["name"], tr.S))
        elif c.get("kind") == "CompoundStmt":
            body = c
    if body is None:
        raise LeafError("no body")
    rt = fdecl["type"]["qualType"].split("(")[0].strip()
    tr.check_type(rt)
    e = tr.block(list(body.get("inner", [])))
    S = tr.S
    return "Definition %s %s : %s :=\n  %s%%%s.\n" % (
        gname, " ".join("(%s : %s)" % (p, t) for p, t in params), S, e, S)


def translate_scan_down(fdecl, gname, loader=None):
    """Recognises the descending scan for the last character of a `const char *` parameter S
    satisfying a test C, in one of these shapes, and returns
    `Definition gname (c : Z) : bool := C[S[P] := c]`:

      (1) in the function itself, among its top-level statements
            int L = (int)strlen(S); ... int P = L - 1;
            while (P >= 0) { if (C) break; --P; }          (or: for (; P >= 0; --P) { if (C) break; })
      (2) through a helper defined in the same file
            int L = (int)strlen(S); ... int P = H(S, L - 1);
          where H(const char *s, int from) is
            int i; for (i = from; i >= 0; --i) { if (C) return i; } return -1;
          or  int i = from; while (i >= 0) { if (C) break; --i; } return i;

    C may mention only S[P] and literals.  Meaning of the recognised shapes (part of the trusted
    translator): P is the index of the LAST character of S satisfying C, -1 if there is none.
    Any other shape (strrchr, an ascending scan, another start index ...) raises LeafError."""
    tr = Tr("Z")
    tr.loader = loader

    def strings_of(fd):
        return set(c["name"] for c in fd.get("inner", [])
                   if c.get("kind") == "ParmVarDecl" and qt(c).replace(" ", "") == "constchar*")

    def body_of(fd):
        for c in fd.get("inner", []):
            if c.get("kind") == "CompoundStmt":
                return [x for x in c.get("inner", []) if x.get("kind") != "NullStmt"]
        raise LeafError("no body")

    def var_decl(st):
        if st.get("kind") == "DeclStmt" and len(st.get("inner", [])) == 1 and st["inner"][0].get("kind") == "VarDecl":
            return st["inner"][0]
        return None

    def ref_name(n):
        n = tr.strip_casts(n)
        return n.get("referencedDecl", {}).get("name") if n.get("kind") == "DeclRefExpr" else None

    def lit(n, v):
        n = tr.strip_casts(n)
        if n.get("kind") == "UnaryOperator" and n.get("opcode") == "-" and v < 0:
            return lit(n["inner"][0], -v)
        return n.get("kind") == "IntegerLiteral" and int(n["value"]) == v

    def unbrace(n):
        return [x for x in n.get("inner", []) if x.get("kind") != "NullStmt"] if n.get("kind") == "CompoundStmt" else [n]

    def ge0(cond, P):
        c0 = tr.strip_casts(cond)
        return c0.get("kind") == "BinaryOperator" and c0.get("opcode") == ">=" and ref_name(c0["inner"][0]) == P \
            and lit(c0["inner"][1], 0)

    def dec1(n, P):
        return n.get("kind") == "UnaryOperator" and n.get("opcode") == "--" and ref_name(n["inner"][0]) == P

    def test_of(ifst, leave):
        """if (C) { <leave> } without else -> C"""
        if ifst.get("kind") != "IfStmt" or len(ifst["inner"]) != 2:
            raise LeafError("scan loop body is not a single `if (C) ...`")
        tb = unbrace(ifst["inner"][1])
        if len(tb) != 1 or not leave(tb[0]):
            raise LeafError("scan loop: unexpected action in the branch")
        return ifst["inner"][0]

    def is_break(n):
        return n.get("kind") == "BreakStmt"

    def loop_test(loop, P, leave):
        """descending loop over P with body `if (C) leave;` -> C, or None if `loop` is no such loop"""
        k = loop.get("kind")
        if k == "WhileStmt":
            cond, wbody = loop["inner"][0], loop["inner"][1]
            if not ge0(cond, P):
                raise LeafError("scan loop condition is not `%s >= 0`" % P)
            bs = unbrace(wbody)
            if len(bs) != 2 or not dec1(bs[1], P):
                raise LeafError("scan loop body is not `if (C) ...; --%s;`" % P)
            return test_of(bs[0], leave)
        if k == "ForStmt" and len(loop.get("inner", [])) == 5:
            init, _cv, cond, inc, fbody = loop["inner"]
            if not (cond.get("kind") and ge0(cond, P) and inc.get("kind") and dec1(inc, P)):
                raise LeafError("scan loop is not `for (...; %s >= 0; --%s)`" % (P, P))
            bs = unbrace(fbody)
            if len(bs) != 1:
                raise LeafError("scan loop body is not a single `if (C) ...`")
            return test_of(bs[0], leave), init
        return None

    def emit(C, S, P):
        tr.scan = (S, P, "c")
        return "Definition %s (c : Z) : bool :=\n  %s%%Z.\n" % (gname, tr.cond(C))

    tr.strings = strings_of(fdecl)
    stmts = body_of(fdecl)
    lens = {}      # int variable -> string whose strlen it holds
    for st in stmts:
        d = var_decl(st)
        if d is None or not d.get("inner"):
            continue
        init = d["inner"][0]
        while init.get("kind") in ("CStyleCastExpr", "ImplicitCastExpr", "ParenExpr"):
            init = init["inner"][0]
        if init.get("kind") == "CallExpr" and ref_name(init["inner"][0]) == "strlen" and len(init["inner"]) == 2:
            sname = ref_name(init["inner"][1])
            if sname in tr.strings:
                lens[d["name"]] = sname

    def len_minus_1(n):
        """L - 1 -> the string S with L = strlen(S), else None"""
        n = tr.strip_casts(n)
        if n.get("kind") == "BinaryOperator" and n.get("opcode") == "-" and ref_name(n["inner"][0]) in lens \
                and lit(n["inner"][1], 1):
            return lens[ref_name(n["inner"][0])]
        return None

    for i, st in enumerate(stmts):
        d = var_decl(st)
        if d is None or not d.get("inner"):
            continue
        init = tr.strip_casts(d["inner"][0])
        # shape (1): int P = L - 1; <loop>
        S = len_minus_1(init)
        if S is not None and i + 1 < len(stmts):
            r = loop_test(stmts[i + 1], d["name"], is_break)
            if r is not None:
                C = r[0] if isinstance(r, tuple) else r
                if isinstance(r, tuple) and r[1].get("kind"):
                    raise LeafError("scan for-loop re-initialises its index")
                return emit(C, S, d["name"])
        # shape (2): int P = H(S, L - 1)
        if init.get("kind") == "CallExpr" and len(init.get("inner", [])) == 3 and loader is not None:
            hname = ref_name(init["inner"][0])
            S = ref_name(init["inner"][1])
            if hname and S in tr.strings and len_minus_1(init["inner"][2]) == S:
                H = loader(hname)
                hp = [c for c in H.get("inner", []) if c.get("kind") == "ParmVarDecl"]
                if len(hp) != 2 or qt(hp[0]).replace(" ", "") != "constchar*" or qt(hp[1]).replace("const ", "").strip() != "int":
                    raise LeafError("scan helper %s does not have the signature (const char *, int)" % hname)
                hs, hfrom = hp[0]["name"], hp[1]["name"]
                hb = body_of(H)
                tr.strings = {hs}
                # int i; for (i = from; i >= 0; --i) { if (C) return i; } return -1;
                if len(hb) == 3 and var_decl(hb[0]) is not None and hb[1].get("kind") == "ForStmt" \
                        and hb[2].get("kind") == "ReturnStmt":
                    I = var_decl(hb[0])["name"]

                    def ret_i(n):
                        return n.get("kind") == "ReturnStmt" and n.get("inner") and ref_name(n["inner"][0]) == I
                    r = loop_test(hb[1], I, ret_i)
                    finit = r[1]
                    ok_init = (finit.get("kind") == "BinaryOperator" and finit.get("opcode") == "="
                               and ref_name(finit["inner"][0]) == I and ref_name(finit["inner"][1]) == hfrom)
                    if var_decl(hb[0]).get("inner"):
                        ok_init = ok_init or (not finit.get("kind") and ref_name(var_decl(hb[0])["inner"][0]) == hfrom)
                    if not ok_init or not lit(hb[2]["inner"][0], -1):
                        raise LeafError("scan helper %s: not `for (i = from; i >= 0; --i) ... return -1`" % hname)
                    return emit(r[0], hs, I)
                # for (int i = from; i >= 0; --i) { if (C) return i; } return -1;
                if len(hb) == 2 and hb[0].get("kind") == "ForStmt" and hb[1].get("kind") == "ReturnStmt":
                    finit = hb[0]["inner"][0]
                    dI = var_decl(finit)
                    if dI is None or not dI.get("inner") or ref_name(dI["inner"][0]) != hfrom or not lit(hb[1]["inner"][0], -1):
                        raise LeafError("scan helper %s: not `for (int i = from; i >= 0; --i) ... return -1`" % hname)
                    I = dI["name"]

                    def ret_i2(n):
                        return n.get("kind") == "ReturnStmt" and n.get("inner") and ref_name(n["inner"][0]) == I
                    r = loop_test(hb[0], I, ret_i2)
                    return emit(r[0], hs, I)
                # int i = from; while (i >= 0) { if (C) break; --i; } return i;
                if len(hb) == 3 and var_decl(hb[0]) is not None and hb[1].get("kind") == "WhileStmt" \
                        and hb[2].get("kind") == "ReturnStmt":
                    dI = var_decl(hb[0])
                    I = dI["name"]
                    if not dI.get("inner") or ref_name(dI["inner"][0]) != hfrom or ref_name(hb[2]["inner"][0]) != I:
                        raise LeafError("scan helper %s: not `int i = from; while ...; return i`" % hname)
                    return emit(loop_test(hb[1], I, is_break), hs, I)
                raise LeafError("scan helper %s has an unrecognised shape" % hname)
    raise LeafError("no descending separator scan found")
