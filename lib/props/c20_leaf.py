"""Small translator for leaf integer functions (DESIGN.md 4.4), used by C20.

clang -Xclang -ast-dump=json -Xclang -ast-dump-filter=<fn> -fsyntax-only  ->  Gallina.

Supported fragment: a function whose parameters and locals are integers;
statements: if (without fall-through of the 'then' part unless it returns),
return, assignment, compound assignment, local declarations with initialiser;
expressions: + - * & | ^ << >> ! && || comparisons, integer and character
literals, casts between integer types, parentheses; for a `const char *` parameter s
(a NUL-terminated string, modelled as `list Z`) also strlen(s) and s[k] with a literal k
(reading the terminator or beyond the list yields 0).
`for` loops whose trip count is decided by constants only (the control variable is a local
initialised with a constant, compared with constants, stepped by ++/--/op= constant and not
assigned in the body; no break/continue/return/goto in the body) are UNROLLED by evaluating
the control variable in Python (at most 64 iterations).  Calls of helpers defined in the same
file whose body is a single `return e;` are inlined by substitution.  Anything else raises
LeafError (reported by the check as a broken obligation).

Two numeric modes:
  'N' : every value is an unsigned 64-bit quantity held in Coq's N; + - * << wrap
        modulo 2^64 explicitly.  (muggle_next_pow_of_2)
  'Z' : values are Coq Z; arithmetic at (promoted) int is exact (signed overflow is
        undefined in C and excluded), casts to / arithmetic at an unsigned type
        of b bits wrap modulo 2^b.  (muggle_hex_to_byte)
"""
import json
import subprocess


class LeafError(Exception):
    pass


UNSIGNED_BITS = {
    "uint64_t": 64, "unsigned long": 64, "unsigned long long": 64, "size_t": 64,
    "uint32_t": 32, "unsigned int": 32, "uint16_t": 16, "unsigned short": 16,
    "uint8_t": 8, "unsigned char": 8,
}
SIGNED_BITS = {"int": 32, "long": 64, "long long": 64, "int64_t": 64, "int32_t": 32,
               "char": 8, "signed char": 8, "short": 16, "int16_t": 16, "int8_t": 8}


def clang_ast(repo, relpath, fn, include_dirs, defines=()):
    cmd = ["clang", "-Xclang", "-ast-dump=json", "-Xclang", "-ast-dump-filter=" + fn,
           "-fsyntax-only", "-std=gnu11", "-DNDEBUG", "-w"] + ["-D" + d for d in defines]
    for d in include_dirs:
        cmd += ["-I", d]
    cmd.append(relpath)
    p = subprocess.run(cmd, cwd=repo, stdout=subprocess.PIPE, stderr=subprocess.PIPE, text=True, timeout=120)
    if p.returncode != 0:
        raise LeafError("clang failed: " + p.stderr[-400:])
    dec, i, objs, txt = json.JSONDecoder(), 0, [], p.stdout
    while i < len(txt):
        while i < len(txt) and txt[i].isspace():
            i += 1
        if i >= len(txt):
            break
        o, i = dec.raw_decode(txt, i)
        objs.append(o)
    for o in objs:
        if o.get("kind") == "FunctionDecl" and o.get("name") == fn and \
                any(c.get("kind") == "CompoundStmt" for c in o.get("inner", [])):
            return o
    raise LeafError("no definition of %s found in %s" % (fn, relpath))


def qt(n):
    t = n.get("type", {})
    return t.get("desugaredQualType") or t.get("qualType") or ""


class Tr:
    def __init__(self, mode):
        self.mode = mode
        self.S = "N" if mode == "N" else "Z"
        self.strings = set()
        self.scan = None      # (string name, index variable, Coq name of the scanned character)
        self.consts = {}      # unrolled loop control variables: name -> current Python value
        self.subst = {}       # parameters of a helper being inlined: name -> Gallina text
        self.str_alias = {}   # string parameters of a helper being inlined: name -> caller's string
        self.loader = None    # name -> FunctionDecl of a function defined in the same file
        self.depth = 0

    # ---- types
    def ubits(self, t):
        t = t.replace("const ", "").strip()
        return UNSIGNED_BITS.get(t)

    def check_type(self, t):
        t = t.replace("const ", "").strip()
        if t in UNSIGNED_BITS or t in SIGNED_BITS:
            if self.mode == "N" and t in UNSIGNED_BITS and UNSIGNED_BITS[t] != 64:
                raise LeafError("N mode supports only 64-bit unsigned, got " + t)
            return
        raise LeafError("unsupported type " + t)

    def wrap(self, e, t):
        b = self.ubits(t)
        if b is None:
            if self.mode == "N":
                raise LeafError("signed arithmetic in N mode (%s)" % t)
            return e
        return "((%s) mod %d)" % (e, 1 << b)

    # ---- expressions
    def expr(self, n):
        """expression in a VALUE context -> Gallina of the numeric sort (Z or N).  A C expression whose
        value is a truth value (comparison, !, &&, ||) is converted with b2z = `if b then 1 else 0`;
        every local initialised or assigned from it is therefore bound as a number, and its later use in
        a condition goes back through z2b = `negb (v =? 0)` (see cond)."""
        if self.is_boolean(n):
            return "(if %s then 1 else 0)" % self.cond(n)
        return self.value(n)

    def value(self, n):
        k = n.get("kind")
        inner = n.get("inner", [])
        if k in ("ParenExpr", "ConstantExpr"):
            return self.expr(inner[0])
        if k == "ImplicitCastExpr" or k == "CStyleCastExpr":
            ck = n.get("castKind")
            if ck in ("LValueToRValue", "NoOp"):
                return self.expr(inner[0])
            if ck == "IntegralCast":
                src, dst = inner[0], qt(n)
                self.check_type(dst)
                e = self.expr(src)
                if src.get("kind") in ("IntegerLiteral", "CharacterLiteral") and self.lit_fits(src, dst):
                    return e
                if self.mode == "N":
                    # only widening of already-unsigned-64 values or literals is accepted
                    if self.ubits(dst) == 64 and (self.ubits(qt(src)) == 64):
                        return e
                    raise LeafError("cast %s -> %s in N mode" % (qt(src), dst))
                if self.ubits(dst) is not None:
                    return self.wrap(e, dst)
                return e   # to a signed type: value assumed representable (checked by the differential run)
            raise LeafError("unsupported cast kind %s" % ck)
        if k == "IntegerLiteral":
            v = int(n["value"])
            if v < 0 and self.mode == "N":
                raise LeafError("negative literal in N mode")
            return str(v) if v >= 0 else "(%d)" % v
        if k == "CharacterLiteral":
            return str(int(n["value"]))
        if k == "DeclRefExpr":
            d = n.get("referencedDecl", {})
            if d.get("kind") not in ("ParmVarDecl", "VarDecl"):
                raise LeafError("reference to %s" % d.get("kind"))
            if d["name"] in self.consts:
                v = self.consts[d["name"]]
                return str(v) if v >= 0 else "(%d)" % v
            if d["name"] in self.subst:
                return self.subst[d["name"]]
            return d["name"]
        if k == "UnaryOperator":
            op, a = n["opcode"], self.expr(inner[0])
            if op == "!":
                return "(%s =? 0)" % self.as_int(inner[0])
            if op == "-" and self.mode == "Z":
                return self.wrap("(- %s)" % a, qt(n))
            if op == "+":
                return a
            if op == "~" and self.mode == "Z" and self.ubits(qt(n)) is None:
                return "(Z.lnot %s)" % a
            raise LeafError("unsupported unary %s" % op)
        if k == "BinaryOperator":
            op = n["opcode"]
            if op in ("&&", "||"):
                a, b = self.cond(inner[0]), self.cond(inner[1])
                return "(%s %s %s)" % (a, op, b)
            if op in ("<", "<=", ">", ">=", "==", "!="):
                a, b = self.expr(inner[0]), self.expr(inner[1])
                m = {"<": "<?", "<=": "<=?", "==": "=?"}
                if op in m:
                    return "(%s %s %s)" % (a, m[op], b)
                if op == ">":
                    return "(%s <? %s)" % (b, a)
                if op == ">=":
                    return "(%s <=? %s)" % (b, a)
                return "(negb (%s =? %s))" % (a, b)
            return self.arith(op, self.expr(inner[0]), self.expr(inner[1]), qt(n))
        if k == "CallExpr":
            callee = self.strip_casts(inner[0])
            if self.mode == "Z" and callee.get("kind") == "DeclRefExpr" and \
                    callee.get("referencedDecl", {}).get("name") == "strlen" and len(inner) == 2:
                return "(Z.of_nat (length %s))" % self.string_ref(inner[1])
            return self.inline(n)
        if k == "ArraySubscriptExpr" and self.mode == "Z":
            idx = self.strip_casts(inner[1])
            if self.scan and idx.get("kind") == "DeclRefExpr" and \
                    idx.get("referencedDecl", {}).get("name") == self.scan[1] and \
                    self.string_ref(inner[0]) == self.scan[0]:
                return self.scan[2]
            if idx.get("kind") != "IntegerLiteral" or int(idx["value"]) < 0:
                raise LeafError("array index is not a non-negative literal")
            return "(nth %d%%nat %s 0)" % (int(idx["value"]), self.string_ref(inner[0]))
        raise LeafError("unsupported expression kind %s" % k)

    def strip_casts(self, n):
        while n.get("kind") in ("ImplicitCastExpr", "ParenExpr") and n.get("inner"):
            n = n["inner"][0]
        return n

    def string_ref(self, n):
        n = self.strip_casts(n)
        if n.get("kind") == "DeclRefExpr":
            name = n.get("referencedDecl", {}).get("name")
            name = self.str_alias.get(name, name)
            if name in self.strings:
                return name
        raise LeafError("expected a string parameter")

    def inline(self, n):
        """call of a helper defined in the same file whose body is a single `return e;`"""
        inner = n.get("inner", [])
        callee = self.strip_casts(inner[0])
        if callee.get("kind") != "DeclRefExpr" or self.loader is None:
            raise LeafError("unsupported call")
        name = callee.get("referencedDecl", {}).get("name")
        if self.depth > 8:
            raise LeafError("call nesting too deep at %s" % name)
        fn = self.loader(name)
        parms = [c for c in fn.get("inner", []) if c.get("kind") == "ParmVarDecl"]
        body = [c for c in fn.get("inner", []) if c.get("kind") == "CompoundStmt"]
        ss = [x for x in (body[0].get("inner", []) if body else []) if x.get("kind") != "NullStmt"]
        if len(ss) != 1 or ss[0].get("kind") != "ReturnStmt" or not ss[0].get("inner"):
            raise LeafError("helper %s is not a single return expression" % name)
        args = inner[1:]
        if len(args) != len(parms):
            raise LeafError("argument count mismatch calling %s" % name)
        new_subst, new_alias = {}, {}
        for p_, a in zip(parms, args):
            if qt(p_).replace(" ", "") == "constchar*":
                new_alias[p_["name"]] = self.string_ref(a)
            else:
                self.check_type(qt(p_))
                e = self.expr(a)
                if self.ubits(qt(p_)) is not None and self.mode == "Z":
                    e = self.wrap(e, qt(p_))
                new_subst[p_["name"]] = e
        saved = (self.subst, self.str_alias, self.consts)
        self.subst, self.str_alias, self.consts = new_subst, new_alias, {}
        self.depth += 1
        try:
            return self.expr(ss[0]["inner"][0])
        finally:
            self.depth -= 1
            self.subst, self.str_alias, self.consts = saved

    # ---- loops with a constant trip count
    def const_eval(self, n, env):
        k = n.get("kind")
        inner = n.get("inner", [])
        if k in ("ParenExpr", "ConstantExpr", "ImplicitCastExpr", "CStyleCastExpr"):
            return self.const_eval(inner[0], env)
        if k in ("IntegerLiteral", "CharacterLiteral"):
            return int(n["value"])
        if k == "DeclRefExpr":
            name = n.get("referencedDecl", {}).get("name")
            if name in env:
                return env[name]
            if name in self.consts:
                return self.consts[name]
            raise LeafError("loop control depends on the non-constant %s" % name)
        if k == "UnaryOperator" and n["opcode"] in ("-", "+", "!"):
            v = self.const_eval(inner[0], env)
            return {"-": -v, "+": v, "!": int(not v)}[n["opcode"]]
        if k == "BinaryOperator":
            op = n["opcode"]
            a, b = self.const_eval(inner[0], env), self.const_eval(inner[1], env)
            table = {"+": lambda: a + b, "-": lambda: a - b, "*": lambda: a * b, "<<": lambda: a << b,
                     ">>": lambda: a >> b, "&": lambda: a & b, "|": lambda: a | b, "^": lambda: a ^ b,
                     "<": lambda: int(a < b), "<=": lambda: int(a <= b), ">": lambda: int(a > b),
                     ">=": lambda: int(a >= b), "==": lambda: int(a == b), "!=": lambda: int(a != b),
                     "&&": lambda: int(bool(a) and bool(b)), "||": lambda: int(bool(a) or bool(b))}
            if op not in table or (op in ("<<", ">>") and not 0 <= b < 64):
                raise LeafError("unsupported operator %s in a loop control expression" % op)
            return table[op]()
        raise LeafError("loop control expression of kind %s" % k)

    def fit(self, v, t):
        t = t.replace("const ", "").strip()
        if t in UNSIGNED_BITS:
            return v % (1 << UNSIGNED_BITS[t])
        if t in SIGNED_BITS:
            b = SIGNED_BITS[t]
            if not -(1 << (b - 1)) <= v < (1 << (b - 1)):
                raise LeafError("signed loop variable overflows")
            return v
        raise LeafError("loop variable of type %s" % t)

    def assigns(self, n, var):
        """does the subtree assign to var, or leave the loop body early?"""
        k = n.get("kind")
        if k in ("BreakStmt", "ContinueStmt", "ReturnStmt", "GotoStmt"):
            return True
        if k in ("CompoundAssignOperator",) or (k == "BinaryOperator" and n.get("opcode") == "=") or \
                (k == "UnaryOperator" and n.get("opcode") in ("++", "--", "&")):
            t = self.strip_casts(n["inner"][0])
            if t.get("kind") == "DeclRefExpr" and t.get("referencedDecl", {}).get("name") == var:
                return True
        return any(self.assigns(c, var) for c in n.get("inner", []) if isinstance(c, dict))

    def unroll_for(self, s):
        inner = s.get("inner", [])
        if len(inner) != 5:
            raise LeafError("unexpected shape of a for statement")
        init, _cv, cond, inc, body = inner
        if init.get("kind") == "DeclStmt" and len(init.get("inner", [])) == 1 and init["inner"][0].get("inner"):
            d = init["inner"][0]
            var, vtype, v = d["name"], qt(d), self.const_eval(d["inner"][0], {})
        elif init.get("kind") == "BinaryOperator" and init.get("opcode") == "=" and \
                self.strip_casts(init["inner"][0]).get("kind") == "DeclRefExpr":
            t = self.strip_casts(init["inner"][0])
            var, vtype, v = t["referencedDecl"]["name"], qt(t), self.const_eval(init["inner"][1], {})
        else:
            raise LeafError("for loop without a constant initialisation of its control variable")
        if not cond or not inc or not cond.get("kind") or not inc.get("kind"):
            raise LeafError("for loop without condition or step")
        if self.assigns(body, var):
            raise LeafError("loop body assigns its control variable or leaves the loop early")
        v = self.fit(v, vtype)
        out, n_iter = [], 0
        while self.const_eval(cond, {var: v}):
            n_iter += 1
            if n_iter > 64:
                raise LeafError("loop does not end within 64 iterations")
            out.append({"kind": "_Bind", "var": var, "value": v})
            out.append(body)
            k = inc.get("kind")
            tgt = self.strip_casts(inc["inner"][0]) if inc.get("inner") else {}
            if tgt.get("kind") != "DeclRefExpr" or tgt.get("referencedDecl", {}).get("name") != var:
                raise LeafError("loop step does not update the control variable")
            if k == "UnaryOperator" and inc.get("opcode") in ("++", "--"):
                v = v + 1 if inc["opcode"] == "++" else v - 1
            elif k == "CompoundAssignOperator":
                c = self.const_eval(inc["inner"][1], {var: v})
                op = inc["opcode"][:-1]
                if op not in ("+", "-", "*", "<<", ">>") or (op in ("<<", ">>") and not 0 <= c < 64):
                    raise LeafError("unsupported loop step %s" % inc["opcode"])
                v = {"+": v + c, "-": v - c, "*": v * c, "<<": v << c, ">>": v >> c}[op]
            elif k == "BinaryOperator" and inc.get("opcode") == "=":
                v = self.const_eval(inc["inner"][1], {var: v})
            else:
                raise LeafError("unsupported loop step")
            v = self.fit(v, vtype)
        out.append({"kind": "_Bind", "var": var, "value": v})
        return out

    def lit_fits(self, lit, dst):
        v = int(lit["value"])
        b = self.ubits(dst)
        if b is not None:
            return 0 <= v < (1 << b)
        return True

    def arith(self, op, a, b, t):
        S = self.S
        self.check_type(t)
        ub = self.ubits(t)
        W = (1 << ub) if ub else None
        if op == "|":
            return "(%s.lor %s %s)" % (S, a, b)
        if op == "&":
            return "(%s.land %s %s)" % (S, a, b)
        if op == "^":
            return "(%s.lxor %s %s)" % (S, a, b)
        if op == ">>":
            return "(%s.shiftr %s %s)" % (S, a, b)
        if op == "<<":
            return self.wrap("%s.shiftl %s %s" % (S, a, b), t)
        if op == "+":
            return self.wrap("%s + %s" % (a, b), t)
        if op == "*":
            return self.wrap("%s * %s" % (a, b), t)
        if op == "-":
            if W is not None:
                return "((%s + %d - %s) mod %d)" % (a, W, b, W)
            if self.mode == "N":
                raise LeafError("signed subtraction in N mode")
            return "(%s - %s)" % (a, b)
        raise LeafError("unsupported operator %s" % op)

    def is_boolean(self, n):
        k = n.get("kind")
        if k in ("ParenExpr", "ImplicitCastExpr") and n.get("castKind") in (None, "LValueToRValue", "NoOp", "IntegralCast"):
            return self.is_boolean(n["inner"][0])
        if k == "UnaryOperator" and n["opcode"] == "!":
            return True
        if k == "BinaryOperator" and n["opcode"] in ("&&", "||", "<", "<=", ">", ">=", "==", "!="):
            return True
        return False

    def as_int(self, n):
        """expression used as an integer operand of '!' """
        if self.is_boolean(n):
            return "(if %s then 1 else 0)" % self.cond(n)
        return self.expr(n)

    def cond(self, n):
        """expression in a boolean context -> Coq bool"""
        if self.is_boolean(n):
            k = n.get("kind")
            if k in ("ParenExpr", "ImplicitCastExpr"):
                return self.cond(n["inner"][0])
            return self.value(n)
        return "(negb (%s =? 0))" % self.expr(n)

    # ---- statements (continuation style)
    def returns(self, n):
        k = n.get("kind")
        if k == "ReturnStmt":
            return True
        if k == "CompoundStmt":
            inner = n.get("inner", [])
            return bool(inner) and self.returns(inner[-1])
        if k == "IfStmt":
            inner = n["inner"]
            return len(inner) == 3 and self.returns(inner[1]) and self.returns(inner[2])
        return False

    def block(self, stmts):
        if not stmts:
            raise LeafError("control reaches the end of the function without return")
        s, rest = stmts[0], stmts[1:]
        k = s.get("kind")
        if k == "CompoundStmt":
            return self.block(list(s.get("inner", [])) + rest)
        if k == "_Bind":
            self.consts[s["var"]] = s["value"]
            return self.block(rest)
        if k == "ForStmt":
            return self.block(self.unroll_for(s) + rest)
        if k == "ReturnStmt":
            return self.expr(s["inner"][0])
        if k == "IfStmt":
            inner = s["inner"]
            c = self.cond(inner[0])
            snap = dict(self.consts)
            if len(inner) == 3:
                t = self.block([inner[1]] + ([] if self.returns(inner[1]) else rest))
                self.consts = dict(snap)
                e = self.block([inner[2]] + ([] if self.returns(inner[2]) else rest))
                return "(if %s\n   then %s\n   else %s)" % (c, t, e)
            if not self.returns(inner[1]):
                raise LeafError("if without else whose body does not return")
            t = self.block([inner[1]])
            self.consts = dict(snap)
            return "(if %s\n   then %s\n   else %s)" % (c, t, self.block(rest))
        if k == "CompoundAssignOperator":
            lhs, rhs = s["inner"]
            if lhs.get("kind") != "DeclRefExpr":
                raise LeafError("assignment to a non-variable")
            name = lhs["referencedDecl"]["name"]
            if name in self.consts or name in self.subst:
                raise LeafError("assignment to a loop control variable or an inlined parameter")
            op = s["opcode"][:-1]
            if self.ubits(qt(lhs)) != self.ubits(qt(s)) or self.ubits(qt(lhs)) is None and self.mode == "N":
                raise LeafError("compound assignment with a type change")
            e = self.arith(op, name, self.expr(rhs), qt(s))
            return "(let %s := %s in\n %s)" % (name, e, self.block(rest))
        if k == "BinaryOperator" and s.get("opcode") == "=":
            lhs, rhs = s["inner"]
            if lhs.get("kind") != "DeclRefExpr" or lhs["referencedDecl"]["name"] in self.consts:
                raise LeafError("assignment to a non-variable or a loop control variable")
            return "(let %s := %s in\n %s)" % (lhs["referencedDecl"]["name"], self.expr(rhs), self.block(rest))
        if k == "DeclStmt":
            out = None
            names = []
            for d in s["inner"]:
                if d.get("kind") != "VarDecl" or not d.get("inner"):
                    raise LeafError("declaration without initialiser")
                self.check_type(qt(d))
                names.append((d["name"], self.expr(d["inner"][0])))
            body = self.block(rest)
            for name, e in reversed(names):
                body = "(let %s := %s in\n %s)" % (name, e, body)
            return body
        if k == "NullStmt":
            return self.block(rest)
        raise LeafError("unsupported statement kind %s" % k)


def translate(fdecl, gname, mode, loader=None):
    tr = Tr(mode)
    tr.loader = loader
    params, body = [], None
    for c in fdecl.get("inner", []):
        if c.get("kind") == "ParmVarDecl":
            if qt(c).replace(" ", "") == "constchar*" and mode == "Z":
                tr.strings.add(c["name"])
                params.append((c["name"], "list Z"))
                continue
            tr.check_type(qt(c))
            params.append((c["name"], tr.S))
        elif c.get("kind") == "CompoundStmt":
            body = c
    if body is None:
        raise LeafError("no body")
    rt = fdecl["type"]["qualType"].split("(")[0].strip()
    tr.check_type(rt)
    e = tr.block(list(body.get("inner", [])))
    S = tr.S
    return "Definition %s %s : %s :=\n  %s%%%s.\n" % (
        gname, " ".join("(%s : %s)" % (p, t) for p, t in params), S, e, S)


def translate_scan_down(fdecl, gname, loader=None):
    """Recognises the descending scan for the last character of a `const char *` parameter S
    satisfying a test C, in one of these shapes, and returns
    `Definition gname (c : Z) : bool := C[S[P] := c]`:

      (1) in the function itself, among its top-level statements
            int L = (int)strlen(S); ... int P = L - 1;
            while (P >= 0) { if (C) break; --P; }          (or: for (; P >= 0; --P) { if (C) break; })
      (2) through a helper defined in the same file
            int L = (int)strlen(S); ... int P = H(S, L - 1);
          where H(const char *s, int from) is
            int i; for (i = from; i >= 0; --i) { if (C) return i; } return -1;
          or  int i = from; while (i >= 0) { if (C) break; --i; } return i;

    C may mention only S[P] and literals.  Meaning of the recognised shapes (part of the trusted
    translator): P is the index of the LAST character of S satisfying C, -1 if there is none.
    Any other shape (strrchr, an ascending scan, another start index ...) raises LeafError."""
    tr = Tr("Z")
    tr.loader = loader

    def strings_of(fd):
        return set(c["name"] for c in fd.get("inner", [])
                   if c.get("kind") == "ParmVarDecl" and qt(c).replace(" ", "") == "constchar*")

    def body_of(fd):
        for c in fd.get("inner", []):
            if c.get("kind") == "CompoundStmt":
                return [x for x in c.get("inner", []) if x.get("kind") != "NullStmt"]
        raise LeafError("no body")

    def var_decl(st):
        if st.get("kind") == "DeclStmt" and len(st.get("inner", [])) == 1 and st["inner"][0].get("kind") == "VarDecl":
            return st["inner"][0]
        return None

    def ref_name(n):
        n = tr.strip_casts(n)
        return n.get("referencedDecl", {}).get("name") if n.get("kind") == "DeclRefExpr" else None

    def lit(n, v):
        n = tr.strip_casts(n)
        if n.get("kind") == "UnaryOperator" and n.get("opcode") == "-" and v < 0:
            return lit(n["inner"][0], -v)
        return n.get("kind") == "IntegerLiteral" and int(n["value"]) == v

    def unbrace(n):
        return [x for x in n.get("inner", []) if x.get("kind") != "NullStmt"] if n.get("kind") == "CompoundStmt" else [n]

    def ge0(cond, P):
        c0 = tr.strip_casts(cond)
        return c0.get("kind") == "BinaryOperator" and c0.get("opcode") == ">=" and ref_name(c0["inner"][0]) == P \
            and lit(c0["inner"][1], 0)

    def dec1(n, P):
        return n.get("kind") == "UnaryOperator" and n.get("opcode") == "--" and ref_name(n["inner"][0]) == P

    def test_of(ifst, leave):
        """if (C) { <leave> } without else -> C"""
        if ifst.get("kind") != "IfStmt" or len(ifst["inner"]) != 2:
            raise LeafError("scan loop body is not a single `if (C) ...`")
        tb = unbrace(ifst["inner"][1])
        if len(tb) != 1 or not leave(tb[0]):
            raise LeafError("scan loop: unexpected action in the branch")
        return ifst["inner"][0]

    def is_break(n):
        return n.get("kind") == "BreakStmt"

    def loop_test(loop, P, leave):
        """descending loop over P with body `if (C) leave;` -> C, or None if `loop` is no such loop"""
        k = loop.get("kind")
        if k == "WhileStmt":
            cond, wbody = loop["inner"][0], loop["inner"][1]
            if not ge0(cond, P):
                raise LeafError("scan loop condition is not `%s >= 0`" % P)
            bs = unbrace(wbody)
            if len(bs) != 2 or not dec1(bs[1], P):
                raise LeafError("scan loop body is not `if (C) ...; --%s;`" % P)
            return test_of(bs[0], leave)
        if k == "ForStmt" and len(loop.get("inner", [])) == 5:
            init, _cv, cond, inc, fbody = loop["inner"]
            if not (cond.get("kind") and ge0(cond, P) and inc.get("kind") and dec1(inc, P)):
                raise LeafError("scan loop is not `for (...; %s >= 0; --%s)`" % (P, P))
            bs = unbrace(fbody)
            if len(bs) != 1:
                raise LeafError("scan loop body is not a single `if (C) ...`")
            return test_of(bs[0], leave), init
        return None

    def emit(C, S, P):
        tr.scan = (S, P, "c")
        return "Definition %s (c : Z) : bool :=\n  %s%%Z.\n" % (gname, tr.cond(C))

    tr.strings = strings_of(fdecl)
    stmts = body_of(fdecl)
    lens = {}      # int variable -> string whose strlen it holds
    for st in stmts:
        d = var_decl(st)
        if d is None or not d.get("inner"):
            continue
        init = d["inner"][0]
        while init.get("kind") in ("CStyleCastExpr", "ImplicitCastExpr", "ParenExpr"):
            init = init["inner"][0]
        if init.get("kind") == "CallExpr" and ref_name(init["inner"][0]) == "strlen" and len(init["inner"]) == 2:
            sname = ref_name(init["inner"][1])
            if sname in tr.strings:
                lens[d["name"]] = sname

    def len_minus_1(n):
        """L - 1 -> the string S with L = strlen(S), else None"""
        n = tr.strip_casts(n)
        if n.get("kind") == "BinaryOperator" and n.get("opcode") == "-" and ref_name(n["inner"][0]) in lens \
                and lit(n["inner"][1], 1):
            return lens[ref_name(n["inner"][0])]
        return None

    for i, st in enumerate(stmts):
        d = var_decl(st)
        if d is None or not d.get("inner"):
            continue
        init = tr.strip_casts(d["inner"][0])
        # shape (1): int P = L - 1; <loop>
        S = len_minus_1(init)
        if S is not None and i + 1 < len(stmts):
            r = loop_test(stmts[i + 1], d["name"], is_break)
            if r is not None:
                C = r[0] if isinstance(r, tuple) else r
                if isinstance(r, tuple) and r[1].get("kind"):
                    raise LeafError("scan for-loop re-initialises its index")
                return emit(C, S, d["name"])
        # shape (2): int P = H(S, L - 1)
        if init.get("kind") == "CallExpr" and len(init.get("inner", [])) == 3 and loader is not None:
            hname = ref_name(init["inner"][0])
            S = ref_name(init["inner"][1])
            if hname and S in tr.strings and len_minus_1(init["inner"][2]) == S:
                H = loader(hname)
                hp = [c for c in H.get("inner", []) if c.get("kind") == "ParmVarDecl"]
                if len(hp) != 2 or qt(hp[0]).replace(" ", "") != "constchar*" or qt(hp[1]).replace("const ", "").strip() != "int":
                    raise LeafError("scan helper %s does not have the signature (const char *, int)" % hname)
                hs, hfrom = hp[0]["name"], hp[1]["name"]
                hb = body_of(H)
                tr.strings = {hs}
                # int i; for (i = from; i >= 0; --i) { if (C) return i; } return -1;
                if len(hb) == 3 and var_decl(hb[0]) is not None and hb[1].get("kind") == "ForStmt" \
                        and hb[2].get("kind") == "ReturnStmt":
                    I = var_decl(hb[0])["name"]

                    def ret_i(n):
                        return n.get("kind") == "ReturnStmt" and n.get("inner") and ref_name(n["inner"][0]) == I
                    r = loop_test(hb[1], I, ret_i)
                    finit = r[1]
                    ok_init = (finit.get("kind") == "BinaryOperator" and finit.get("opcode") == "="
                               and ref_name(finit["inner"][0]) == I and ref_name(finit["inner"][1]) == hfrom)
                    if var_decl(hb[0]).get("inner"):
                        ok_init = ok_init or (not finit.get("kind") and ref_name(var_decl(hb[0])["inner"][0]) == hfrom)
                    if not ok_init or not lit(hb[2]["inner"][0], -1):
                        raise LeafError("scan helper %s: not `for (i = from; i >= 0; --i) ... return -1`" % hname)
                    return emit(r[0], hs, I)
                # for (int i = from; i >= 0; --i) { if (C) return i; } return -1;
                if len(hb) == 2 and hb[0].get("kind") == "ForStmt" and hb[1].get("kind") == "ReturnStmt":
                    finit = hb[0]["inner"][0]
                    dI = var_decl(finit)
                    if dI is None or not dI.get("inner") or ref_name(dI["inner"][0]) != hfrom or not lit(hb[1]["inner"][0], -1):
                        raise LeafError("scan helper %s: not `for (int i = from; i >= 0; --i) ... return -1`" % hname)
                    I = dI["name"]

                    def ret_i2(n):
                        return n.get("kind") == "ReturnStmt" and n.get("inner") and ref_name(n["inner"][0]) == I
                    r = loop_test(hb[0], I, ret_i2)
                    return emit(r[0], hs, I)
                # int i = from; while (i >= 0) { if (C) break; --i; } return i;
                if len(hb) == 3 and var_decl(hb[0]) is not None and hb[1].get("kind") == "WhileStmt" \
                        and hb[2].get("kind") == "ReturnStmt":
                    dI = var_decl(hb[0])
                    I = dI["name"]
                    if not dI.get("inner") or ref_name(dI["inner"][0]) != hfrom or ref_name(hb[2]["inner"][0]) != I:
                        raise LeafError("scan helper %s: not `int i = from; while ...; return i`" % hname)
                    return emit(loop_test(hb[1], I, is_break), hs, I)
                raise LeafError("scan helper %s has an unrecognised shape" % hname)
    raise LeafError("no descending separator scan found")


# ---------------------------------------------------------------------------------------------------------
# The integer parsers muggle_str_to{i,u,l,ul,ll,ull}: a wrapper around ONE call of the strtol family.
#
# The whole body is translated (NULL checks, base check, errno reset, the call, the end-pointer tests, the
# range / sign chain, the store through pval, the return codes); what libc and the string contribute is
# ABSTRACT input of the generated function:
#     lret    value returned by strtoX(str, &endptr, base)          ler    the call set errno to ERANGE
#     lend    endptr - str after the call                            endc   *endptr
#     tailidx muggle_str_lstrip_idx(endptr)                          firstc str[muggle_str_lstrip_idx(str)]
#     errno0  errno on entry      pval0  *pval on entry      str_null / pval_null   the pointer is NULL
# errno is threaded: `errno = e` binds errno_v, the libc call rebinds it to (if ler then 34 else errno_v);
# `*pval = e` binds pval_v.  The result is the pair (return code, final *pval).
# Supported beyond the leaf fragment: pointer comparisons `p == NULL`, `!p`, `endptr == str`; `*endptr`,
# `*pval`, errno; an `if` without `else` whose body falls through (the continuation is duplicated); calls of
# helpers defined in the same file with any body of the supported statements (inlined; pointer arguments
# are passed by role, side effects inside helpers are not supported); explicit wrap of EVERY integer
# conversion that can change the value (signed ones included, unlike the leaf fragment).
# Anything else -> LeafError -> the obligation breaks.

LIBC_INT = {"strtol": 1, "strtoul": 2, "strtoll": 3, "strtoull": 4}
PARSER_RESERVED = {"lret", "lend", "endc", "tailidx", "firstc", "ler", "errno_v", "pval_v", "str_null", "pval_null",
                   "errno0", "pval0"}


def tinfo(t):
    t = t.replace("const ", "").replace("volatile ", "").strip()
    if t in UNSIGNED_BITS:
        return (False, UNSIGNED_BITS[t])
    if t in SIGNED_BITS:
        return (True, SIGNED_BITS[t])
    return None


def trange(info):
    sg, b = info
    return (-(1 << (b - 1)), (1 << (b - 1)) - 1) if sg else (0, (1 << b) - 1)


class ParserTr(Tr):
    def __init__(self):
        Tr.__init__(self, "Z")
        self.roles = {}          # pointer variable -> "str" | "pval" | "endptr"
        self.local_ptrs = set()  # pointer locals declared without initialiser
        self.uninit = set()      # integer locals declared without initialiser, not yet assigned
        self.called = None       # name of the libc function once it has been called on this path
        self.libc_seen = set()
        self.pair = True         # `return e` yields (e, pval_v); False inside an inlined helper
        self.allow_libc = False
        self.base_param = None
        self.fresh = 0

    # ---- helpers
    def strip_all(self, n):
        while n.get("kind") in ("ImplicitCastExpr", "ParenExpr", "CStyleCastExpr") and n.get("inner") and \
                n.get("castKind") in (None, "LValueToRValue", "NoOp", "BitCast", "NullToPointer", "FunctionToPointerDecay"):
            n = n["inner"][0]
        return n

    def is_ptr(self, n):
        return qt(n).strip().endswith("*")

    def is_null(self, n):
        while n.get("kind") in ("ImplicitCastExpr", "ParenExpr", "CStyleCastExpr") and n.get("inner"):
            if n.get("castKind") == "NullToPointer":
                return True
            n = n["inner"][0]
        return False

    def role_of(self, n):
        n = self.strip_all(n)
        if n.get("kind") == "DeclRefExpr":
            return self.roles.get(n.get("referencedDecl", {}).get("name"))
        return None

    def callee_name(self, n):
        c = self.strip_all(n["inner"][0])
        return c.get("referencedDecl", {}).get("name") if c.get("kind") == "DeclRefExpr" else None

    def need_call(self, what):
        if self.called is None:
            raise LeafError("%s is used before the strtol-family call" % what)

    def snapshot(self):
        return (self.called, set(self.uninit), dict(self.roles), dict(self.consts))

    def restore(self, s):
        self.called, self.uninit, self.roles, self.consts = s[0], set(s[1]), dict(s[2]), dict(s[3])

    # ---- expressions
    def ptr_eq(self, a, b):
        """Coq bool for a == b (b None: a == NULL)"""
        kinds = []
        for x in (a, b):
            if x is None or self.is_null(x):
                kinds.append("null")
            else:
                r = self.role_of(x)
                if r is None:
                    raise LeafError("comparison of an unrecognised pointer")
                kinds.append(r)
        ks = tuple(sorted(kinds))
        if ks == ("null", "str"):
            return "str_null"
        if ks == ("null", "pval"):
            return "pval_null"
        if ks == ("endptr", "str"):
            self.need_call("endptr")
            return "(lend =? 0)"
        raise LeafError("unsupported pointer comparison %s == %s" % tuple(kinds))

    def int_cast(self, n):
        src, dst = n["inner"][0], qt(n)
        self.check_type(dst)
        e = self.expr(src)
        di = tinfo(dst)
        lo, hi = trange(di)
        lit = self.strip_casts(src)
        if lit.get("kind") in ("IntegerLiteral", "CharacterLiteral") and lit is src and lo <= int(lit["value"]) <= hi:
            return e
        si = tinfo(qt(src))
        if self.is_boolean(src):
            si = (True, 2)
        if si is not None:
            slo, shi = trange(si)
            if lo <= slo and shi <= hi:
                return e
        sg, b = di
        if not sg:
            return "((%s) mod %d)" % (e, 1 << b)
        return "(((%s) + %d) mod %d - %d)" % (e, 1 << (b - 1), 1 << b, 1 << (b - 1))

    def value(self, n):
        k = n.get("kind")
        inner = n.get("inner", [])
        if k in ("ImplicitCastExpr", "CStyleCastExpr") and n.get("castKind") == "IntegralCast":
            return self.int_cast(n)
        if k == "UnaryOperator" and n.get("opcode") == "*":
            t = self.strip_all(inner[0])
            if t.get("kind") == "CallExpr" and self.callee_name(t) == "__errno_location":
                return "errno_v"
            r = self.role_of(inner[0])
            if r == "endptr":
                self.need_call("*endptr")
                return "endc"
            if r == "pval":
                return "pval_v"
            raise LeafError("unsupported dereference")
        if k == "BinaryOperator" and n.get("opcode") in ("==", "!=") and (self.is_ptr(inner[0]) or self.is_ptr(inner[1])):
            b = self.ptr_eq(inner[0], inner[1])
            return b if n["opcode"] == "==" else "(negb %s)" % b
        if k == "UnaryOperator" and n.get("opcode") == "!" and self.is_ptr(inner[0]):
            return self.ptr_eq(inner[0], None)
        if k == "CallExpr":
            name = self.callee_name(n)
            if name in LIBC_INT:
                if not self.allow_libc:
                    raise LeafError("call of %s outside an assignment" % name)
                return self.libc_call(n, name)
            if name == "muggle_str_lstrip_idx" and len(inner) == 2:
                r = self.role_of(inner[1])
                if r == "endptr":
                    self.need_call("endptr")
                    return "tailidx"
                raise LeafError("muggle_str_lstrip_idx(%s) outside str[...]" % r)
            return self.inline_fn(n)
        if k == "ArraySubscriptExpr":
            idx = self.strip_all(inner[1])
            if self.role_of(inner[0]) == "str" and idx.get("kind") == "CallExpr" and \
                    self.callee_name(idx) == "muggle_str_lstrip_idx" and len(idx["inner"]) == 2 and \
                    self.role_of(idx["inner"][1]) == "str":
                return "firstc"
            raise LeafError("unsupported array access")
        if k == "ConditionalOperator" and len(inner) == 3:
            return "(if %s then %s else %s)" % (self.cond(inner[0]), self.expr(inner[1]), self.expr(inner[2]))
        if k == "DeclRefExpr":
            name = n.get("referencedDecl", {}).get("name")
            if name in self.uninit:
                raise LeafError("read of the uninitialised local %s" % name)
            if self.is_ptr(n):
                raise LeafError("pointer %s used as a value" % name)
        return Tr.value(self, n)

    def libc_call(self, n, name):
        args = n["inner"][1:]
        if self.called is not None:
            raise LeafError("second call of the strtol family")
        if len(args) != 3 or self.role_of(args[0]) != "str":
            raise LeafError("%s is not called on str" % name)
        a1 = self.strip_all(args[1])
        tgt = self.strip_all(a1["inner"][0]) if a1.get("kind") == "UnaryOperator" and a1.get("opcode") == "&" else {}
        pname = tgt.get("referencedDecl", {}).get("name") if tgt.get("kind") == "DeclRefExpr" else None
        if pname not in self.local_ptrs:
            raise LeafError("second argument of %s is not the address of a local end pointer" % name)
        a2 = self.strip_all(args[2])
        if a2.get("kind") != "DeclRefExpr" or a2.get("referencedDecl", {}).get("name") != self.base_param:
            raise LeafError("third argument of %s is not the base parameter" % name)
        self.roles[pname] = "endptr"
        self.called = name
        self.libc_seen.add(name)
        return "lret"

    def inline_fn(self, n):
        inner = n.get("inner", [])
        name = self.callee_name(n)
        if name is None or self.loader is None:
            raise LeafError("unsupported call")
        if self.depth > 8:
            raise LeafError("call nesting too deep at %s" % name)
        fn = self.loader(name)
        parms = [c for c in fn.get("inner", []) if c.get("kind") == "ParmVarDecl"]
        body = [c for c in fn.get("inner", []) if c.get("kind") == "CompoundStmt"]
        if not body:
            raise LeafError("no body for %s" % name)
        args = inner[1:]
        if len(args) != len(parms):
            raise LeafError("argument count mismatch calling %s" % name)
        new_roles, new_subst, lets = {}, {}, []
        for p_, a in zip(parms, args):
            if qt(p_).strip().endswith("*"):
                r = self.role_of(a)
                if r is None:
                    raise LeafError("unrecognised pointer argument of %s" % name)
                new_roles[p_["name"]] = r
            else:
                self.check_type(qt(p_))
                self.fresh += 1
                v = "%s_%d" % (p_["name"], self.fresh)
                lets.append((v, self.expr(a)))
                new_subst[p_["name"]] = v
        saved = (self.roles, self.subst, self.pair, self.uninit, self.local_ptrs, self.consts)
        self.roles, self.subst, self.pair, self.uninit, self.local_ptrs, self.consts = new_roles, new_subst, False, set(), set(), {}
        self.depth += 1
        try:
            e = self.block(list(body[0].get("inner", [])))
        finally:
            self.depth -= 1
            self.roles, self.subst, self.pair, self.uninit, self.local_ptrs, self.consts = saved
        for v, ex in reversed(lets):
            e = "(let %s := %s in %s)" % (v, ex, e)
        return e

    # ---- statements
    def bind(self, name, e, rest):
        return "(let %s := %s in\n %s)" % (name, e, self.block(rest))

    def assign(self, lhs, rhs, rest):
        l = self.strip_casts(lhs)
        has_libc = self.find_libc(rhs)
        if has_libc:
            self.allow_libc = True
        try:
            e = self.expr(rhs)
        finally:
            self.allow_libc = False
        if l.get("kind") == "UnaryOperator" and l.get("opcode") == "*":
            t = self.strip_all(l["inner"][0])
            if t.get("kind") == "CallExpr" and self.callee_name(t) == "__errno_location":
                if has_libc:
                    raise LeafError("errno assigned from the libc call")
                return self.bind("errno_v", e, rest)
            if self.role_of(l["inner"][0]) == "pval":
                if not self.pair:
                    raise LeafError("store through pval inside a helper")
                target = "pval_v"
            else:
                raise LeafError("store through an unrecognised pointer")
        elif l.get("kind") == "DeclRefExpr" and not self.is_ptr(l):
            target = l["referencedDecl"]["name"]
            if target in self.consts or target in self.subst or target in PARSER_RESERVED:
                raise LeafError("assignment to %s" % target)
            self.check_type(qt(l))
            self.uninit.discard(target)
        else:
            raise LeafError("unsupported assignment target")
        if has_libc:
            return "(let %s := %s in\n (let errno_v := (if ler then 34 else errno_v) in\n %s))" % (target, e, self.block(rest))
        return self.bind(target, e, rest)

    def find_libc(self, n):
        if n.get("kind") == "CallExpr" and self.callee_name(n) in LIBC_INT:
            return True
        return any(self.find_libc(c) for c in n.get("inner", []) if isinstance(c, dict))

    def block(self, stmts):
        if not stmts:
            raise LeafError("control reaches the end of the function without return")
        s, rest = stmts[0], stmts[1:]
        k = s.get("kind")
        if k == "CompoundStmt":
            return self.block(list(s.get("inner", [])) + rest)
        if k == "NullStmt":
            return self.block(rest)
        if k == "_Bind":
            self.consts[s["var"]] = s["value"]
            return self.block(rest)
        if k == "ForStmt":
            return self.block(self.unroll_for(s) + rest)
        if k == "ReturnStmt":
            if not s.get("inner"):
                raise LeafError("return without a value")
            e = self.expr(s["inner"][0])
            return "(%s, pval_v)" % e if self.pair else e
        if k == "IfStmt":
            inner = s["inner"]
            c = self.cond(inner[0])
            snap = self.snapshot()
            t = self.block([inner[1]] + ([] if self.returns(inner[1]) else rest))
            self.restore(snap)
            if len(inner) == 3:
                e = self.block([inner[2]] + ([] if self.returns(inner[2]) else rest))
            else:
                e = self.block(rest)
            return "(if %s\n   then %s\n   else %s)" % (c, t, e)
        if k == "BinaryOperator" and s.get("opcode") == "=":
            return self.assign(s["inner"][0], s["inner"][1], rest)
        if k == "DeclStmt":
            for i, d in enumerate(s["inner"]):
                if d.get("kind") != "VarDecl":
                    raise LeafError("unsupported declaration")
                name = d["name"]
                if name in PARSER_RESERVED:
                    raise LeafError("local %s clashes with a name of the translator" % name)
                if qt(d).strip().endswith("*"):
                    if d.get("inner") and any(x.get("kind") for x in d["inner"]):
                        r = self.role_of(d["inner"][0])
                        if r is None:
                            raise LeafError("pointer local %s with an unrecognised initialiser" % name)
                        self.roles[name] = r
                    else:
                        self.local_ptrs.add(name)
                    continue
                self.check_type(qt(d))
                if not d.get("inner"):
                    self.uninit.add(name)
                    continue
                # an initialised integer local: same as an assignment
                later = [{"kind": "DeclStmt", "inner": s["inner"][i + 1:]}] if s["inner"][i + 1:] else []
                fake_lhs = {"kind": "DeclRefExpr", "referencedDecl": {"name": name, "kind": "VarDecl"}, "type": d.get("type", {})}
                return self.assign(fake_lhs, d["inner"][0], later + rest)
            return self.block(rest)
        if k == "CompoundAssignOperator":
            raise LeafError("compound assignment in a parser wrapper")
        # an expression statement without effect we model (e.g. a call whose value is dropped) is not supported
        raise LeafError("unsupported statement kind %s" % k)


def translate_parser(fdecl, gname, loader=None):
    """-> Gallina text: Definition gname (str_null pval_null : bool) (BASE errno0 pval0 lret lend endc tailidx firstc : Z)
    (ler : bool) : Z * Z  and  Definition gname_libc : Z (1 strtol, 2 strtoul, 3 strtoll, 4 strtoull, 0 none)"""
    tr = ParserTr()
    tr.loader = loader
    body = None
    parms = [c for c in fdecl.get("inner", []) if c.get("kind") == "ParmVarDecl"]
    if len(parms) != 3:
        raise LeafError("expected (const char *str, T *pval, int base)")
    p_str, p_val, p_base = parms
    if qt(p_str).replace(" ", "") != "constchar*" or not qt(p_val).strip().endswith("*") or tinfo(qt(p_base)) != (True, 32):
        raise LeafError("expected (const char *str, T *pval, int base)")
    pv = tinfo(qt(p_val).strip()[:-1])
    if pv is None:
        raise LeafError("pval does not point to an integer type")
    for p_ in parms:
        if p_["name"] in PARSER_RESERVED:
            raise LeafError("parameter %s clashes with a name of the translator" % p_["name"])
    tr.roles = {p_str["name"]: "str", p_val["name"]: "pval"}
    tr.base_param = p_base["name"]
    for c in fdecl.get("inner", []):
        if c.get("kind") == "CompoundStmt":
            body = c
    if body is None:
        raise LeafError("no body")
    e = tr.block(list(body.get("inner", [])))
    libc = 0
    if len(tr.libc_seen) == 1:
        libc = LIBC_INT[list(tr.libc_seen)[0]]
    elif len(tr.libc_seen) > 1:
        raise LeafError("different strtol-family functions on different paths")
    return ("Definition %s (str_null pval_null : bool) (%s errno0 pval0 lret lend endc tailidx firstc : Z) (ler : bool) : Z * Z :=\n"
            "  (let errno_v := errno0 in\n (let pval_v := pval0 in\n %s))%%Z.\n\nDefinition %s_libc : Z := %d%%Z.\n"
            % (gname, tr.base_param, e, gname, libc))


# ---------------------------------------------------------------------------------------------------------
# Functions of the shape  <prelude> ; ONE loop ; <epilogue>  over NUL-terminated strings
# (muggle_str_lstrip_idx / rstrip_idx / startswith / endswith), and loop-free variants that use memcmp.
#
#   Definition G_iter (strings : list Z) (prelude variables : Z) (st : Z) : Z + Z
#       one iteration started at the loop head with the loop's single assigned variable = st:
#       inl st' = back at the loop head, inr v = the function returns v (from the body, or the loop condition
#       failed / `break` and the epilogue ran).  `for` increments and `continue` are folded in.
#   Definition G (S_null .. : bool) (strings : list Z) (integer parameters : Z) : option Z
#       the prelude in continuation style ending in  run_loop (S (sum of the string lengths)) (G_iter ..) st0
#       (None = the fuel did not suffice, which the obligation excludes).
# Strings: strlen(s), s[e] and (s + k)[e] with arbitrary index expressions (nth, reading the terminator or
# beyond gives 0), *p, pointer locals initialised with s + k, `s == NULL` (a boolean parameter), isspace(e) ->
# Model.is_space, memcmp(p, q, n) ==/!= 0 -> Loop.mem_eq.  ++/-- as statements, and inside a condition only as
# a direct operand of the comparison that IS the condition (hoisted in front of it).  Run clang with
# -D__NO_CTYPE so that isspace is a call.  Anything else -> LeafError.

def precise_int_cast(tr, n):
    return ParserTr.int_cast(tr, n)


class LoopTr(Tr):
    def __init__(self, gname):
        Tr.__init__(self, "Z")
        self.gname = gname
        self.nullflag = {}     # string parameter -> its NULL flag
        self.ptr = {}          # pointer local -> (string, offset text)
        self.bound = []        # integer names bound before the loop, in order (parameters first)
        self.declared = set()  # integer locals declared without initialiser
        self.state = None
        self.phase = "pre"
        self.post = None
        self.cont = []
        self.iter_def = None
        self.string_order = []

    # ---- pointers into strings
    def strip_ptr(self, n):
        while n.get("kind") in ("ImplicitCastExpr", "ParenExpr", "CStyleCastExpr") and n.get("inner") and \
                n.get("castKind") in (None, "LValueToRValue", "NoOp", "BitCast", "ArrayToPointerDecay"):
            n = n["inner"][0]
        return n

    def is_ptr(self, n):
        return qt(n).strip().endswith("*")

    def is_null(self, n):
        while n.get("kind") in ("ImplicitCastExpr", "ParenExpr", "CStyleCastExpr") and n.get("inner"):
            if n.get("castKind") == "NullToPointer":
                return True
            n = n["inner"][0]
        return False

    def ptr_of(self, n):
        """-> (string name, offset text) of a pointer-valued expression"""
        n = self.strip_ptr(n)
        k = n.get("kind")
        if k == "DeclRefExpr":
            name = n.get("referencedDecl", {}).get("name")
            if name in self.strings:
                return (name, "0")
            if name in self.ptr:
                return self.ptr[name]
            raise LeafError("unrecognised pointer %s" % name)
        if k == "BinaryOperator" and n.get("opcode") in ("+", "-"):
            a, b = n["inner"]
            if self.is_ptr(a) and not self.is_ptr(b):
                s, off = self.ptr_of(a)
                e = self.expr(b)
                return (s, "(%s %s %s)" % (off, n["opcode"], e))
            if n["opcode"] == "+" and self.is_ptr(b) and not self.is_ptr(a):
                s, off = self.ptr_of(b)
                return (s, "(%s + %s)" % (off, self.expr(a)))
        if k == "UnaryOperator" and n.get("opcode") == "&":
            t = self.strip_ptr(n["inner"][0])
            if t.get("kind") == "ArraySubscriptExpr":
                s, off = self.ptr_of(t["inner"][0])
                return (s, "(%s + %s)" % (off, self.expr(t["inner"][1])))
        raise LeafError("unsupported pointer expression")

    def rd(self, s, off):
        return "(nth (Z.to_nat %s) %s 0)" % (off, s)

    def callee(self, n):
        c = self.strip_ptr(n["inner"][0])
        while c.get("kind") == "ImplicitCastExpr" and c.get("inner"):
            c = c["inner"][0]
        return c.get("referencedDecl", {}).get("name") if c.get("kind") == "DeclRefExpr" else None

    def memcmp_eq(self, call):
        a = call["inner"][1:]
        if len(a) != 3:
            raise LeafError("memcmp with %d arguments" % len(a))
        (s1, o1), (s2, o2) = self.ptr_of(a[0]), self.ptr_of(a[1])
        return "(mem_eq %s (Z.to_nat %s) %s (Z.to_nat %s) (Z.to_nat %s))" % (s1, o1, s2, o2, self.expr(a[2]))

    def is_call(self, n, name):
        n = self.strip_casts(n)
        return n.get("kind") == "CallExpr" and self.callee(n) == name

    def has_side_effect(self, n):
        k = n.get("kind")
        if k == "UnaryOperator" and n.get("opcode") in ("++", "--"):
            return True
        if k == "CompoundAssignOperator" or (k == "BinaryOperator" and n.get("opcode") == "="):
            return True
        return any(self.has_side_effect(c) for c in n.get("inner", []) if isinstance(c, dict))

    # ---- expressions
    def is_boolean(self, n):
        if n.get("kind") == "CallExpr" and self.callee(n) == "isspace":
            return True
        return Tr.is_boolean(self, n)

    def lit0(self, n):
        n = self.strip_casts(n)
        return n.get("kind") == "IntegerLiteral" and int(n["value"]) == 0

    def value(self, n):
        k = n.get("kind")
        inner = n.get("inner", [])
        if k in ("ImplicitCastExpr", "CStyleCastExpr") and n.get("castKind") == "IntegralCast":
            return precise_int_cast(self, n)
        if k == "BinaryOperator" and n.get("opcode") in ("==", "!="):
            a, b = inner
            if self.is_ptr(a) or self.is_ptr(b):
                x, y = (a, b) if self.is_null(b) else (b, a)
                if not self.is_null(y):
                    raise LeafError("comparison of two pointers")
                t = self.strip_ptr(x)
                name = t.get("referencedDecl", {}).get("name") if t.get("kind") == "DeclRefExpr" else None
                if name not in self.nullflag:
                    raise LeafError("NULL test of something that is not a string parameter")
                return self.nullflag[name] if n["opcode"] == "==" else "(negb %s)" % self.nullflag[name]
            for x, y in ((a, b), (b, a)):
                if self.is_call(x, "memcmp") and self.lit0(y):
                    e = self.memcmp_eq(self.strip_casts(x))
                    return e if n["opcode"] == "==" else "(negb %s)" % e
        if k == "UnaryOperator" and n.get("opcode") == "!":
            if self.is_ptr(inner[0]):
                t = self.strip_ptr(inner[0])
                name = t.get("referencedDecl", {}).get("name") if t.get("kind") == "DeclRefExpr" else None
                if name in self.nullflag:
                    return self.nullflag[name]
                raise LeafError("unsupported pointer test")
            if self.is_call(inner[0], "memcmp"):
                return self.memcmp_eq(self.strip_casts(inner[0]))
        if k == "UnaryOperator" and n.get("opcode") == "*":
            s, off = self.ptr_of(inner[0])
            return self.rd(s, off)
        if k == "UnaryOperator" and n.get("opcode") in ("++", "--"):
            raise LeafError("increment inside an expression")
        if k == "ArraySubscriptExpr":
            s, off = self.ptr_of(inner[0])
            e = self.expr(inner[1])
            return self.rd(s, e if off == "0" else "(%s + %s)" % (off, e))
        if k == "CallExpr":
            name = self.callee(n)
            if name == "strlen" and len(inner) == 2:
                s, off = self.ptr_of(inner[1])
                if off != "0":
                    raise LeafError("strlen of an offset pointer")
                return "(Z.of_nat (length %s))" % s
            if name == "isspace" and len(inner) == 2:
                return "(is_space %s)" % self.expr(inner[1])
            if name == "memcmp":
                raise LeafError("memcmp used other than compared with 0")
            raise LeafError("unsupported call of %s" % name)
        if k == "ConditionalOperator" and len(inner) == 3:
            return "(if %s then %s else %s)" % (self.cond(inner[0]), self.expr(inner[1]), self.expr(inner[2]))
        if k == "DeclRefExpr":
            name = n.get("referencedDecl", {}).get("name")
            if name in self.declared:
                raise LeafError("read of the uninitialised local %s" % name)
            if self.is_ptr(n):
                raise LeafError("pointer %s used as a value" % name)
        return Tr.value(self, n)

    def cond_hoist(self, c):
        """condition -> (list of (name, expr) to bind in front, Coq bool).  ++v / v++ / --v / v-- is accepted only as
        a direct operand of the comparison that is the whole condition."""
        n = c
        while n.get("kind") == "ParenExpr":
            n = n["inner"][0]
        if n.get("kind") == "BinaryOperator" and n.get("opcode") in ("<", "<=", ">", ">=", "==", "!="):
            ops = [self.strip_casts(x) for x in n["inner"]]
            for i, o in enumerate(ops):
                if o.get("kind") == "UnaryOperator" and o.get("opcode") in ("++", "--") and \
                        not self.has_side_effect(n["inner"][1 - i]):
                    tgt = self.strip_casts(o["inner"][0])
                    if tgt.get("kind") != "DeclRefExpr":
                        raise LeafError("increment of a non-variable")
                    v = tgt["referencedDecl"]["name"]
                    self.assigned(v)
                    new = self.arith("+" if o["opcode"] == "++" else "-", v, "1", qt(tgt))
                    lets = []
                    if o.get("isPostfix"):
                        lets.append((v + "_old", v))
                        use = v + "_old"
                    else:
                        use = v
                    lets.append((v, new))
                    # the comparison itself, with the operand replaced by the variable holding the value it yields
                    fake = {"kind": "DeclRefExpr", "referencedDecl": {"name": use, "kind": "VarDecl"}, "type": tgt.get("type", {})}
                    wrapped = self.rewrap(n["inner"][i], o, fake)
                    m = dict(n)
                    m["inner"] = [wrapped if j == i else n["inner"][j] for j in (0, 1)]
                    # bindings take effect before the condition is translated
                    return lets, m
        if self.has_side_effect(n):
            raise LeafError("side effect inside a condition")
        return [], n

    def rewrap(self, node, target, repl):
        if node is target:
            return repl
        m = dict(node)
        m["inner"] = [self.rewrap(c, target, repl) if isinstance(c, dict) else c for c in node.get("inner", [])]
        return m

    # ---- statements
    def assigned(self, v):
        if v in self.consts or v in self.subst:
            raise LeafError("assignment to %s" % v)
        if self.phase == "iter" and v != self.state and v in self.bound:
            raise LeafError("the loop assigns more than one variable declared outside it (%s)" % v)
        self.declared.discard(v)
        if self.phase == "pre" and v not in self.bound:
            self.bound.append(v)

    def ret(self, e):
        return "(Some %s)" % e if self.phase == "pre" else "(inr %s)" % e

    def let(self, name, e, body):
        return "(let %s := %s in\n %s)" % (name, e, body)

    def if_stmt(self, cnode, then_s, else_s, rest):
        lets, cn = self.cond_hoist(cnode)
        saved_declared = set(self.declared)

        def build():
            c = self.cond(cn)
            snap = (dict(self.consts), set(self.declared), list(self.bound), dict(self.ptr))
            t = self.blk([then_s] + ([] if self.returns(then_s) else rest))
            self.consts, self.declared, self.bound, self.ptr = dict(snap[0]), set(snap[1]), list(snap[2]), dict(snap[3])
            if else_s is not None:
                e = self.blk([else_s] + ([] if self.returns(else_s) else rest))
            else:
                e = self.blk(rest)
            return "(if %s\n   then %s\n   else %s)" % (c, t, e)
        body = None
        # the bindings are emitted outermost-first; the condition is translated after they are in effect
        out = build()
        for name, ex in reversed(lets):
            out = self.let(name, ex, out)
        return out

    def loop_vars(self, nodes):
        found = []

        def walk(n):
            k = n.get("kind")
            tgt = None
            if k == "UnaryOperator" and n.get("opcode") in ("++", "--"):
                tgt = self.strip_casts(n["inner"][0])
            elif k == "CompoundAssignOperator" or (k == "BinaryOperator" and n.get("opcode") == "="):
                tgt = self.strip_casts(n["inner"][0])
            if tgt is not None and tgt.get("kind") == "DeclRefExpr":
                name = tgt["referencedDecl"]["name"]
                if name not in found:
                    found.append(name)
            for c in n.get("inner", []):
                if isinstance(c, dict):
                    walk(c)
        for n in nodes:
            if n and n.get("kind"):
                walk(n)
        return found

    def locals_of(self, nodes):
        out = set()

        def walk(n):
            if n.get("kind") == "VarDecl":
                out.add(n["name"])
            for c in n.get("inner", []):
                if isinstance(c, dict):
                    walk(c)
        for n in nodes:
            if n and n.get("kind"):
                walk(n)
        return out

    def emit_loop(self, cond, inc, body, rest):
        if self.phase != "pre" or self.iter_def is not None:
            raise LeafError("more than one loop")
        parts = [x for x in (cond, inc, body) if x and x.get("kind")]
        inner_locals = self.locals_of(parts)
        outer = [v for v in self.loop_vars(parts) if v not in inner_locals]
        if len(outer) != 1:
            raise LeafError("the loop assigns %d variables declared outside it (exactly one is supported)" % len(outer))
        self.state = outer[0]
        if self.state not in self.bound:
            raise LeafError("the loop variable %s has no value at the loop head" % self.state)
        consts = [v for v in self.bound if v != self.state]
        self.phase, self.post = "iter", rest
        self.cont = [inc] if inc and inc.get("kind") else []
        snap = (dict(self.consts), set(self.declared), list(self.bound), dict(self.ptr))
        if cond and cond.get("kind"):
            lets, cn = self.cond_hoist(cond)
            c = self.cond(cn)
            b = self.blk([body] + self.cont + [{"kind": "_Continue"}])
            self.consts, self.declared, self.bound, self.ptr = dict(snap[0]), set(snap[1]), list(snap[2]), dict(snap[3])
            # a failed condition leaves the state as the hoisted bindings made it
            po = self.blk(rest)
            e = "(if %s\n   then %s\n   else %s)" % (c, b, po)
            for name, ex in reversed(lets):
                e = self.let(name, ex, e)
        else:
            e = self.blk([body] + self.cont + [{"kind": "_Continue"}])
        self.consts, self.declared, self.bound, self.ptr = dict(snap[0]), set(snap[1]), list(snap[2]), dict(snap[3])
        self.phase = "pre"
        args = " ".join(["(%s : list Z)" % s for s in self.string_order] + ["(%s : Z)" % v for v in consts])
        self.iter_def = "Definition %s_iter %s (%s : Z) : Z + Z :=\n  %s%%Z.\n" % (self.gname, args, self.state, e)
        fuel = "(S (%s))" % " + ".join("length %s" % s for s in self.string_order)
        return "(run_loop %s (%s_iter %s) %s)" % (fuel, self.gname, " ".join(self.string_order + consts), self.state)

    def blk(self, stmts):
        if not stmts:
            raise LeafError("control reaches the end of the function without return")
        s, rest = stmts[0], stmts[1:]
        k = s.get("kind")
        if k == "CompoundStmt":
            return self.blk(list(s.get("inner", [])) + rest)
        if k == "NullStmt":
            return self.blk(rest)
        if k == "_Continue":
            return "(inl %s)" % self.state
        if k == "ReturnStmt":
            if not s.get("inner"):
                raise LeafError("return without a value")
            return self.ret(self.expr(s["inner"][0]))
        if k == "BreakStmt":
            if self.phase != "iter":
                raise LeafError("break outside the loop")
            return self.blk(self.post)
        if k == "ContinueStmt":
            if self.phase != "iter":
                raise LeafError("continue outside the loop")
            return self.blk(self.cont + [{"kind": "_Continue"}])
        if k == "IfStmt":
            inner = s["inner"]
            return self.if_stmt(inner[0], inner[1], inner[2] if len(inner) == 3 else None, rest)
        if k == "WhileStmt":
            return self.emit_loop(s["inner"][0], None, s["inner"][1], rest)
        if k == "ForStmt":
            init, _cv, cond, inc, body = s["inner"]
            pre = [init] if init and init.get("kind") else []
            return self.blk(pre + [{"kind": "_Loop", "cond": cond, "inc": inc, "body": body}] + rest)
        if k == "_Loop":
            return self.emit_loop(s["cond"], s["inc"], s["body"], rest)
        if k == "DoStmt":
            raise LeafError("do-while loop")
        if k == "UnaryOperator" and s.get("opcode") in ("++", "--"):
            tgt = self.strip_casts(s["inner"][0])
            if tgt.get("kind") != "DeclRefExpr":
                raise LeafError("increment of a non-variable")
            v = tgt["referencedDecl"]["name"]
            self.assigned(v)
            e = self.arith("+" if s["opcode"] == "++" else "-", v, "1", qt(tgt))
            return self.let(v, e, self.blk(rest))
        if k == "CompoundAssignOperator":
            lhs, rhs = s["inner"]
            tgt = self.strip_casts(lhs)
            if tgt.get("kind") != "DeclRefExpr" or self.is_ptr(tgt):
                raise LeafError("compound assignment to a non-variable")
            v = tgt["referencedDecl"]["name"]
            r = self.expr(rhs)
            self.assigned(v)
            return self.let(v, self.arith(s["opcode"][:-1], v, r, qt(s)), self.blk(rest))
        if k == "BinaryOperator" and s.get("opcode") == "=":
            lhs, rhs = s["inner"]
            tgt = self.strip_casts(lhs)
            if tgt.get("kind") != "DeclRefExpr":
                raise LeafError("assignment to a non-variable")
            v = tgt["referencedDecl"]["name"]
            if self.is_ptr(tgt):
                if self.phase != "pre":
                    raise LeafError("pointer assignment inside the loop")
                self.ptr[v] = self.ptr_of(rhs)
                return self.blk(rest)
            if self.has_side_effect(rhs):
                raise LeafError("side effect on the right of an assignment")
            e = self.expr(rhs)
            self.assigned(v)
            return self.let(v, e, self.blk(rest))
        if k == "DeclStmt":
            for i, d in enumerate(s["inner"]):
                if d.get("kind") != "VarDecl":
                    raise LeafError("unsupported declaration")
                name = d["name"]
                has_init = bool(d.get("inner")) and any(x.get("kind") for x in d["inner"])
                if qt(d).strip().endswith("*"):
                    if has_init:
                        if self.phase != "pre":
                            raise LeafError("pointer local inside the loop")
                        self.ptr[name] = self.ptr_of(d["inner"][0])
                    continue
                self.check_type(qt(d))
                if not has_init:
                    self.declared.add(name)
                    continue
                if self.has_side_effect(d["inner"][0]):
                    raise LeafError("side effect in an initialiser")
                e = self.expr(d["inner"][0])
                self.declared.discard(name)
                if self.phase == "pre" and name not in self.bound:
                    self.bound.append(name)
                later = [{"kind": "DeclStmt", "inner": s["inner"][i + 1:]}] if s["inner"][i + 1:] else []
                return self.let(name, e, self.blk(later + rest))
            return self.blk(rest)
        raise LeafError("unsupported statement kind %s" % k)


def translate_loop(fdecl, gname):
    """-> Gallina text (G_iter when the function has a loop, and G); see the comment above"""
    tr = LoopTr(gname)
    parms = [c for c in fdecl.get("inner", []) if c.get("kind") == "ParmVarDecl"]
    sig = []
    for p_ in parms:
        if qt(p_).replace(" ", "") == "constchar*":
            tr.strings.add(p_["name"])
            tr.string_order.append(p_["name"])
            tr.nullflag[p_["name"]] = p_["name"] + "_null"
        else:
            tr.check_type(qt(p_))
            tr.bound.append(p_["name"])
    body = None
    for c in fdecl.get("inner", []):
        if c.get("kind") == "CompoundStmt":
            body = c
    if body is None:
        raise LeafError("no body")
    e = tr.blk(list(body.get("inner", [])))
    args = " ".join(["(%s : bool)" % tr.nullflag[s] for s in tr.string_order] +
                    ["(%s : list Z)" % s for s in tr.string_order] +
                    ["(%s : Z)" % p_["name"] for p_ in parms if p_["name"] not in tr.strings])
    out = (tr.iter_def + "\n") if tr.iter_def else ""
    out += "Definition %s %s : option Z :=\n  %s%%Z.\n" % (gname, args, e)
    return out
