"""Small translator for leaf integer functions (DESIGN.md 4.4), used by C20.

clang -Xclang -ast-dump=json -Xclang -ast-dump-filter=<fn> -fsyntax-only  ->  Gallina.

Supported fragment: a function whose parameters and locals are integers;
statements: if (without fall-through of the 'then' part unless it returns),
return, assignment, compound assignment, local declarations with initialiser;
expressions: + - * & | ^ << >> ! && || comparisons, integer and character
literals, casts between integer types, parentheses; for a `const char *` parameter s
(a NUL-terminated string, modelled as `list Z`) also strlen(s) and s[k] with a literal k
(reading the terminator or beyond the list yields 0).  Anything else raises
LeafError (reported by the check as a broken obligation).

Two numeric modes:
  'N' : every value is an unsigned 64-bit quantity held in Coq's N; + - * << wrap
        modulo 2^64 explicitly.  (muggle_next_pow_of_2)
  'Z' : values are Coq Z; arithmetic at (promoted) int is exact (signed overflow is
        undefined in C and excluded), casts to / arithmetic at an unsigned type
        of b bits wrap modulo 2^b.  (muggle_hex_to_byte)
"""
import json
import subprocess


class LeafError(Exception):
    pass


UNSIGNED_BITS = {
    "uint64_t": 64, "unsigned long": 64, "unsigned long long": 64, "size_t": 64,
    "uint32_t": 32, "unsigned int": 32, "uint16_t": 16, "unsigned short": 16,
    "uint8_t": 8, "unsigned char": 8,
}
SIGNED_BITS = {"int": 32, "long": 64, "long long": 64, "int64_t": 64, "int32_t": 32,
               "char": 8, "signed char": 8, "short": 16, "int16_t": 16, "int8_t": 8}


def clang_ast(repo, relpath, fn, include_dirs):
    cmd = ["clang", "-Xclang", "-ast-dump=json", "-Xclang", "-ast-dump-filter=" + fn,
           "-fsyntax-only", "-std=gnu11", "-DNDEBUG", "-w"]
    for d in include_dirs:
        cmd += ["-I", d]
    cmd.append(relpath)
    p = subprocess.run(cmd, cwd=repo, stdout=subprocess.PIPE, stderr=subprocess.PIPE, text=True, timeout=120)
    if p.returncode != 0:
        raise LeafError("clang failed: " + p.stderr[-400:])
    dec, i, objs, txt = json.JSONDecoder(), 0, [], p.stdout
    while i < len(txt):
        while i < len(txt) and txt[i].isspace():
            i += 1
        if i >= len(txt):
            break
        o, i = dec.raw_decode(txt, i)
        objs.append(o)
    for o in objs:
        if o.get("kind") == "FunctionDecl" and o.get("name") == fn and \
                any(c.get("kind") == "CompoundStmt" for c in o.get("inner", [])):
            return o
    raise LeafError("no definition of %s found in %s" % (fn, relpath))


def qt(n):
    t = n.get("type", {})
    return t.get("desugaredQualType") or t.get("qualType") or ""


class Tr:
    def __init__(self, mode):
        self.mode = mode
        self.S = "N" if mode == "N" else "Z"
        self.strings = set()
        self.scan = None      # (string name, index variable, Coq name of the scanned character)

    # ---- types
    def ubits(self, t):
        t = t.replace("const ", "").strip()
        return UNSIGNED_BITS.get(t)

    def check_type(self, t):
        t = t.replace("const ", "").strip()
        if t in UNSIGNED_BITS or t in SIGNED_BITS:
            if self.mode == "N" and t in UNSIGNED_BITS and UNSIGNED_BITS[t] != 64:
                raise LeafError("N mode supports only 64-bit unsigned, got " + t)
            return
        raise LeafError("unsupported type " + t)

    def wrap(self, e, t):
        b = self.ubits(t)
        if b is None:
            if self.mode == "N":
                raise LeafError("signed arithmetic in N mode (%s)" % t)
            return e
        return "((%s) mod %d)" % (e, 1 << b)

    # ---- expressions
    def expr(self, n):
        k = n.get("kind")
        inner = n.get("inner", [])
        if k in ("ParenExpr", "ConstantExpr"):
            return self.expr(inner[0])
        if k == "ImplicitCastExpr" or k == "CStyleCastExpr":
            ck = n.get("castKind")
            if ck in ("LValueToRValue", "NoOp"):
                return self.expr(inner[0])
            if ck == "IntegralCast":
                src, dst = inner[0], qt(n)
                self.check_type(dst)
                e = self.expr(src)
                if src.get("kind") in ("IntegerLiteral", "CharacterLiteral") and self.lit_fits(src, dst):
                    return e
                if self.mode == "N":
                    # only widening of already-unsigned-64 values or literals is accepted
                    if self.ubits(dst) == 64 and (self.ubits(qt(src)) == 64):
                        return e
                    raise LeafError("cast %s -> %s in N mode" % (qt(src), dst))
                if self.ubits(dst) is not None:
                    return self.wrap(e, dst)
                return e   # to a signed type: value assumed representable (checked by the differential run)
            raise LeafError("unsupported cast kind %s" % ck)
        if k == "IntegerLiteral":
            v = int(n["value"])
            if v < 0 and self.mode == "N":
                raise LeafError("negative literal in N mode")
            return str(v) if v >= 0 else "(%d)" % v
        if k == "CharacterLiteral":
            return str(int(n["value"]))
        if k == "DeclRefExpr":
            d = n.get("referencedDecl", {})
            if d.get("kind") not in ("ParmVarDecl", "VarDecl"):
                raise LeafError("reference to %s" % d.get("kind"))
            return d["name"]
        if k == "UnaryOperator":
            op, a = n["opcode"], self.expr(inner[0])
            if op == "!":
                return "(%s =? 0)" % self.as_int(inner[0])
            if op == "-" and self.mode == "Z":
                return self.wrap("(- %s)" % a, qt(n))
            if op == "+":
                return a
            if op == "~" and self.mode == "Z" and self.ubits(qt(n)) is None:
                return "(Z.lnot %s)" % a
            raise LeafError("unsupported unary %s" % op)
        if k == "BinaryOperator":
            op = n["opcode"]
            if op in ("&&", "||"):
                a, b = self.cond(inner[0]), self.cond(inner[1])
                return "(%s %s %s)" % (a, op, b)
            if op in ("<", "<=", ">", ">=", "==", "!="):
                a, b = self.expr(inner[0]), self.expr(inner[1])
                m = {"<": "<?", "<=": "<=?", "==": "=?"}
                if op in m:
                    return "(%s %s %s)" % (a, m[op], b)
                if op == ">":
                    return "(%s <? %s)" % (b, a)
                if op == ">=":
                    return "(%s <=? %s)" % (b, a)
                return "(negb (%s =? %s))" % (a, b)
            return self.arith(op, self.expr(inner[0]), self.expr(inner[1]), qt(n))
        if k == "CallExpr" and self.mode == "Z":
            callee = self.strip_casts(inner[0])
            if callee.get("kind") == "DeclRefExpr" and callee.get("referencedDecl", {}).get("name") == "strlen" \
                    and len(inner) == 2:
                return "(Z.of_nat (length %s))" % self.string_ref(inner[1])
            raise LeafError("unsupported call")
        if k == "ArraySubscriptExpr" and self.mode == "Z":
            idx = self.strip_casts(inner[1])
            if self.scan and idx.get("kind") == "DeclRefExpr" and \
                    idx.get("referencedDecl", {}).get("name") == self.scan[1] and \
                    self.string_ref(inner[0]) == self.scan[0]:
                return self.scan[2]
            if idx.get("kind") != "IntegerLiteral" or int(idx["value"]) < 0:
                raise LeafError("array index is not a non-negative literal")
            return "(nth %d%%nat %s 0)" % (int(idx["value"]), self.string_ref(inner[0]))
        raise LeafError("unsupported expression kind %s" % k)

    def strip_casts(self, n):
        while n.get("kind") in ("ImplicitCastExpr", "ParenExpr") and n.get("inner"):
            n = n["inner"][0]
        return n

    def string_ref(self, n):
        n = self.strip_casts(n)
        if n.get("kind") == "DeclRefExpr" and n.get("referencedDecl", {}).get("name") in self.strings:
            return n["referencedDecl"]["name"]
        raise LeafError("expected a string parameter")

    def lit_fits(self, lit, dst):
        v = int(lit["value"])
        b = self.ubits(dst)
        if b is not None:
            return 0 <= v < (1 << b)
        return True

    def arith(self, op, a, b, t):
        S = self.S
        self.check_type(t)
        ub = self.ubits(t)
        W = (1 << ub) if ub else None
        if op == "|":
            return "(%s.lor %s %s)" % (S, a, b)
        if op == "&":
            return "(%s.land %s %s)" % (S, a, b)
        if op == "^":
            return "(%s.lxor %s %s)" % (S, a, b)
        if op == ">>":
            return "(%s.shiftr %s %s)" % (S, a, b)
        if op == "<<":
            return self.wrap("%s.shiftl %s %s" % (S, a, b), t)
        if op == "+":
            return self.wrap("%s + %s" % (a, b), t)
        if op == "*":
            return self.wrap("%s * %s" % (a, b), t)
        if op == "-":
            if W is not None:
                return "((%s + %d - %s) mod %d)" % (a, W, b, W)
            if self.mode == "N":
                raise LeafError("signed subtraction in N mode")
            return "(%s - %s)" % (a, b)
        raise LeafError("unsupported operator %s" % op)

    def is_boolean(self, n):
        k = n.get("kind")
        if k in ("ParenExpr", "ImplicitCastExpr") and n.get("castKind") in (None, "LValueToRValue", "NoOp", "IntegralCast"):
            return self.is_boolean(n["inner"][0])
        if k == "UnaryOperator" and n["opcode"] == "!":
            return True
        if k == "BinaryOperator" and n["opcode"] in ("&&", "||", "<", "<=", ">", ">=", "==", "!="):
            return True
        return False

    def as_int(self, n):
        """expression used as an integer operand of '!' """
        if self.is_boolean(n):
            return "(if %s then 1 else 0)" % self.cond(n)
        return self.expr(n)

    def cond(self, n):
        """expression in a boolean context -> Coq bool"""
        if self.is_boolean(n):
            k = n.get("kind")
            if k in ("ParenExpr", "ImplicitCastExpr"):
                return self.cond(n["inner"][0])
            return self.expr(n)
        return "(negb (%s =? 0))" % self.expr(n)

    # ---- statements (continuation style)
    def returns(self, n):
        k = n.get("kind")
        if k == "ReturnStmt":
            return True
        if k == "CompoundStmt":
            inner = n.get("inner", [])
            return bool(inner) and self.returns(inner[-1])
        if k == "IfStmt":
            inner = n["inner"]
            return len(inner) == 3 and self.returns(inner[1]) and self.returns(inner[2])
        return False

    def block(self, stmts):
        if not stmts:
            raise LeafError("control reaches the end of the function without return")
        s, rest = stmts[0], stmts[1:]
        k = s.get("kind")
        if k == "CompoundStmt":
            return self.block(list(s.get("inner", [])) + rest)
        if k == "ReturnStmt":
            return self.expr(s["inner"][0])
        if k == "IfStmt":
            inner = s["inner"]
            c = self.cond(inner[0])
            if len(inner) == 3:
                t = self.block([inner[1]] + ([] if self.returns(inner[1]) else rest))
                e = self.block([inner[2]] + ([] if self.returns(inner[2]) else rest))
                return "(if %s\n   then %s\n   else %s)" % (c, t, e)
            if not self.returns(inner[1]):
                raise LeafError("if without else whose body does not return")
            return "(if %s\n   then %s\n   else %s)" % (c, self.block([inner[1]]), self.block(rest))
        if k == "CompoundAssignOperator":
            lhs, rhs = s["inner"]
            if lhs.get("kind") != "DeclRefExpr":
                raise LeafError("assignment to a non-variable")
            name = lhs["referencedDecl"]["name"]
            op = s["opcode"][:-1]
            if self.ubits(qt(lhs)) != self.ubits(qt(s)) or self.ubits(qt(lhs)) is None and self.mode == "N":
                raise LeafError("compound assignment with a type change")
            e = self.arith(op, name, self.expr(rhs), qt(s))
            return "(let %s := %s in\n %s)" % (name, e, self.block(rest))
        if k == "BinaryOperator" and s.get("opcode") == "=":
            lhs, rhs = s["inner"]
            if lhs.get("kind") != "DeclRefExpr":
                raise LeafError("assignment to a non-variable")
            return "(let %s := %s in\n %s)" % (lhs["referencedDecl"]["name"], self.expr(rhs), self.block(rest))
        if k == "DeclStmt":
            out = None
            names = []
            for d in s["inner"]:
                if d.get("kind") != "VarDecl" or not d.get("inner"):
                    raise LeafError("declaration without initialiser")
                self.check_type(qt(d))
                names.append((d["name"], self.expr(d["inner"][0])))
            body = self.block(rest)
            for name, e in reversed(names):
                body = "(let %s := %s in\n %s)" % (name, e, body)
            return body
        if k == "NullStmt":
            return self.block(rest)
        raise LeafError("unsupported statement kind %s" % k)


def translate(fdecl, gname, mode):
    tr = Tr(mode)
    params, body = [], None
    for c in fdecl.get("inner", []):
        if c.get("kind") == "ParmVarDecl":
            if qt(c).replace(" ", "") == "constchar*" and mode == "Z":
                tr.strings.add(c["name"])
                params.append((c["name"], "list Z"))
                continue
            tr.check_type(qt(c))
            params.append((c["name"], tr.S))
        elif c.get("kind") == "CompoundStmt":
            body = c
    if body is None:
        raise LeafError("no body")
    rt = fdecl["type"]["qualType"].split("(")[0].strip()
    tr.check_type(rt)
    e = tr.block(list(body.get("inner", [])))
    S = tr.S
    return "Definition %s %s : %s :=\n  %s%%%s.\n" % (
        gname, " ".join("(%s : %s)" % (p, t) for p, t in params), S, e, S)


def translate_scan_down(fdecl, gname):
    """Recognises, among the top-level statements of the function, the descending scan

        int L = (int)strlen(S);  ...  int P = L - 1;
        while (P >= 0) { if (C) { break; } --P; }

    for a `const char *` parameter S, where C mentions only S[P] and literals, and returns
    `Definition gname (c : Z) : bool := C[S[P] := c]`.  Meaning of the recognised loop (part of the
    trusted translator): afterwards P is the index of the LAST character of S satisfying C, -1 if
    there is none.  Any other shape (another loop, strrchr, an ascending scan ...) raises LeafError."""
    tr = Tr("Z")
    body = None
    for c in fdecl.get("inner", []):
        if c.get("kind") == "ParmVarDecl" and qt(c).replace(" ", "") == "constchar*":
            tr.strings.add(c["name"])
        elif c.get("kind") == "CompoundStmt":
            body = c
    if body is None:
        raise LeafError("no body")
    stmts = body.get("inner", [])

    def var_decl(st):
        if st.get("kind") == "DeclStmt" and len(st.get("inner", [])) == 1 and st["inner"][0].get("kind") == "VarDecl" \
                and st["inner"][0].get("inner"):
            return st["inner"][0]
        return None

    def ref_name(n):
        n = tr.strip_casts(n)
        return n.get("referencedDecl", {}).get("name") if n.get("kind") == "DeclRefExpr" else None

    lens = {}      # int variable -> string whose strlen it holds
    for st in stmts:
        d = var_decl(st)
        if d is None:
            continue
        init = d["inner"][0]
        while init.get("kind") in ("CStyleCastExpr", "ImplicitCastExpr", "ParenExpr"):
            init = init["inner"][0]
        if init.get("kind") == "CallExpr" and ref_name(init["inner"][0]) == "strlen" and len(init["inner"]) == 2:
            sname = ref_name(init["inner"][1])
            if sname in tr.strings:
                lens[d["name"]] = sname
    for i in range(len(stmts) - 1):
        d, w = var_decl(stmts[i]), stmts[i + 1]
        if d is None or w.get("kind") != "WhileStmt":
            continue
        init = tr.strip_casts(d["inner"][0])
        if not (init.get("kind") == "BinaryOperator" and init.get("opcode") == "-"
                and ref_name(init["inner"][0]) in lens
                and tr.strip_casts(init["inner"][1]).get("kind") == "IntegerLiteral"
                and int(tr.strip_casts(init["inner"][1])["value"]) == 1):
            continue
        P, S = d["name"], lens[ref_name(init["inner"][0])]
        cond, wbody = w["inner"][0], w["inner"][1]
        c0 = tr.strip_casts(cond)
        if not (c0.get("kind") == "BinaryOperator" and c0.get("opcode") == ">=" and ref_name(c0["inner"][0]) == P
                and tr.strip_casts(c0["inner"][1]).get("kind") == "IntegerLiteral"
                and int(tr.strip_casts(c0["inner"][1])["value"]) == 0):
            raise LeafError("scan loop condition is not `%s >= 0`" % P)
        bs = wbody.get("inner", []) if wbody.get("kind") == "CompoundStmt" else [wbody]
        if len(bs) != 2 or bs[0].get("kind") != "IfStmt" or len(bs[0]["inner"]) != 2:
            raise LeafError("scan loop body is not `if (C) break; --%s;`" % P)
        then = bs[0]["inner"][1]
        tb = then.get("inner", []) if then.get("kind") == "CompoundStmt" else [then]
        if len(tb) != 1 or tb[0].get("kind") != "BreakStmt":
            raise LeafError("scan loop: the branch does not just break")
        dec = bs[1]
        if not (dec.get("kind") == "UnaryOperator" and dec.get("opcode") == "--" and ref_name(dec["inner"][0]) == P):
            raise LeafError("scan loop: index is not decremented by one")
        tr.scan = (S, P, "c")
        e = tr.cond(bs[0]["inner"][0])
        return "Definition %s (c : Z) : bool :=\n  %s%%Z.\n" % (gname, e)
    raise LeafError("no descending separator scan found")
