"""C10 - slicer for heap.c / sort.c (second, translator tie; DESIGN.md 4.4).

Every function is cut at its LOOP HEADS and LOOP EXITS into loop-free segments:
    pre        function entry            -> first cut / return
    <L>.step   head of loop L            -> head of a loop (L again = next iteration, or a nested one),
                                            exit of a loop, or return          (ONE ITERATION of L)
    <L>.post   exit of loop L            -> next cut / return
Each segment is executed symbolically over an abstract state (two arrays as functions Z -> Z, the
integer locals, the struct fields) and emitted as a Gallina function returning a decision tree of
[mkres tag A B vals events] leaves.  Nothing depends on the SHAPE of the C text:
  * for / while / do, break / continue, guard clauses vs if-else, ++ inside subscripts, comma
    operators, compound assignment are all executed, not pattern-matched;
  * calls of same-file helpers are inlined (continuation-passing: early returns, pointer parameters
    into the arrays, several statements);
  * calls of the listed library functions are EVENTS (id, integer arguments) with their footprint
    havocked into oracle inputs; the comparator callback is the abstract [cmp : Z -> Z -> Z];
  * pointer locals into an array are (array, index); a local whose value at every arrival at a loop
    head is the same expression of the other loop variables is replaced by that expression;
  * inputs are ordered by first occurrence in the emitted term (names never matter).
Anything unsupported raises LeafError -> comment in Params_C10.v -> broken obligation."""
import json
import re
import subprocess
import leaftrans as L

LeafError = L.LeafError

OPAQUE = {"muggle_heap_ensure_capacity": 1, "muggle_insertion_sort": 2, "muggle_quick_sort_recursive": 3,
          "muggle_merge_sort_recursive": 4, "muggle_heap_insert": 5, "muggle_heap_extract": 6, "muggle_heap_init": 7,
          "muggle_heap_destroy": 8, "muggle_heap_sort": 9, "muggle_heap_clear": 10, "muggle_shell_sort": 11,
          "muggle_merge_sort": 12, "muggle_quick_sort": 13, "malloc": 20}
LOOPS = ("ForStmt", "WhileStmt", "DoStmt")
HEAP_FIELDS = ("capacity", "size")


def load_file(src, cflags):
    cmd = ["clang", "-fsyntax-only", "-w"] + list(cflags) + ["-Xclang", "-ast-dump=json", "-Xclang",
                                                           "-ast-dump-filter=muggle_", src]
    p = subprocess.run(cmd, stdout=subprocess.PIPE, stderr=subprocess.PIPE, text=True, timeout=180)
    txt, dec, i, out = p.stdout, json.JSONDecoder(), 0, {}
    while i < len(txt):
        while i < len(txt) and txt[i].isspace():
            i += 1
        if i >= len(txt):
            break
        obj, i = dec.raw_decode(txt, i)
        if obj.get("kind") == "FunctionDecl" and any(c.get("kind") == "CompoundStmt" for c in obj.get("inner", [])):
            out[obj["name"]] = obj
    if not out:
        raise LeafError("no function body found in %s (%s)" % (src, p.stderr[-300:]))
    return out


def qt(n):
    return n.get("type", {}).get("qualType", "")


def dqt(n):
    t = n.get("type", {})
    return t.get("desugaredQualType") or t.get("qualType", "")


def tclass(q, dq=None):
    """classify a C type string"""
    q = q.replace("const ", "").replace("volatile ", "").strip()
    dq = (dq or q).replace("const ", "").strip()
    if "(*)" in dq or "(*)" in q:
        return "fn"
    if q in ("muggle_heap_t *", "struct muggle_heap *"):
        return "heapp"
    if q in ("muggle_heap_node_t *", "struct muggle_heap_node *"):
        return "nodep"
    if q in ("muggle_heap_t", "struct muggle_heap"):
        return "heap"
    if q in ("muggle_heap_node_t", "struct muggle_heap_node"):
        return "node"
    if q == "void **":
        return "slotp"
    if q == "void *":
        return "elem"
    if q in L.INT_TYPES or dq in L.INT_TYPES:
        return "int"
    if q.endswith("*"):
        return "ptr"
    return "other"


class Ptr:
    def __init__(self, kind, reg=None, idx="0", nullsym=None, role=None):
        self.kind, self.reg, self.idx, self.nullsym, self.role = kind, reg, idx, nullsym, role

    def key(self):
        return (self.kind, self.reg, self.role)


def zadd(a, b):
    if a == "0":
        return b
    if b == "0":
        return a
    return "(%s + %s)" % (a, b)


class St:
    def __init__(self):
        self.vars, self.flds, self.arrs, self.evs, self.tmp, self.frames = {}, {}, {}, [], {}, []
        self.pending, self.nlet, self.snaps = [], 0, []

    def clone(self):
        s = St()
        s.vars, s.flds, s.arrs = dict(self.vars), dict(self.flds), dict(self.arrs)
        s.evs, s.tmp = list(self.evs), dict(self.tmp)
        s.frames = [(dict(v), kk) for v, kk in self.frames]      # a helper may write a caller's local through a pointer
        s.pending, s.nlet, s.snaps = list(self.pending), self.nlet, list(self.snaps)
        return s


class Leaf:
    def __init__(self, kind, loop, st, ret=None):
        self.kind, self.loop, self.st, self.ret = kind, loop, st, ret


def skip(n):
    while n.get("kind") in ("ParenExpr", "ConstantExpr"):
        n = n["inner"][0]
    return n


def has_loop(n):
    if not isinstance(n, dict) or not n:
        return False
    if n.get("kind") in LOOPS:
        return True
    return any(has_loop(c) for c in n.get("inner", []))


def inline_loop_helpers(body, funcs, self_name, depth=0, counter=None):
    """a same-file helper that CONTAINS A LOOP and is called as a whole statement (f(..); / x = f(..); / T x = f(..);)
    is spliced into the caller before the loops are indexed, so that the cuts fall at loop heads AFTER inlining:
    parameters become locals initialised with the arguments, the helper's names are renamed apart, its single
    final `return e` becomes the assignment / initialisation of the target"""
    import copy
    counter = counter if counter is not None else [0]

    def call_of(e):
        e = skip(e) if e else e
        while e and e.get("kind") in ("ImplicitCastExpr", "CStyleCastExpr") and e.get("castKind") in ("NoOp", "BitCast", "IntegralCast"):
            e = skip(e["inner"][-1])
        if e and e.get("kind") == "CallExpr":
            c = L.strip_ptr(e["inner"][0])
            if c.get("kind") == "DeclRefExpr" and c["referencedDecl"].get("kind") == "FunctionDecl":
                nm = c["referencedDecl"]["name"]
                if nm in funcs and nm not in OPAQUE and nm != self_name:
                    fb = [x for x in funcs[nm]["inner"] if x.get("kind") == "CompoundStmt"][0]
                    if has_loop(fb):
                        return e, nm
        return None, None

    def splice(call, nm, finish):
        if depth > 3:
            raise LeafError("helper nesting too deep at " + nm)
        fd = funcs[nm]
        parms = [c for c in fd.get("inner", []) if c.get("kind") == "ParmVarDecl"]
        fb = copy.deepcopy([x for x in fd["inner"] if x.get("kind") == "CompoundStmt"][0])
        stmts = list(fb.get("inner", []))
        ret = None
        if stmts and stmts[-1].get("kind") == "ReturnStmt":
            ret = stmts.pop()

        def any_return(n):
            if not isinstance(n, dict) or not n:
                return False
            return n.get("kind") == "ReturnStmt" or any(any_return(c) for c in n.get("inner", []))
        if any(any_return(x) for x in stmts):
            raise LeafError("helper %s contains a loop and returns from inside it" % nm)
        counter[0] += 1
        suf = "__%d" % counter[0]
        names = set(p_["name"] for p_ in parms)

        def decls(n):
            if isinstance(n, dict) and n:
                if n.get("kind") == "VarDecl":
                    names.add(n["name"])
                for c in n.get("inner", []):
                    decls(c)
        for x in stmts:
            decls(x)

        def rename(n):
            if isinstance(n, dict) and n:
                if n.get("kind") == "VarDecl" and n.get("name") in names:
                    n["name"] = n["name"] + suf
                if n.get("kind") == "DeclRefExpr" and n["referencedDecl"].get("kind") in ("VarDecl", "ParmVarDecl") and \
                        n["referencedDecl"].get("name") in names:
                    n["referencedDecl"] = dict(n["referencedDecl"], name=n["referencedDecl"]["name"] + suf)
                for c in n.get("inner", []):
                    rename(c)
        for x in stmts:
            rename(x)
        if ret is not None:
            rename(ret)
        args = call["inner"][1:]
        if len(args) != len(parms):
            raise LeafError("argument count mismatch calling " + nm)
        pre = [{"kind": "DeclStmt", "inner": [{"kind": "VarDecl", "name": p_["name"] + suf, "type": p_["type"], "inner": [a]}]}
               for p_, a in zip(parms, args)]
        inner = inline_loop_helpers({"kind": "CompoundStmt", "inner": stmts}, funcs, nm, depth + 1, counter)["inner"]
        tail = finish(ret["inner"][0]) if (ret is not None and ret.get("inner")) else []
        return {"kind": "CompoundStmt", "inner": pre + inner + tail}

    def walk(n):
        if not isinstance(n, dict) or not n:
            return n
        k = n.get("kind")
        if k == "CompoundStmt":
            n = dict(n, inner=[walk_stmt(c) for c in n.get("inner", [])])
        elif k == "IfStmt":
            n = dict(n, inner=[n["inner"][0]] + [walk_stmt(c) for c in n["inner"][1:]])
        elif k in LOOPS:
            inner = list(n["inner"])
            bi = 0 if k == "DoStmt" else len(inner) - 1
            inner[bi] = walk_stmt(inner[bi])
            n = dict(n, inner=inner)
        return n

    def walk_stmt(s_):
        if not isinstance(s_, dict) or not s_:
            return s_
        k = s_.get("kind")
        if k == "DeclStmt" and len(s_.get("inner", [])) == 1 and s_["inner"][0].get("kind") == "VarDecl" and s_["inner"][0].get("inner"):
            d = s_["inner"][0]
            call, nm = call_of(d["inner"][-1])
            if call is not None:
                return splice(call, nm, lambda e: [{"kind": "DeclStmt", "inner": [dict(d, inner=[e])]}])
        if k == "CallExpr":
            call, nm = call_of(s_)
            if call is not None:
                return splice(call, nm, lambda e: [])
        if k == "BinaryOperator" and s_.get("opcode") == "=":
            call, nm = call_of(s_["inner"][1])
            if call is not None:
                return splice(call, nm, lambda e: [dict(s_, inner=[s_["inner"][0], e])])
        return walk(s_)
    return walk(body)


class Exec:
    """symbolic executor for one function"""

    def __init__(self, funcs, fname, roles):
        if fname not in funcs:
            raise LeafError("function %s not found" % fname)
        self.funcs, self.fname, self.fn = funcs, fname, funcs[fname]
        self.roles = roles                  # pointer parameter name -> 'in' (into the node array) | 'out'
        self.body = [c for c in self.fn["inner"] if c.get("kind") == "CompoundStmt"][0]
        self.body = inline_loop_helpers(self.body, funcs, fname)
        self.params = [c for c in self.fn.get("inner", []) if c.get("kind") == "ParmVarDecl"]
        self.parent, self.loops, self.sites = {}, [], {}
        self._index(self.body, None, 0, None)
        self._number_sites(self.body)

    # ---- static structure
    def _index(self, n, par, idx, loop):
        self.parent[id(n)] = (par, idx, loop)
        k = n.get("kind")
        if k in LOOPS:
            self.loops.append(n)
            n["_outer"] = loop
            body = n["inner"][-1] if k != "DoStmt" else n["inner"][0]
            if k == "ForStmt" and n["inner"][0]:
                self.parent[id(n["inner"][0])] = (n, -1, loop)
            self._index(body, n, 0, n)
        elif k == "CompoundStmt":
            for i, c in enumerate(n.get("inner", [])):
                self._index(c, n, i, loop)
        elif k == "IfStmt":
            for i, c in enumerate(n["inner"][1:]):
                self._index(c, n, i + 1, loop)
        elif k == "SwitchStmt":
            raise LeafError("switch statement")

    def _number_sites(self, n):
        if isinstance(n, dict):
            if n.get("kind") == "CallExpr":
                self.sites[id(n)] = len(self.sites) + 1
            for c in n.get("inner", []):
                self._number_sites(c)

    def subtree_has(self, n, pred):
        if not isinstance(n, dict) or not n:
            return False
        if pred(n):
            return True
        return any(self.subtree_has(c, pred) for c in n.get("inner", []))

    def is_cmp_call(self, n):
        if n.get("kind") != "CallExpr":
            return False
        c = n["inner"][0]
        return "int (*)(const void *, const void *)" in dqt(c)

    def callee_name(self, n):
        c = L.strip_ptr(n["inner"][0])
        if c.get("kind") == "DeclRefExpr" and c["referencedDecl"].get("kind") == "FunctionDecl":
            return c["referencedDecl"]["name"]
        return None

    def assigned_in(self, root):
        """(variable names, heap fields) syntactically assigned under root (calls that get the heap: all fields)"""
        vs, fs = set(), set()

        def target(l):
            l = skip(l)
            if l.get("kind") == "DeclRefExpr":
                vs.add(l["referencedDecl"]["name"])
            elif l.get("kind") == "MemberExpr":
                b = L.strip_ptr(l["inner"][0])
                if tclass(qt(b)) == "heapp":
                    fs.add(l["name"])
                elif b.get("kind") == "DeclRefExpr" and tclass(qt(b)) in ("nodep",) and \
                        self.roles.get(b["referencedDecl"]["name"]) == "out":
                    fs.add("out." + l["name"])

        def walk(n):
            if not isinstance(n, dict) or not n:
                return
            k = n.get("kind")
            if k in ("BinaryOperator", "CompoundAssignOperator") and n.get("opcode", "").endswith("=") and \
                    n["opcode"] not in ("==", "!=", "<=", ">="):
                target(n["inner"][0])
            if k == "UnaryOperator" and n.get("opcode") in ("++", "--"):
                target(n["inner"][0])
            if k == "VarDecl" and n.get("inner"):
                vs.add(n["name"])
            if k == "CallExpr":
                nm = self.callee_name(n)
                if nm in OPAQUE or nm == "memset":
                    for a in n["inner"][1:]:
                        if tclass(qt(a)) == "heapp":
                            fs.update(HEAP_FIELDS)
                elif nm in self.funcs:
                    for a in n["inner"][1:]:
                        a = skip(a)
                        if a.get("kind") == "UnaryOperator" and a.get("opcode") == "&":
                            target(a["inner"][0])
                    walk([c for c in self.funcs[nm]["inner"] if c.get("kind") == "CompoundStmt"][0])
            for c in n.get("inner", []):
                walk(c)
        walk(root)
        return vs, fs

    # ---- values
    def ztext(self, v):
        if v is None:
            raise LeafError("void value used")
        if isinstance(v, Ptr):
            if v.kind == "null":
                return "0"
            raise LeafError("pointer used as an integer")
        if v[0] == "B" and v[1] in ("true", "false"):
            return "1" if v[1] == "true" else "0"
        return v[1] if v[0] == "Z" else "(b2z %s)" % v[1]

    def btext(self, v):
        if isinstance(v, Ptr):
            return self.nonnull(v)
        return v[1] if v[0] == "B" else "(negb (%s =? 0))" % v[1]

    def nonnull(self, p):
        if p.kind == "null":
            return "false"
        if p.nullsym:
            return "(negb (%s =? 0))" % p.nullsym
        return "true"

    def wrap(self, n, e):
        ty = L.ctype(n)
        if ty is None:
            raise LeafError("non-integer arithmetic")
        if not ty[0]:
            return ("Z", "(wrapu %d %s)" % (ty[1], e))
        return ("Z", e)

    # ---- locations
    def lv(self, n, st):
        n = skip(n)
        k = n.get("kind")
        if k == "DeclRefExpr":
            return ("var", n["referencedDecl"]["name"])
        if k == "MemberExpr":
            f = n["name"]
            if n.get("isArrow"):
                p = self.ev(n["inner"][0], st)
                if not isinstance(p, Ptr):
                    raise LeafError("-> on a non-pointer")
                if p.kind == "null":
                    raise LeafError("dereference of NULL")
                if p.kind in ("heap", "lheap", "out", "lnode"):
                    return ("fld", p.kind if p.kind in ("heap", "out") else p.kind + ":" + str(p.reg), f)
                if p.kind == "node":
                    return ("arr", p.reg + "." + f, p.idx)
                raise LeafError("-> on pointer kind " + p.kind)
            b = self.lv(n["inner"][0], st)
            if b[0] == "node":
                return ("arr", b[1] + "." + f, b[2])
            if b[0] == "var":
                v = st.vars.get(b[1])
                if isinstance(v, Ptr) and v.kind in ("lheapv", "lnodev"):
                    return ("fld", v.kind[:-1] + ":" + b[1], f)
            raise LeafError("unsupported member access ." + f)
        if k == "ArraySubscriptExpr":
            p = self.ev(n["inner"][0], st)
            i = self.ztext(self.ev(n["inner"][1], st))
            if not isinstance(p, Ptr) or p.kind not in ("slot", "node"):
                raise LeafError("subscript of a non-array pointer")
            return ("arr" if p.kind == "slot" else "node", p.reg, zadd(p.idx, i))
        if k == "UnaryOperator" and n.get("opcode") == "*":
            p = self.ev(n["inner"][0], st)
            if isinstance(p, Ptr) and p.kind == "lvar":
                return ("fvar", p.reg, p.idx)
            if not isinstance(p, Ptr) or p.kind not in ("slot", "node"):
                raise LeafError("dereference of a non-array pointer")
            return ("arr" if p.kind == "slot" else "node", p.reg, p.idx)
        raise LeafError("unsupported lvalue " + str(k))

    @staticmethod
    def frame_vars(st, depth):
        return st.vars if depth == len(st.frames) else st.frames[depth][0]

    def load(self, loc, st):
        if loc[0] == "fvar":
            fv = self.frame_vars(st, loc[2])
            if loc[1] not in fv:
                raise LeafError("unknown variable " + loc[1])
            return fv[loc[1]]
        if loc[0] == "var":
            if loc[1] not in st.vars:
                raise LeafError("unknown variable " + loc[1])
            return st.vars[loc[1]]
        if loc[0] == "fld":
            if (loc[1], loc[2]) not in st.flds:
                raise LeafError("unknown field %s.%s" % (loc[1], loc[2]))
            return st.flds[(loc[1], loc[2])]
        if loc[0] == "arr":
            if loc[1] not in st.arrs:
                raise LeafError("unknown array " + loc[1])
            return ("Z", "(%s %s)" % (st.arrs[loc[1]], loc[2]))
        raise LeafError("whole-struct read")

    def store(self, loc, v, st):
        if loc[0] == "fvar":
            self.frame_vars(st, loc[2])[loc[1]] = v
        elif loc[0] == "var":
            st.vars[loc[1]] = v
        elif loc[0] == "fld":
            st.flds[(loc[1], loc[2])] = v
        elif loc[0] == "arr":
            if loc[1] not in st.arrs:
                raise LeafError("unknown array " + loc[1])
            st.nlet += 1
            nm = "w%d" % st.nlet
            st.pending.append((nm, "(aset %s %s %s)" % (st.arrs[loc[1]], loc[2], self.ztext(v))))
            st.arrs[loc[1]] = nm
        else:
            raise LeafError("whole-struct write")

    # ---- expressions (direct style; inlinable calls were hoisted into st.tmp by with_calls)
    def ev(self, n, st):
        k = n.get("kind")
        if k in ("ParenExpr", "ConstantExpr"):
            return self.ev(n["inner"][0], st)
        if k in ("ImplicitCastExpr", "CStyleCastExpr"):
            ck, inner = n.get("castKind"), n["inner"][-1]
            if ck == "LValueToRValue":
                return self.load(self.lv(inner, st), st)
            if ck in ("NoOp", "ArrayToPointerDecay", "FunctionToPointerDecay"):
                return self.ev(inner, st)
            if ck == "BitCast":
                v = self.ev(inner, st)
                if isinstance(v, Ptr) and v.kind == "raw":
                    tc = tclass(qt(n))
                    kind = {"nodep": "node", "slotp": "slot"}.get(tc)
                    if kind is None:
                        return v
                    return Ptr(kind, v.reg, "0", v.nullsym)
                return v
            if ck == "NullToPointer":
                return ("Z", "0") if tclass(qt(n)) == "elem" else Ptr("null")
            if ck == "ToVoid":
                self.ev(inner, st)
                return None
            if ck in ("IntegralToBoolean", "PointerToBoolean"):
                return ("B", self.simp_bool(self.btext(self.ev(inner, st))))
            if ck in ("IntegralCast", "BooleanToSignedIntegral"):
                e = self.ztext(self.ev(inner, st))
                ty, src = L.ctype(n), L.ctype(inner)
                if ty is None:
                    raise LeafError("cast to non-integer")
                if ty[1] == 1:
                    return ("B", "(negb (%s =? 0))" % e)
                if not ty[0] and not (src and not src[0] and src[1] <= ty[1]) and not re.fullmatch(r"\d+", e):
                    return ("Z", "(wrapu %d %s)" % (ty[1], e))
                return ("Z", e)
            raise LeafError("unsupported cast " + str(ck))
        if k in ("IntegerLiteral", "CharacterLiteral"):
            return ("Z", str(int(n["value"])))
        if k == "DeclRefExpr":
            rd = n["referencedDecl"]
            if rd.get("kind") == "FunctionDecl":
                return Ptr("fn", rd["name"], role="named")
            return self.load(("var", rd["name"]), st)
        if k == "MemberExpr" or k == "ArraySubscriptExpr":
            return self.load(self.lv(n, st), st)
        if k == "UnaryOperator":
            return self.unary(n, st)
        if k == "BinaryOperator":
            return self.binary(n, st)
        if k == "CompoundAssignOperator":
            loc = self.lv(n["inner"][0], st)
            old = self.load(loc, st)
            rhs = self.ev(n["inner"][1], st)
            op = n["opcode"][:-1]
            if isinstance(old, Ptr):
                if op not in ("+", "-"):
                    raise LeafError("compound assignment on a pointer")
                new = Ptr(old.kind, old.reg, "(%s %s %s)" % (old.idx, op, self.ztext(rhs)), old.nullsym)
            else:
                fake = {"type": n.get("computeResultType", n["type"])}
                new = self.arith(op, self.ztext(old), self.ztext(rhs), fake)
                ty = L.ctype(n)
                if ty and not ty[0] and not new[1].startswith("(wrapu %d " % ty[1]):
                    new = ("Z", "(wrapu %d %s)" % (ty[1], new[1]))
            self.store(loc, new, st)
            return new
        if k == "ConditionalOperator":
            if not (self.pure(n["inner"][1]) and self.pure(n["inner"][2])):
                raise LeafError("side effect in a branch of ?:")
            c = self.btext(self.ev(n["inner"][0], st))
            a, b = self.ev(n["inner"][1], st), self.ev(n["inner"][2], st)
            ta, tb = self.ztext(a), self.ztext(b)
            if (ta, tb) == ("1", "0"):
                return ("B", c)
            if (ta, tb) == ("0", "1"):
                return ("B", "(negb %s)" % c)
            return ("Z", "(if %s then %s else %s)" % (c, ta, tb))
        if k == "CallExpr":
            return self.call(n, st)
        if k == "UnaryExprOrTypeTraitExpr":
            raise LeafError("sizeof outside an allocation / block-copy argument")
        raise LeafError("unsupported expression kind " + str(k))

    def unary(self, n, st):
        op, a = n["opcode"], n["inner"][0]
        if op == "&":
            loc = self.lv(a, st)
            if loc[0] == "arr":
                return Ptr("slot", loc[1], loc[2])
            if loc[0] == "node":
                return Ptr("node", loc[1], loc[2])
            if loc[0] == "var":
                v = st.vars.get(loc[1])
                if isinstance(v, Ptr) and v.kind in ("lheapv", "lnodev"):
                    return Ptr(v.kind[:-1], loc[1])
                if v is not None and not isinstance(v, Ptr):
                    return Ptr("lvar", loc[1], len(st.frames))      # pointer to an integer local of this frame
            if loc[0] == "fvar":
                return Ptr("lvar", loc[1], loc[2])
            raise LeafError("address of something that is not an array element or an integer local")
        if op == "*":
            return self.load(self.lv(n, st), st)
        if op in ("++", "--"):
            loc = self.lv(a, st)
            old = self.load(loc, st)
            sgn = "+" if op == "++" else "-"
            if isinstance(old, Ptr):
                new = Ptr(old.kind, old.reg, "(%s %s 1)" % (old.idx, sgn), old.nullsym)
            else:
                new = self.wrap(n, "(%s %s 1)" % (self.ztext(old), sgn))
            self.store(loc, new, st)
            return old if n.get("isPostfix") else new
        v = self.ev(a, st)
        if op == "!":
            return ("B", "(negb %s)" % self.btext(v))
        if op == "-":
            return self.wrap(n, "(- %s)" % self.ztext(v))
        if op == "+":
            return v
        if op == "~":
            ty = L.ctype(n)
            if ty and not ty[0]:
                return ("Z", "(2 ^ %d - 1 - %s)" % (ty[1], self.ztext(v)))
            return ("Z", "(- %s - 1)" % self.ztext(v))
        raise LeafError("unsupported unary " + op)

    def arith(self, op, x, y, n):
        ty = L.ctype(n)
        uns = ty is not None and not ty[0]
        if op in ("+", "-", "*"):
            return self.wrap(n, "(%s %s %s)" % (x, op, y))
        if op == "/":
            return ("Z", "(%s / %s)" % (x, y) if uns else "(cdiv %s %s)" % (x, y))
        if op == "%":
            return ("Z", "(%s mod %s)" % (x, y) if uns else "(crem %s %s)" % (x, y))
        if op == "&":
            return ("Z", "(Z.land %s %s)" % (x, y))
        if op == "|":
            return ("Z", "(Z.lor %s %s)" % (x, y))
        if op == "^":
            return ("Z", "(Z.lxor %s %s)" % (x, y))
        if op == "<<":
            return self.wrap(n, "(Z.shiftl %s %s)" % (x, y))
        if op == ">>":
            return ("Z", "(Z.shiftr %s %s)" % (x, y))
        raise LeafError("unsupported binary " + op)

    def binary(self, n, st):
        op = n["opcode"]
        a, b = n["inner"]
        if op == "=":
            loc = self.lv(a, st)
            v = self.ev(b, st)
            self.store(loc, v, st)
            return v
        if op == ",":
            self.ev(a, st)
            return self.ev(b, st)
        if op in ("&&", "||"):
            x = self.btext(self.ev(a, st))
            if not self.pure(b):
                raise LeafError("side effect under %s in a value context" % op)
            y = self.btext(self.ev(b, st))
            return ("B", "(%s %s %s)" % (x, op, y))
        x, y = self.ev(a, st), self.ev(b, st)
        if op in ("<", "<=", ">", ">=", "==", "!="):
            m = {"<": "<?", "<=": "<=?", ">": ">?", ">=": ">=?", "==": "=?", "!=": "=?"}
            if isinstance(x, Ptr) or isinstance(y, Ptr):
                if isinstance(x, Ptr) and isinstance(y, Ptr) and x.kind == y.kind and x.reg == y.reg and x.kind in ("slot", "node"):
                    t = "(%s %s %s)" % (x.idx, m[op], y.idx)
                elif op in ("==", "!="):
                    p, o = (x, y) if isinstance(x, Ptr) else (y, x)
                    isnull = (isinstance(o, Ptr) and o.kind == "null") or (not isinstance(o, Ptr) and o[1] == "0")
                    if not isnull:
                        raise LeafError("comparison of unrelated pointers")
                    t = "(negb %s)" % self.nonnull(p)
                    return ("B", t if op == "==" else "(negb %s)" % t)
                else:
                    raise LeafError("ordering of unrelated pointers")
            else:
                t = "(%s %s %s)" % (self.ztext(x), m[op], self.ztext(y))
            return ("B", "(negb %s)" % t if op == "!=" else t)
        if isinstance(x, Ptr) or isinstance(y, Ptr):
            if isinstance(x, Ptr) and isinstance(y, Ptr):
                if op == "-" and x.kind == y.kind and x.reg == y.reg:
                    return ("Z", x.idx if y.idx == "0" else "(%s - %s)" % (x.idx, y.idx))
                raise LeafError("arithmetic on two pointers")
            p, o = (x, y) if isinstance(x, Ptr) else (y, x)
            if op == "+" or (op == "-" and p is x):
                i = zadd(p.idx, self.ztext(o)) if op == "+" else "(%s - %s)" % (p.idx, self.ztext(o))
                return Ptr(p.kind, p.reg, i, p.nullsym)
            raise LeafError("unsupported pointer arithmetic")
        return self.arith(op, self.ztext(x), self.ztext(y), n)

    def pure(self, n):
        def bad(m):
            k = m.get("kind")
            if k == "CallExpr":
                return not self.is_cmp_call(m) and id(m) not in self._pure_calls
            if k == "CompoundAssignOperator":
                return True
            if k == "BinaryOperator" and m.get("opcode") == "=":
                return True
            if k == "UnaryOperator" and m.get("opcode") in ("++", "--"):
                return True
            return False
        return not self.subtree_has(n, bad)

    _pure_calls = set()

    # ---- calls
    def site(self, n):
        return self.sites.get(id(n), 0)

    def call(self, n, st):
        if id(n) in st.tmp:
            return st.tmp.pop(id(n))
        nm = self.callee_name(n)
        if nm is None:
            f = self.ev(n["inner"][0], st)
            args = [self.ev(a, st) for a in n["inner"][1:]]
            if isinstance(f, Ptr) and f.kind == "fn" and f.role == "cmp":
                return ("Z", "(cmp %s %s)" % (self.ztext(args[0]), self.ztext(args[1])))
            if isinstance(f, Ptr) and f.kind == "fn" and f.role == "free":
                return None           # release callback: no effect on the modelled state
            raise LeafError("indirect call through an unknown function pointer")
        k = self.site(n)
        if nm == "free":
            for a in n["inner"][1:]:
                self.ev(a, st)
            return None
        if nm == "malloc":
            st.evs.append((OPAQUE["malloc"], []))
            reg = "m%d" % k
            for suf in ("", ".key", ".value"):
                st.arrs[reg + suf] = "m%d%s" % (k, suf.replace(".", "_"))
            return Ptr("raw", reg, "0", nullsym="ok%d" % k)
        if nm == "memset":
            p = self.ev(n["inner"][1], st)
            z = self.ev(n["inner"][2], st)
            if isinstance(p, Ptr) and p.kind == "heap" and self.ztext(z) == "0":
                for f in HEAP_FIELDS:
                    st.flds[("heap", f)] = ("Z", "0")
                st.flds[("heap", "nodes")] = Ptr("null")
                st.flds[("heap", "cmp")] = Ptr("null")
                return None
            raise LeafError("memset of something else than the whole heap object")
        if nm in OPAQUE:
            args = [self.ev(a, st) for a in n["inner"][1:]]
            eargs = []
            for a in args:
                if isinstance(a, Ptr):
                    if a.kind in ("slot", "node"):
                        eargs.append(a.idx)
                    elif a.kind == "null":
                        eargs.append("0")
                else:
                    eargs.append(self.ztext(a))
            st.evs.append((OPAQUE[nm], eargs))
            for a in args:      # the tracked arrays as they are handed to the callee
                if isinstance(a, Ptr):
                    if a.kind in ("heap", "node"):
                        st.snaps += [st.arrs.get("nodes.key", "nk"), st.arrs.get("nodes.value", "nv")]
                    elif a.kind == "slot" and a.reg in st.arrs:
                        st.snaps.append(st.arrs[a.reg])
            for a in args:
                if not isinstance(a, Ptr):
                    continue
                if a.kind == "heap":
                    for f in HEAP_FIELDS:
                        st.flds[("heap", f)] = ("Z", "h%d_%s" % (k, f))
                    st.arrs["nodes.key"], st.arrs["nodes.value"] = "h%d_nk" % k, "h%d_nv" % k
                elif a.kind in ("lheap", "lnode", "out"):
                    skey = a.kind if a.kind == "out" else a.kind + ":" + str(a.reg)
                    for f in (HEAP_FIELDS if a.kind == "lheap" else ("key", "value")):
                        st.flds[(skey, f)] = ("Z", "h%d_%s" % (k, f))
                elif a.kind == "slot":
                    st.arrs[a.reg] = "a%d_%s" % (k, re.sub(r"\W", "_", a.reg))
                elif a.kind == "node":
                    st.arrs[a.reg + ".key"], st.arrs[a.reg + ".value"] = "h%d_nk" % k, "h%d_nv" % k
            rt = qt(n)
            if rt == "void":
                return None
            if rt in ("_Bool", "bool"):
                return ("B", "(negb (r%d =? 0))" % k)
            if tclass(rt) == "int":
                return ("Z", "r%d" % k)
            raise LeafError("opaque call %s returns %s" % (nm, rt))
        if nm in self.funcs:
            raise LeafError("call of %s in a conditionally evaluated position" % nm)
        if nm == "memcpy":
            raise LeafError("memcpy (block copy) is outside the translated fragment")
        raise LeafError("call of unknown function " + str(nm))

    def find_calls(self, n, out, st):
        if not isinstance(n, dict) or not n:
            return
        k = n.get("kind")
        if (k == "BinaryOperator" and n.get("opcode") in ("&&", "||")) or k == "ConditionalOperator":
            self.find_calls(n["inner"][0], out, st)
            return
        for c in n.get("inner", []):
            self.find_calls(c, out, st)
        if k == "CallExpr" and id(n) not in st.tmp:
            nm = self.callee_name(n)
            if nm and nm not in OPAQUE and nm in self.funcs:
                out.append(n)

    def with_calls(self, n, st, k):
        calls = []
        self.find_calls(n, calls, st)

        def go(i, s):
            if i == len(calls):
                return k(s)
            c = calls[i]

            def done(val, s2):
                s2.tmp[id(c)] = val
                return go(i + 1, s2)
            return self.run_inline(c, s, done)
        return go(0, st)

    def run_inline(self, call, st, kk):
        nm = self.callee_name(call)
        fd = self.funcs[nm]
        if len(st.frames) > 8:
            raise LeafError("call nesting too deep at " + nm)
        args = [self.ev(a, st) for a in call["inner"][1:]]
        parms = [c for c in fd.get("inner", []) if c.get("kind") == "ParmVarDecl"]
        if len(parms) != len(args):
            raise LeafError("argument count mismatch calling " + nm)
        nv = {}
        for p, a in zip(parms, args):
            tc = tclass(qt(p), dqt(p))
            if tc in ("int", "elem"):
                nv[p["name"]] = ("Z", self.ztext(a))
            elif isinstance(a, Ptr):
                nv[p["name"]] = a
            else:
                raise LeafError("unsupported argument for parameter %s of %s" % (p["name"], nm))
        st.frames.append((st.vars, kk))
        st.vars = nv
        body = [c for c in fd["inner"] if c.get("kind") == "CompoundStmt"][0]
        return self.ex_stmt(body, st, lambda s: self.do_return(None, s))

    def do_return(self, val, st):
        if st.frames:
            saved, kk = st.frames.pop()
            st.vars = dict(saved)
            return kk(val, st)
        return ("leaf", Leaf("RET", None, st, val))

    @staticmethod
    def flush(st, thunk):
        """the array updates made since the last flush become let-bindings around what follows"""
        defs, st.pending = st.pending, []
        t = thunk()
        for nm, tx in reversed(defs):
            t = ("let", nm, tx, t)
        return t

    # ---- conditions (continuation-passing: kt / kf get their own copy of the state)
    @staticmethod
    def simp_bool(t):
        for _ in range(4):
            m = re.fullmatch(r"\(negb \((-?\d+) =\? 0\)\)", t)
            if m:
                t = "false" if int(m.group(1)) == 0 else "true"
            t = {"(negb true)": "false", "(negb false)": "true"}.get(t, t)
        return t

    def cond(self, n, st, kt, kf):
        m = skip(n)
        while m.get("kind") == "ImplicitCastExpr" and m.get("castKind") in ("IntegralToBoolean", "IntegralCast", "NoOp") and \
                skip(m["inner"][0]).get("kind") in ("BinaryOperator", "UnaryOperator", "ParenExpr") and \
                skip(m["inner"][0]).get("opcode") in ("&&", "||", "!"):
            m = skip(m["inner"][0])
        k = m.get("kind")
        if k == "UnaryOperator" and m.get("opcode") == "!":
            return self.cond(m["inner"][0], st, kf, kt)
        if k == "BinaryOperator" and m.get("opcode") in ("&&", "||") and not (self.pure(m) and not self.has_inline(m)):
            a, b = m["inner"]
            if m["opcode"] == "&&":
                return self.cond(a, st, lambda s: self.cond(b, s, kt, kf), kf)
            return self.cond(a, st, kt, lambda s: self.cond(b, s, kt, kf))

        def fin(s):
            t = self.simp_bool(self.btext(self.ev(m, s)))
            if t == "true":
                return self.flush(s, lambda: kt(s))
            if t == "false":
                return self.flush(s, lambda: kf(s))
            return self.flush(s, lambda: ("ite", t, kt(s.clone()), kf(s.clone())))
        return self.with_calls(m, st, fin)

    def has_inline(self, n):
        return self.subtree_has(n, lambda m: m.get("kind") == "CallExpr" and self.callee_name(m) not in OPAQUE
                                and self.callee_name(m) in self.funcs)

    # ---- statements
    def innermost_loop(self, s, st):
        if st.frames:
            raise LeafError("break / continue inside an inlined helper")
        return self.parent[id(s)][2]

    def ex_seq(self, ss, i, st, k):
        if i == len(ss):
            return k(st)
        return self.ex_stmt(ss[i], st, lambda s: self.ex_seq(ss, i + 1, s, k))

    def ex_stmt(self, s, st, k):
        kind = s.get("kind")
        if kind == "CompoundStmt":
            return self.ex_seq(s.get("inner", []), 0, st, k)
        if kind == "NullStmt":
            return k(st)
        if kind == "IfStmt":
            inner = s["inner"]
            els = inner[2] if len(inner) > 2 else None
            return self.cond(inner[0], st, lambda a: self.ex_stmt(inner[1], a, k),
                             lambda b: self.ex_stmt(els, b, k) if els else k(b))
        if kind in LOOPS:
            if st.frames:
                raise LeafError("loop inside an inlined helper")
            if kind == "ForStmt" and s["inner"][0]:
                return self.ex_stmt(s["inner"][0], st, lambda a: ("leaf", Leaf("HEAD", s, a)))
            return ("leaf", Leaf("HEAD", s, st))
        if kind == "BreakStmt":
            return ("leaf", Leaf("EXIT", self.innermost_loop(s, st), st))
        if kind == "ContinueStmt":
            return self.backedge(self.innermost_loop(s, st), st)
        if kind == "ReturnStmt":
            inner = s.get("inner", [])
            if not inner:
                return self.do_return(None, st)
            def fin_ret(a):
                v = self.ev(inner[0], a)
                return self.flush(a, lambda: self.do_return(v, a))
            return self.with_calls(inner[0], st, fin_ret)
        if kind == "DeclStmt":
            ds = [d for d in s.get("inner", []) if d.get("kind") == "VarDecl"]
            if len(ds) != len(s.get("inner", [])):
                raise LeafError("unsupported declaration")

            def go(i, a):
                if i == len(ds):
                    return k(a)
                d = ds[i]
                tc = tclass(qt(d), dqt(d))
                init = d.get("inner", [])
                if tc in ("heap", "node"):
                    a.vars[d["name"]] = Ptr("lheapv" if tc == "heap" else "lnodev", d["name"])
                    skey = ("lheap:" if tc == "heap" else "lnode:") + d["name"]
                    for f in (HEAP_FIELDS if tc == "heap" else ("key", "value")):
                        a.flds[(skey, f)] = ("Z", "0")
                    return go(i + 1, a)
                if not init:
                    a.vars[d["name"]] = ("Z", "0") if tc in ("int", "elem") else Ptr("null")
                    return go(i + 1, a)

                def fin(b):
                    v = self.ev(init[-1], b)
                    if tc in ("int", "elem"):
                        v = ("Z", self.ztext(v))
                    elif not isinstance(v, Ptr):
                        raise LeafError("unsupported initialiser of " + d["name"])
                    b.vars[d["name"]] = v
                    return self.flush(b, lambda: go(i + 1, b))
                return self.with_calls(init[-1], a, fin)
            return go(0, st)
        # expression statement
        def fin(a):
            self.ev(s, a)
            return self.flush(a, lambda: k(a))
        return self.with_calls(s, st, fin)

    def backedge(self, loop, st):
        kind = loop["kind"]
        if kind == "ForStmt":
            inc = loop["inner"][3]
            if inc:
                def fin_inc(a):
                    self.ev(inc, a)
                    return self.flush(a, lambda: ("leaf", Leaf("HEAD", loop, a)))
                return self.with_calls(inc, st, fin_inc)
            return ("leaf", Leaf("HEAD", loop, st))
        if kind == "WhileStmt":
            return ("leaf", Leaf("HEAD", loop, st))
        return self.cond(loop["inner"][1], st, lambda a: ("leaf", Leaf("HEAD", loop, a)),
                         lambda b: ("leaf", Leaf("EXIT", loop, b)))

    def cont_after(self, node, st):
        par, idx, _ = self.parent[id(node)]
        if par is None:
            return self.do_return(None, st)
        pk = par.get("kind")
        if pk == "CompoundStmt":
            return self.ex_seq(par["inner"], idx + 1, st, lambda a: self.cont_after(par, a))
        if pk == "IfStmt":
            return self.cont_after(par, st)
        if pk in LOOPS:
            if idx == -1:       # the init statement of a for loop
                return ("leaf", Leaf("HEAD", par, st))
            return self.backedge(par, st)
        raise LeafError("unsupported enclosing statement " + str(pk))

    # ---- the three kinds of segment
    def seg_pre(self, st):
        return self.ex_stmt(self.body, st, lambda a: self.do_return(None, a))

    def seg_step(self, loop, st):
        kind = loop["kind"]
        if kind == "DoStmt":
            return self.ex_stmt(loop["inner"][0], st, lambda a: self.backedge(loop, a))
        c = loop["inner"][2] if kind == "ForStmt" else loop["inner"][0]
        body = loop["inner"][-1]
        run = lambda a: self.ex_stmt(body, a, lambda b: self.backedge(loop, b))
        if not c:
            return run(st)
        return self.cond(c, st, run, lambda b: ("leaf", Leaf("EXIT", loop, b)))

    def seg_post(self, loop, st):
        return self.cont_after(loop, st)


# ======================================================================================
# analysis of one function: cuts, canonical state vectors, emission

SYM = re.compile(r"\b(?:v_\w+|f_\w+|o_\w+|l_\w+|n_\w+|r\d+|ok\d+|h\d+_\w+|a\d+_\w+|m\d+(?:_\w+)?)\b")


def symtype(s):
    if re.fullmatch(r"h\d+_n[kv]|a\d+_\w+|m\d+(_\w+)?", s):
        return "Z -> Z"
    return "Z"


def is_oracle(s):
    return re.fullmatch(r"r\d+|ok\d+|h\d+_\w+|a\d+_\w+|m\d+(_\w+)?", s) is not None


def depth(loop):
    d = 0
    while loop.get("_outer") is not None:
        loop, d = loop["_outer"], d + 1
    return d


class Analysis:
    def __init__(self, funcs, fname, roles, loopsel):
        self.ex = Exec(funcs, fname, roles)
        self.fname, self.roles = fname, roles
        self.names = []                      # [(name, loop node)] in spec order
        for name, sel in loopsel:
            node = sel(self.ex)
            if node is None:
                raise LeafError("%s: loop '%s' not found" % (fname, name))
            self.names.append((name, node))
        self.stateful_vars, self.stateful_flds = self.ex.assigned_in(self.ex.body)
        self.alias = self.copy_aliases()
        self.stateful_vars -= set(self.alias)
        self.kinds = {}                      # ('H'|'X', id(loop)) -> {var: Ptr}
        self.vec = {}                        # id(loop) -> dict(carried=[], inv=[], passv=[])
        self.derived = {}                    # id(loop) -> {sym: expr}
        self.errors = {}                     # segment key -> message
        self.arrA, self.arrB = self.array_names()
        self.solve()

    def copy_aliases(self):
        """a local that is only ever given its initial value, and that value is a never-assigned parameter (or such an
        alias), IS that parameter: `T x = p;` (the parameter copies made when a helper is spliced in)"""
        count, init = {}, {}

        def target(l):
            l = skip(l)
            if l.get("kind") == "DeclRefExpr":
                count[l["referencedDecl"]["name"]] = count.get(l["referencedDecl"]["name"], 0) + 1

        def walk(n):
            if not isinstance(n, dict) or not n:
                return
            k = n.get("kind")
            if k in ("BinaryOperator", "CompoundAssignOperator") and n.get("opcode", "").endswith("=") and \
                    n["opcode"] not in ("==", "!=", "<=", ">="):
                target(n["inner"][0])
            if k == "UnaryOperator" and n.get("opcode") in ("++", "--", "&"):
                target(n["inner"][0])
            if k == "VarDecl":
                count[n["name"]] = count.get(n["name"], 0) + 1
                if n.get("inner"):
                    init[n["name"]] = n["inner"][-1]
            for c in n.get("inner", []):
                walk(c)
        walk(self.ex.body)
        params = set(p_["name"] for p_ in self.ex.params)
        alias = {}
        for _ in range(4):
            for x, e in init.items():
                if x in alias or count.get(x) != 1 or x in params:
                    continue
                e = skip(e)
                while e.get("kind") == "ImplicitCastExpr" and e.get("castKind") in ("LValueToRValue", "NoOp"):
                    e = skip(e["inner"][0])
                if e.get("kind") == "DeclRefExpr" and e["referencedDecl"].get("kind") in ("ParmVarDecl", "VarDecl"):
                    y = e["referencedDecl"]["name"]
                    y = alias.get(y, y)
                    if y in params and count.get(y, 0) == 0:
                        alias[x] = y
        return alias

    # ---- naming
    def array_names(self):
        slots = [p["name"] for p in self.ex.params if tclass(qt(p), dqt(p)) == "slotp"]
        if any(tclass(qt(p), dqt(p)) == "heapp" for p in self.ex.params):
            return ("nodes.key", "nk"), ("nodes.value", "nv")
        a = (slots[0], "pa") if slots else (None, "pa")
        b = (slots[1], "pb") if len(slots) > 1 else (None, "pb")
        return a, b

    def loop_index(self, loop):
        for i, (_, n) in enumerate(self.names):
            if n is loop:
                return i
        return None

    def tag(self, leaf):
        if leaf.kind == "RET":
            return 0
        i = self.loop_index(leaf.loop)
        if leaf.kind == "HEAD":
            return 99 if i is None else 10 + i
        return 98 if i is None else 50 + i

    # ---- symbolic start state of a segment
    def init_state(self, cut):
        st = St()
        ex = self.ex
        has_heap = False
        for p in ex.params:
            nm, tc = p["name"], tclass(qt(p), dqt(p))
            if tc in ("int", "elem"):
                st.vars[nm] = ("Z", "v_" + nm)
            elif tc == "fn":
                role = "cmp" if "int (*)(const void *, const void *)" in dqt(p) else "free"
                st.vars[nm] = Ptr("fn", nm, nullsym="n_" + nm, role=role)
            elif tc == "heapp":
                st.vars[nm] = Ptr("heap")
                has_heap = True
            elif tc == "nodep":
                if self.roles.get(nm) == "out":
                    st.vars[nm] = Ptr("out", nm)
                    st.flds[("out", "key")], st.flds[("out", "value")] = ("Z", "o_key"), ("Z", "o_value")
                else:
                    st.vars[nm] = Ptr("node", "nodes", "v_" + nm)
            elif tc == "slotp":
                st.vars[nm] = Ptr("slot", nm, "0")
            else:
                raise LeafError("unsupported parameter type " + qt(p))
        if has_heap:
            for f in HEAP_FIELDS:
                st.flds[("heap", f)] = ("Z", "f_" + f)
            st.flds[("heap", "nodes")] = Ptr("node", "nodes", "0")
            st.flds[("heap", "cmp")] = Ptr("fn", "cmp", role="cmp")
            st.arrs["nodes.key"], st.arrs["nodes.value"] = "nk", "nv"
        for key, sym in (self.arrA, self.arrB):
            if key and key not in st.arrs:
                st.arrs[key] = sym
        if cut is None:
            return st
        kinds = self.kinds.get(cut, {})
        for d in self.all_decls():
            nm, tc = d["name"], tclass(qt(d), dqt(d))
            if tc in ("int", "elem"):
                st.vars[nm] = ("Z", "v_" + nm)
            elif tc in ("heap", "node"):
                st.vars[nm] = Ptr("lheapv" if tc == "heap" else "lnodev", nm)
                skey = ("lheap:" if tc == "heap" else "lnode:") + nm
                for f in (HEAP_FIELDS if tc == "heap" else ("key", "value")):
                    st.flds[(skey, f)] = ("Z", "l_%s_%s" % (nm, f))
            else:
                t = kinds.get(nm)
                if t is None or t.kind in ("unk", "null", "raw"):
                    st.vars[nm] = Ptr("unk") if t is None or t.kind != "null" else Ptr("null")
                elif t.kind in ("slot", "node"):
                    st.vars[nm] = Ptr(t.kind, t.reg, "v_" + nm, t.nullsym)
                    if t.reg not in st.arrs and t.kind == "slot":
                        st.arrs[t.reg] = re.sub(r"\W", "_", t.reg)
                else:
                    st.vars[nm] = Ptr(t.kind, t.reg, t.idx, t.nullsym, t.role)
        # params that are pointers into an array may have been advanced: keep their index symbolic when assigned
        for p in ex.params:
            nm = p["name"]
            if nm in self.stateful_vars and isinstance(st.vars.get(nm), Ptr) and st.vars[nm].kind in ("slot", "node"):
                st.vars[nm] = Ptr(st.vars[nm].kind, st.vars[nm].reg, "v_" + nm)
        for x, y in self.alias.items():
            if y in st.vars:
                st.vars[x] = st.vars[y]
        if cut[0] == "H":
            for sym, e in self.derived.get(cut[1], {}).items():
                st.vars[sym[2:]] = ("Z", e)
        return st

    def all_decls(self):
        out = []

        def walk(n):
            if isinstance(n, dict) and n:
                if n.get("kind") == "VarDecl":
                    out.append(n)
                for c in n.get("inner", []):
                    walk(c)
        walk(self.ex.body)
        return out

    # ---- values of state symbols at a leaf
    def val_at(self, sym, st):
        if sym.startswith("v_"):
            v = st.vars.get(sym[2:])
            if v is None:
                raise LeafError("variable %s is not in scope at a cut" % sym[2:])
            if isinstance(v, Ptr):
                if v.kind in ("slot", "node"):
                    return v.idx
                raise LeafError("pointer variable %s of kind %s is live at a cut" % (sym[2:], v.kind))
            return self.ex.ztext(v)
        if sym.startswith("f_"):
            return self.ex.ztext(st.flds[("heap", sym[2:])])
        if sym.startswith("o_"):
            return self.ex.ztext(st.flds[("out", sym[2:])])
        if sym.startswith("l_"):
            nm, f = sym[2:].rsplit("_", 1)
            for k in (("lheap:" + nm, f), ("lnode:" + nm, f)):
                if k in st.flds:
                    return self.ex.ztext(st.flds[k])
        raise LeafError("no value for state symbol " + sym)

    def decl_rank(self, sym):
        if not hasattr(self, "_rank"):
            self._rank = {}
            for i, p_ in enumerate(self.ex.params):
                self._rank["v_" + p_["name"]] = (0, i)
            for i, d in enumerate(self.all_decls()):
                self._rank.setdefault("v_" + d["name"], (1, i))
        if sym in self._rank:
            return self._rank[sym]
        return ({"f": 2, "o": 3, "l": 4}.get(sym[0], 5), sym)

    def is_stateful(self, s):
        if s.startswith("v_"):
            return s[2:] in self.stateful_vars
        if s.startswith("f_"):
            return s[2:] in self.stateful_flds
        if s.startswith("o_") or s.startswith("l_"):
            return True
        return False

    def ret_payload_syms(self):
        out = []
        if "out" in self.roles.values():
            out += ["o_key", "o_value"]
        if any(tclass(qt(p), dqt(p)) == "heapp" for p in self.ex.params):
            out += ["f_" + f for f in sorted(self.stateful_flds) if f in HEAP_FIELDS]
        return out

    def payload(self, leaf):
        if leaf.kind == "RET":
            r = leaf.ret
            if isinstance(r, Ptr):          # a returned pointer is projected to its index (NULL = 0)
                if r.kind not in ("slot", "node", "null"):
                    raise LeafError("returned pointer of kind " + r.kind)
                r = ("Z", "0" if r.kind == "null" else r.idx)
            vals = [self.ex.ztext(r) if r is not None else "0"]
            return vals + [self.val_at(s, leaf.st) for s in self.ret_payload_syms()]
        v = self.vec.get(id(leaf.loop), {"carried": [], "inv": [], "passv": []})
        syms = list(v["carried"])
        inside, c = False, self.cur
        while c is not None:          # the segment being emitted lies inside the target loop: a back edge
            if c is leaf.loop:
                inside = True
            c = c.get("_outer")
        if leaf.kind == "HEAD" and not inside:
            syms += v["inv"] + [p for p in v["passv"] if p not in v["inv"]]
        return [self.val_at(s, leaf.st) for s in syms]

    # ---- emission
    def arr_text(self, st, which):
        key, sym = which
        return st.arrs.get(key, sym) if key else sym

    cur = None

    def emit_seg(self, tree, kind, loop):
        self.cur = loop if kind == "step" else (loop.get("_outer") if kind == "post" else None)
        return self.emit(tree)

    def emit(self, tree, ind="  "):
        if tree[0] == "let":
            return "(let %s := %s in\n%s%s)" % (tree[1], tree[2], ind, self.emit(tree[3], ind))
        if tree[0] == "ite":
            t, f = self.emit(tree[2], ind + "  "), self.emit(tree[3], ind + "  ")
            if t == f:
                return t
            return "(if %s\n%sthen %s\n%selse %s)" % (tree[1], ind, t, ind, f)
        lf = tree[1]
        evs = "; ".join("(%d, [%s])" % (i, "; ".join(a)) for i, a in lf.st.evs)
        if lf.st.pending:
            raise LeafError("internal: array updates not flushed at a leaf")
        return "(mkres %d %s %s [%s] [%s] [%s])" % (self.tag(lf), self.arr_text(lf.st, self.arrA), self.arr_text(lf.st, self.arrB),
                                                   "; ".join(self.payload(lf)), evs, "; ".join(lf.st.snaps))

    def leaves(self, tree, out):
        if tree[0] == "let":
            return self.leaves(tree[3], out)
        if tree[0] == "ite":
            self.leaves(tree[2], out)
            self.leaves(tree[3], out)
        else:
            out.append(tree[1])
        return out

    @staticmethod
    def syms_in(text):
        seen, out = set(), []
        for m in SYM.finditer(text):
            if m.group(0) not in seen:
                seen.add(m.group(0))
                out.append(m.group(0))
        return out

    # ---- running segments
    def run(self, kind, loop):
        ex = self.ex
        if kind == "pre":
            return ex.seg_pre(self.init_state(None))
        if ("H", id(loop)) not in self.kinds:
            raise LeafError("loop is not reached by the translated paths")
        if kind == "step":
            return ex.seg_step(loop, self.init_state(("H", id(loop))))
        st = self.init_state(("X", id(loop)))
        return ex.seg_post(loop, st)

    def note_kinds(self, tree):
        for lf in self.leaves(tree, []):
            if lf.kind == "RET":
                continue
            key = ("H" if lf.kind == "HEAD" else "X", id(lf.loop))
            cur = self.kinds.setdefault(key, None)
            ks = {k: v for k, v in lf.st.vars.items() if isinstance(v, Ptr)}
            if cur is None:
                self.kinds[key] = ks
            else:
                for k, v in ks.items():
                    if k in cur and cur[k].key() != v.key():
                        cur[k] = Ptr("unk")

    def try_run(self, kind, loop):
        key = (kind, id(loop) if loop is not None else 0)
        try:
            t = self.run(kind, loop)
            self.errors.pop(key, None)
            return t
        except LeafError as e:
            self.errors[key] = str(e)
            return None

    def all_segments(self):
        segs = [("pre", None)]
        for lp in self.ex.loops:
            segs += [("step", lp), ("post", lp)]
        return segs

    def solve(self):
        # pass 1: pointer kinds at the cuts (two rounds: a post segment may reach an earlier loop head)
        for _ in range(2):
            for kind, lp in self.all_segments():
                t = self.try_run(kind, lp)
                if t is not None:
                    self.note_kinds(t)
        # pass 2: canonical vectors by fixpoint on what each segment reads
        for rnd in range(3):
            self.fix_vectors()
            if rnd == 2 or not self.find_derived():
                break

    def fix_vectors(self):
        self.vec = {}
        for _ in range(12):
            old = {k: (list(v["carried"]), list(v["inv"]), list(v["passv"])) for k, v in self.vec.items()}
            self.trees = {}
            for kind, lp in self.all_segments():
                self.trees[(kind, id(lp) if lp is not None else 0)] = self.try_run(kind, lp)
            for lp in self.ex.loops:
                ts, tp = self.trees.get(("step", id(lp))), self.trees.get(("post", id(lp)))
                try:
                    us = self.syms_in(self.emit_seg(ts, "step", lp)) if ts is not None else []
                except LeafError:
                    us = []
                try:
                    up = self.syms_in(self.emit_seg(tp, "post", lp)) if tp is not None else []
                except LeafError:
                    up = []
                av, af = self.ex.assigned_in(lp)
                inloop = lambda s: (s.startswith("v_") and s[2:] in av) or (s.startswith("f_") and s[2:] in af) or \
                    (s.startswith("o_") and ("out." + s[2:]) in af)
                carried = [s for s in us + [x for x in up if x not in us] if self.is_stateful(s) and inloop(s)]
                inv = [s for s in us if self.is_stateful(s) and not inloop(s)]
                passv = [s for s in up if self.is_stateful(s) and not inloop(s)]
                passv = sorted([s for s in passv if s[0] in "fo"]) + [s for s in passv if s[0] not in "fo"]
                # names and the order of first use never matter: declaration order (parameters, locals), then fields
                carried, inv, passv = (sorted(set(x), key=self.decl_rank) for x in (carried, inv, passv))
                self.vec[id(lp)] = {"carried": carried, "inv": inv, "passv": passv}
            new = {k: (list(v["carried"]), list(v["inv"]), list(v["passv"])) for k, v in self.vec.items()}
            if new == old:
                return
        raise LeafError("%s: state vectors do not stabilise" % self.fname)

    def find_derived(self):
        """a carried local whose value at every arrival at the loop head is the same expression of the other
        head variables is replaced by that expression"""
        found = False
        for lp in self.ex.loops:
            v = self.vec.get(id(lp))
            if not v:
                continue
            edges = []
            for t in self.trees.values():
                if t is not None:
                    edges += [lf for lf in self.leaves(t, []) if lf.kind == "HEAD" and lf.loop is lp]
            if len(edges) < 2:
                continue
            full = v["carried"] + v["inv"]
            for x in list(v["carried"]):
                if not x.startswith("v_") or x in self.derived.get(id(lp), {}):
                    continue
                others = [y for y in full if y != x and y not in self.derived.get(id(lp), {})]
                cands = []
                ok = True
                for lf in edges:
                    try:
                        ex_ = self.val_at(x, lf.st)
                        ey = sorted(((self.val_at(y, lf.st), y) for y in others), key=lambda p: -len(p[0]))
                    except LeafError:
                        ok = False
                        break
                    e = ex_
                    for val, y in ey:
                        if re.fullmatch(r"-?\d+", val):
                            continue
                        e = re.sub(r"(?<![\w])" + re.escape(val) + r"(?![\w])", "@" + y + "@", e)
                    cands.append(e.replace("@", ""))
                if not ok or len(set(cands)) != 1:
                    continue
                e = cands[0]
                used = self.syms_in(e)
                if x in used or any((self.is_stateful(s) and s not in others) or is_oracle(s) for s in used):
                    continue
                if not any(s in others for s in used):
                    continue          # a constant: leave it alone
                self.derived.setdefault(id(lp), {})[x] = e
                found = True
                break
        return found

    # ---- final text of one segment
    def definition(self, gname, kind, loop):
        key = (kind, id(loop) if loop is not None else 0)
        tree = self.trees.get(key)
        if tree is None:
            raise LeafError(self.errors.get(key, "segment not translated"))
        body = self.emit_seg(tree, kind, loop)
        used = self.syms_in(body)
        if kind == "pre":
            state = []
        else:
            v = self.vec[id(loop)]
            state = list(v["carried"]) + (v["inv"] if kind == "step" else v["passv"])
        extra = [s for s in used if s not in state]
        bad = [s for s in extra if self.is_stateful(s) and kind != "pre"]
        if bad:
            raise LeafError("state symbols %s are read but are not part of the canonical vector" % bad)
        porder = {("v_" + p["name"]): i for i, p in enumerate(self.ex.params)}
        # oracles (what a library call returns / leaves behind): grouped by call site in source order, fixed order
        # inside a site, and a field never comes without its sibling (key with value, nk with nv, size with
        # capacity) so that reading the OTHER field of a callee's result changes the term, not just a name
        orc = set(s for s in extra if is_oracle(s))
        for s_ in list(orc):
            m = re.fullmatch(r"(h\d+)_(key|value|nk|nv|size|capacity)", s_)
            if m:
                sib = {"key": "value", "value": "key", "nk": "nv", "nv": "nk", "size": "capacity", "capacity": "size"}[m.group(2)]
                orc.add("%s_%s" % (m.group(1), sib))
        rank = {"r": 0, "ok": 1, "m": 2, "nk": 3, "nv": 4, "size": 5, "capacity": 6, "key": 7, "value": 8}

        def okey(s_):
            site = int(re.match(r"[a-z]+(\d+)", s_).group(1))
            m = re.fullmatch(r"h\d+_(\w+)", s_)
            kind = m.group(1) if m else re.match(r"[a-z]+", s_).group(0)
            ma = re.fullmatch(r"a\d+_(\w+)", s_)
            slots = [re.sub(r"\W", "_", p_["name"]) for p_ in self.ex.params if tclass(qt(p_), dqt(p_)) == "slotp"]
            pos = slots.index(ma.group(1)) if ma and ma.group(1) in slots else len(slots)
            return (site, rank.get(kind, 9), pos, s_)
        consts = sorted([s for s in extra if s in porder], key=lambda s: porder[s]) + \
            sorted([s for s in extra if s.startswith("f_")]) + \
            [s for s in extra if s not in porder and not s.startswith("f_") and not is_oracle(s)] + \
            sorted(orc, key=okey)
        args = state + consts
        sig = " ".join("(%s : %s)" % (s, symtype(s)) for s in args)
        text = "Definition %s (cmp : Z -> Z -> Z) (%s %s : Z -> Z) %s : gres :=\n  %s.\n" % (
            gname, self.arrA[1], self.arrB[1], sig, body)
        return text, args


# ======================================================================================
# what is tied: (prefix, file, function, pointer-parameter roles, named loops, segments)

def nth(d, k):
    def sel(ex):
        ls = [l for l in ex.loops if depth(l) == d]
        return ls[k] if len(ls) > k else None
    return sel


HEAP_C, SORT_C = "muggle/c/dsaa/heap.c", "muggle/c/dsaa/sort.c"
SPEC = [
    ("insert", HEAP_C, "muggle_heap_insert", {}, [("up", nth(0, 0))],
     [("pre", "pre", None), ("step", "step", "up"), ("post", "post", "up")]),
    ("extract", HEAP_C, "muggle_heap_extract", {"node": "out"}, [("down", nth(0, 0))],
     [("pre", "pre", None), ("step", "step", "down"), ("post", "post", "down")]),
    ("remove", HEAP_C, "muggle_heap_remove", {"node": "in"}, [("loop", nth(0, 0))],
     [("pre", "pre", None), ("step", "step", "loop"), ("post", "post", "loop")]),
    ("find", HEAP_C, "muggle_heap_find", {}, [("scan", nth(0, 0))],
     [("pre", "pre", None), ("step", "step", "scan"), ("post", "post", "scan")]),
    ("clear", HEAP_C, "muggle_heap_clear", {}, [("walk", nth(0, 0))],
     [("pre", "pre", None), ("step", "step", "walk"), ("post", "post", "walk")]),
    ("ins", SORT_C, "muggle_insertion_sort", {}, [("outer", nth(0, 0)), ("inner", nth(1, 0))],
     [("pre", "pre", None), ("outer_step", "step", "outer"), ("inner_step", "step", "inner"),
      ("inner_post", "post", "inner"), ("outer_post", "post", "outer")]),
    ("shell", SORT_C, "muggle_shell_sort", {}, [("gap", nth(0, 0)), ("mid", nth(1, 0)), ("inner", nth(2, 0))],
     [("pre", "pre", None), ("gap_step", "step", "gap"), ("mid_step", "step", "mid"), ("inner_step", "step", "inner"),
      ("inner_post", "post", "inner"), ("mid_post", "post", "mid"), ("gap_post", "post", "gap")]),
    ("hsort", SORT_C, "muggle_heap_sort", {}, [("fill", nth(0, 0)), ("drain", nth(0, 1))],
     [("pre", "pre", None), ("fill_step", "step", "fill"), ("fill_post", "post", "fill"),
      ("drain_step", "step", "drain"), ("drain_post", "post", "drain")]),
    ("mrec", SORT_C, "muggle_merge_sort_recursive", {}, [("merge", nth(0, 0))],
     [("pre", "pre", None), ("merge_step", "step", "merge")]),
    ("msort", SORT_C, "muggle_merge_sort", {}, [], [("pre", "pre", None)]),
    ("qrec", SORT_C, "muggle_quick_sort_recursive", {},
     [("part", nth(0, 0)), ("up", nth(1, 0)), ("down", nth(1, 1))],
     [("pre", "pre", None), ("part_step", "step", "part"), ("up_step", "step", "up"), ("up_post", "post", "up"),
      ("down_step", "step", "down"), ("down_post", "post", "down"), ("part_post", "post", "part")]),
    ("qsort", SORT_C, "muggle_quick_sort", {}, [], [("pre", "pre", None)]),
]


def generate(repo, cflags, only=None):
    """-> (Gallina text, {gen name: [argument symbols]}, {gen name: error})"""
    import os
    out, sigs, errs = [], {}, {}
    cache = {}
    for prefix, rel, fname, roles, loopsel, segs in SPEC:
        if only and prefix not in only:
            continue
        names = ["gen_%s_%s" % (prefix, suf) for suf, _, _ in segs]
        try:
            if rel not in cache:
                cache[rel] = load_file(os.path.join(repo, rel), cflags)
            an = Analysis(cache[rel], fname, roles, loopsel)
        except LeafError as e:
            for g in names:
                errs[g] = str(e)
                out.append("(* slicer error for %s (%s): %s *)\n" % (g, fname, str(e).replace("*)", "* )")))
            continue
        except Exception as e:          # a broken AST must break the obligation, not the machinery
            for g in names:
                errs[g] = "slicer failure: %r" % (e,)
                out.append("(* slicer failure for %s (%s): %s *)\n" % (g, fname, repr(e)[:300].replace("*)", "* )")))
            continue
        loops = dict(an.names)
        for (suf, kind, lname), g in zip(segs, names):
            try:
                text, args = an.definition(g, kind, loops.get(lname))
                sigs[g] = args
                out.append("(* %s: %s %s of %s; arguments after the arrays: %s *)\n%s" % (
                    g, kind, lname or "", fname, " ".join(args) or "-", text))
            except LeafError as e:
                errs[g] = str(e)
                out.append("(* slicer error for %s (%s): %s *)\n" % (g, fname, str(e).replace("*)", "* )")))
            except Exception as e:
                errs[g] = "slicer failure: %r" % (e,)
                out.append("(* slicer failure for %s (%s): %s *)\n" % (g, fname, repr(e)[:300].replace("*)", "* )")))
    return "\n".join(out), sigs, errs


if __name__ == "__main__":
    import sys
    repo = sys.argv[1] if len(sys.argv) > 1 else "/repo"
    gen = sys.argv[2] if len(sys.argv) > 2 else "/tmp/vb-c10/build/gen"
    only = set(sys.argv[3:]) or None
    txt, sigs, errs = generate(repo, ["-std=gnu11", "-DNDEBUG", "-DMUGGLE_C_EXPORTS", "-I" + repo, "-I" + gen], only)
    print(txt)
    for g, e in errs.items():
        print("ERROR", g, e, file=sys.stderr)
