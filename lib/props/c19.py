"""C19 — flow controller: plugin for bin/check."""
import itertools
import vcommon as V

ID = "C19"
COQ_DIRS = ["C19"]
MODEL_BASE = "c19_model"
OCAML_DRIVER = "ocaml/c19_driver.ml"
C_DRIVER = "harness/drivers/c19_driver.c"
REPO_SOURCES = ["muggle/c/time/flow_controller.c", "muggle/c/time/fast_flow_controller.c",
                "muggle/c/time/time_counter.c"]
LINK_FLAGS = ["-Wl,--wrap=clock_gettime"]
HEADER_LINES = 1
RULE = ("exhaustive timelines (gaps from {0,1,t/2,t-1,t,t+1,2t}) for n in 1..4 through check_and_update and "
        "check_and_force_update on the ns and tick controllers, plus seeded random long mixed-op timelines and "
        "rejected inits; a case is non-trivial when it contains both an admitted and a refused request; distinct = "
        "distinct script text")
TRUSTED_BASE = [
    "modelled, not verified: the monotonic clock (clock_gettime is wrapped to a scenario clock; muggle_rdtscp is supplied by the driver); int64 overflow is excluded by the stated magnitude bound",
]
ASSUMPTIONS = ["non-decreasing request timeline (the property's quantifier); |now|, t*unit < 2^62"]

NS = 1000000000


def _mk(name, kind, t, n, fwd, freq, ops, valid=True):
    head = "init %s %d %d %d" % (kind, t, n, fwd) + ((" %d" % freq) if kind == "fast" else "")
    return V.Case(name, [head] + ["%s %d" % o for o in ops],
                  {"kind": kind, "t": t, "n": n, "fwd": fwd, "freq": freq, "valid": valid})


def corpus_cases(ctx):
    return [
        _mk("corpus-boundary-gap-eq-t", "ns", 1, 1, 0, NS, [("cu", 0), ("cu", NS - 1), ("cu", NS), ("cu", 2 * NS - 1), ("cu", 2 * NS)]),
        _mk("corpus-force", "ns", 1, 2, 1, NS, [("cfu", 0), ("cfu", 1), ("cfu", 2), ("cfu", NS + 1), ("cfu", NS + 2), ("cfu", NS + 3)]),
        _mk("corpus-init-n0", "ns", 1, 0, 0, NS, [("cu", 1)]),
        _mk("corpus-init-t0", "fast", 0, 3, 0, 1000, [("cu", 1)]),
    ]


def generate(rng, tier):
    cases = []
    L = 4 if tier == "quick" else 6
    for kind, unit in (("ns", NS), ("fast", 3)):
        for n in (1, 2, 3, 4):
            for t in ((1,) if tier == "quick" else (1, 2)):
                T = t * unit
                gaps = sorted(set([0, 1, T // 2, T - 1, T, T + 1, 2 * T]))
                fwds = (0, t) if tier == "quick" else (0, 1, t, 2 * t)
                for fwd in fwds:
                    for opk in ("cu", "cfu"):
                        if kind == "fast" and n > 2 and tier == "quick":
                            continue
                        for combo in itertools.product(range(len(gaps)), repeat=L):
                            now, ops = 0, []
                            for g in combo:
                                now += gaps[g]
                                ops.append((opk, now))
                            cases.append(_mk("ex-%s-n%d-t%d-f%d-%s-%s" % (kind, n, t, fwd, opk, "".join(map(str, combo))),
                                             kind, t, n, fwd, unit, ops))
    # random long mixed timelines
    nrand = 300 if tier == "quick" else 6000
    for i in range(nrand):
        kind = rng.choice(["ns", "fast"])
        unit = NS if kind == "ns" else rng.choice([1, 2, 7, 1000, 2400000000])
        t = rng.choice([1, 1, 2, 3, 10])
        n = rng.choice([1, 2, 3, 4, 5, 8, 16, 33])
        fwd = rng.choice([0, 0, 1, t, t + 1, 100])
        T = t * unit
        now, ops = 0, []
        for _ in range(rng.range(1, 60 if tier == "quick" else 400)):
            g = rng.choice([0, 0, 1, T // 2, T - 1, T, T + 1, 2 * T, rng.below(T + 2), rng.below(max(1, T // max(1, n)) + 1)])
            now += g
            ops.append((rng.choice(["cu", "cu", "cu", "cfu", "check", "update"]), now))
        cases.append(_mk("rnd-%d" % i, kind, t, n, fwd, unit, ops))
    # rejected / degenerate inits
    for i, (t, n) in enumerate([(0, 1), (-1, 3), (1, 0), (0, 0)]):
        cases.append(_mk("badinit-%d" % i, "ns" if i % 2 else "fast", t, n, 0, 5, [("cu", 1), ("check", 2)]))
    return cases


search_budget = 4000


def search(rng, diverging, tier):
    """Extra cases aimed at the window boundary, used when a proof or the correspondence broke."""
    out = []
    for i in range(search_budget):
        kind = rng.choice(["ns", "fast"])
        unit = NS if kind == "ns" else rng.choice([1, 3, 1000])
        t, n, fwd = rng.choice([1, 2]), rng.choice([1, 2, 3, 4]), rng.choice([0, 1, 2])
        T = t * unit
        now, ops = 0, []
        for _ in range(rng.range(2, 14)):
            now += rng.choice([0, 1, T // 2, T - 1, T, T + 1])
            ops.append((rng.choice(["cu", "cu", "cfu", "check", "update"]), now))
        out.append(_mk("search-%d" % i, kind, t, n, fwd, unit, ops))
    return out


def monitor(case, lines):
    """Independent oracle: sliding-window count over recorded requests."""
    m = case.meta
    if not m or "kind" not in m:
        m = _meta_from_lines(case)
    if not lines:
        return "no output"
    ok_expected = m["n"] > 0 and m["t"] > 0
    if lines[0] != ("init ok" if ok_expected else "init fail"):
        return "init returned %r, expected %s" % (lines[0], "ok" if ok_expected else "fail")
    if not ok_expected:
        return None
    unit = NS if m["kind"] == "ns" else m["freq"]
    T = m["t"] * unit
    H = [-m["fwd"] * unit] * m["n"]
    last = -m["fwd"] * unit
    for k, ln in enumerate(case.lines[1:], 1):
        op, a = ln.split()
        a = int(a)
        if a < last:
            return None   # not a non-decreasing timeline: outside the property
        last = a
        room = sum(1 for h in H if h > a - T) < m["n"]
        got = lines[k] if k < len(lines) else None
        if op == "update":
            H.append(a)
            exp = "-"
        elif op == "check":
            exp = "1" if room else "0"
        elif op == "cu":
            exp = "1" if room else "0"
            if room:
                H.append(a)
        else:
            exp = "1" if room else "0"
            H.append(a)
        if got != exp:
            return "op %d (%s): implementation answered %r, window specification says %r (n=%d, t=%d, %d recorded in window)" % (
                k, ln, got, exp, m["n"], T, sum(1 for h in H if h > a - T))
    return None


def _meta_from_lines(case):
    w = case.lines[0].split()
    return {"kind": w[1], "t": int(w[2]), "n": int(w[3]), "fwd": int(w[4]), "freq": int(w[5]) if len(w) > 5 else NS}


def nontrivial_key(case, lines):
    if "1" in lines and "0" in lines:
        return "\n".join(case.lines)
    return None


def tally(dist, case, lines):
    m = case.meta or {}
    for k in ("kind", "n"):
        key = "%s=%s" % (k, m.get(k))
        dist[key] = dist.get(key, 0) + 1
    dist["ops"] = dist.get("ops", 0) + len(case.lines) - 1
    dist["admitted"] = dist.get("admitted", 0) + lines.count("1")
    dist["refused"] = dist.get("refused", 0) + lines.count("0")
    if lines and lines[0] == "init fail":
        dist["init_rejected"] = dist.get("init_rejected", 0) + 1


MANIFEST = {
    "level_text": ("Unbounded Coq theorems over an executable model of the circular-array controller: for every n, t, "
                   "init_forward and every non-decreasing timeline the verdict equals the sliding-window specification "
                   "(both directions), no interval of length t holds more than n admitted, forced update records all, "
                   "tick controller agrees under scaling.  Model tied to the C code by a differential run of the extracted "
                   "model against flow_controller.c / fast_flow_controller.c compiled from the working tree, plus an "
                   "independent window-count monitor."),
    "design_ref": "DESIGN.md section 6 / C19, Appendix A.1",
    "level_note": ("Trusted: Coq kernel, extraction (ExtrOcamlBasic), the differential harness; clock is a scenario clock "
                   "(clock_gettime wrapped, rdtscp supplied); int64 overflow excluded by the magnitude bound."),
    "technique": "Coq proof of refinement to a sliding-window spec (induction over op lists) + extracted-model differential run",
}
