"""C19 — flow controller: plugin for bin/check."""
import itertools
import vcommon as V

ID = "C19"
COQ_DIRS = ["C19"]
MODEL_BASE = "c19_model"
OCAML_DRIVER = "ocaml/c19_driver.ml"
C_DRIVER = "harness/drivers/c19_driver.c"
REPO_SOURCES = ["muggle/c/time/flow_controller.c", "muggle/c/time/fast_flow_controller.c",
                "muggle/c/time/time_counter.c"]
LINK_FLAGS = ["-Wl,--wrap=clock_gettime"]
HEADER_LINES = 1
# big-ring cases: the extracted model walks a list per operation (about n steps), one lapped case with n = 3000 takes
# several seconds there, and a search case with n = 65537 has over a million lines; the limits only bound how long a
# silent driver is waited for
CASE_TIMEOUT = 30.0
MODEL_CASE_TIMEOUT = 120.0
RULE = ("exhaustive timelines (gaps from {0,1,t/2,t-1,t,t+1,2t}) for n in 1..4 through check_and_update and "
        "check_and_force_update on the ns and tick controllers, plus seeded random long mixed-op timelines, "
        "big rings (n = 1023, 1024, 1025, 3000 and every integer literal of the controllers' C text +-1) lapped at "
        "least twice by uneven traffic (irregular window at the limit, bursty overload, idle gaps of about t, bursts "
        "of n+1) through the plain, forced-update, mixed-op and tick variants, tick windows of 4..60 s at 2..3.5 GHz, "
        "and rejected inits; a case is non-trivial when it contains both an admitted and a refused request; distinct = "
        "distinct script text")
TRUSTED_BASE = [
    "leaf translator lib/leaftrans.py (clang 14 JSON AST -> Gallina over Z, unsigned wrap explicit) for muggle_flow_ctl_check/_update and the fast variants: obligations gen_*_matches_model tie the C text of these four functions to the model directly",
    "call-level translator lib/leafcalls.py (same AST; callees of the library inlined statement by statement, nested struct members, clock_gettime / muggle_rdtscp as oracles consuming a list of clock readings, fixed signature = the modelled struct fields, range-check lists for signed arithmetic) for muggle_time_counter_start/_end/_interval_ns, muggle_flow_ctl_get_curr_elapsed/_check_and_update/_check_and_force_update and the fast equivalents: obligations gen_time_counter_matches_model, gen_ns_calls_match_model, gen_fast_calls_match_model, gen_*_no_signed_overflow",
    "modelled, not verified: the clock (clock_gettime is wrapped to a scenario clock that advances by a case-chosen step at EVERY read, with a case-chosen base including the nanosecond part; monotonic clock ids deliver it, any other id runs backwards; muggle_rdtscp is supplied by the driver the same way); (int64_t)tick_freq of the double parameter is taken as truncation of the decimal text by the OCaml driver",
    "muggle_flow_ctl_init / muggle_fast_flow_ctl_init (malloc, memset, fill loop) are tied by the differential run and the monitor only (rings up to n = 4100 against the extracted model, n = 65539 against the monitor); int64 overflow outside the stated magnitude bound is not modelled",
]
ASSUMPTIONS = ["non-decreasing request timeline (the property's quantifier); |now|, t * unit, init_forward * unit < 2^62, and "
               "t * 10^9 < 2^62 for the tick controller too (muggle_fast_flow_ctl_init also stores the nanosecond window); "
               "0 <= tick_freq < 2^63 (the double is truncated by (int64_t)tick_freq); clock readings (base + now) < 2^63"]

NS = 1000000000

LEAVES = [("muggle/c/time/flow_controller.c", "muggle_flow_ctl_check"),
          ("muggle/c/time/flow_controller.c", "muggle_flow_ctl_update"),
          ("muggle/c/time/fast_flow_controller.c", "muggle_fast_flow_ctl_check"),
          ("muggle/c/time/fast_flow_controller.c", "muggle_fast_flow_ctl_update")]


TC = "muggle/c/time/time_counter.c"
FC = "muggle/c/time/flow_controller.c"
FFC = "muggle/c/time/fast_flow_controller.c"
# the modelled state, in the fixed order of arguments and results of the call-level generated terms
TS4 = ["start_ts_tv_sec", "start_ts_tv_nsec", "end_ts_tv_sec", "end_ts_tv_nsec"]
SIG_TC = [("f_" + x, False) for x in TS4]
SIG_NS = [("f_arr", True), ("f_cursor", False), ("f_n", False), ("f_t", False)] + [("f_tc_" + x, False) for x in TS4]
SIG_FAST = [("f_arr", True), ("f_cursor", False), ("f_n", False), ("f_t_ticks", False), ("f_start_ticks", False)]
# (sources searched for bodies, function, signature, name of the generated term)
CALLS = [
    ([TC], "muggle_time_counter_start", SIG_TC, None),
    ([TC], "muggle_time_counter_end", SIG_TC, None),
    ([TC], "muggle_time_counter_interval_ns", SIG_TC, None),
    ([FC, TC], "muggle_flow_ctl_get_curr_elapsed", SIG_NS, None),
    ([FC, TC], "muggle_flow_ctl_check_and_update", SIG_NS, None),
    ([FC, TC], "muggle_flow_ctl_check_and_force_update", SIG_NS, None),
    ([FFC], "muggle_fast_flow_ctl_get_curr_elapsed", SIG_FAST, None),
    ([FFC], "muggle_fast_flow_ctl_check_and_update", SIG_FAST, None),
    ([FFC], "muggle_fast_flow_ctl_check_and_force_update", SIG_FAST, None),
    # the four leaves once more in the fixed-signature form, for their range-check lists (genc_*_chk)
    ([FC], "muggle_flow_ctl_check", SIG_NS, "genc_muggle_flow_ctl_check"),
    ([FC], "muggle_flow_ctl_update", SIG_NS, "genc_muggle_flow_ctl_update"),
    ([FFC], "muggle_fast_flow_ctl_check", SIG_FAST, "genc_muggle_fast_flow_ctl_check"),
    ([FFC], "muggle_fast_flow_ctl_update", SIG_FAST, "genc_muggle_fast_flow_ctl_update"),
]


def gen_params(ctx):
    """Second tie (DESIGN.md 4.4): the four leaf functions are re-translated from the C text
    (clang JSON AST) into Gallina on every run; Properties_C19.v proves them equal to the model.
    The clock-reading entry points, get_curr_elapsed and the time counter go through lib/leafcalls.py
    (calls inlined, clock reads taken from a list of readings, fixed signature, range-check lists)."""
    import os
    import leaftrans as L
    import leafcalls as LC
    V.gen_config_header()
    flags = ["-std=gnu11", "-I" + V.REPO, "-I" + V.GEN_INC, "-DNDEBUG"]
    out = ["(* generated by lib/props/c19.py + lib/leaftrans.py + lib/leafcalls.py from the C text of the flow controllers and the time counter on this run; do not edit *)",
           "From MV Require Import Lib.Leaf C19.GenLib.", "From Coq Require Import List.", "Local Open Scope Z_scope.", ""]
    for src, name in LEAVES:
        try:
            out.append(L.translate(os.path.join(V.REPO, src), name, flags)[0])
        except L.LeafError as e:
            out.append("(* translator error for %s: %s *)\n" % (name, e))
    for srcs, name, sig, gname in CALLS:
        try:
            out.append(LC.translate_call([os.path.join(V.REPO, x) for x in srcs], name, flags, sig, gname=gname)[0])
        except L.LeafError as e:
            out.append("(* translator error for %s: %s *)\n" % (name, e))
    return "\n".join(out)


def _ipart(freq):
    """(int64_t)tick_freq for the non-negative decimal text or number `freq`"""
    return int(str(freq).split(".")[0] or "0")


def _mk(name, kind, t, n, fwd, freq, ops, valid=True, base=None):
    """ops: (op, now) or (op, now, step); base: ns -> (sec, nsec) of the clock at creation, fast -> tick base"""
    head = "init %s %d %d %d" % (kind, t, n, fwd) + ((" %s" % freq) if kind == "fast" else "")
    if base is not None:
        head += (" %d %d" % base) if kind == "ns" else (" %d" % base)
    return V.Case(name, [head] + [" ".join([o[0]] + ["%d" % x for x in o[1:]]) for o in ops],
                  {"kind": kind, "t": t, "n": n, "fwd": fwd, "freq": _ipart(freq), "valid": valid})


def _rand_base(rng, kind):
    """clock value at creation: every nanosecond part (0, 1, 999999999: later readings borrow), small and large seconds"""
    if kind == "ns":
        return (rng.choice([0, 1, 7, 5000, 1700000000, 4000000000]),
                rng.choice([0, 1, 999999999, 999999999, 500000000, rng.below(1000000000)]))
    return rng.choice([0, 1, 777000000000, (1 << 62) + rng.below(1 << 20), rng.below(1 << 40)])


def corpus_cases(ctx):
    import os
    out = []
    d = os.path.join(V.VERIF, "corpus", "C19")
    if os.path.isdir(d):
        for f in sorted(os.listdir(d)):
            if f.endswith(".case"):
                out.append(V.Case.load(os.path.join(d, f)))
    return out + [
        _mk("corpus-boundary-gap-eq-t", "ns", 1, 1, 0, NS, [("cu", 0), ("cu", NS - 1), ("cu", NS), ("cu", 2 * NS - 1), ("cu", 2 * NS)]),
        _mk("corpus-force", "ns", 1, 2, 1, NS, [("cfu", 0), ("cfu", 1), ("cfu", 2), ("cfu", NS + 1), ("cfu", NS + 2), ("cfu", NS + 3)]),
        _mk("corpus-init-n0", "ns", 1, 0, 0, NS, [("cu", 1)]),
        _mk("corpus-init-t0", "fast", 0, 3, 0, 1000, [("cu", 1)]),
    ]


def generate(rng, tier):
    cases = []
    L = 4 if tier == "quick" else 5
    for kind, unit in (("ns", NS), ("fast", 3)):
        for n in (1, 2, 3, 4):
            for t in ((1,) if tier == "quick" else (1,)):
                T = t * unit
                gaps = sorted(set([0, 1, T // 2, T - 1, T, T + 1, 2 * T]))
                fwds = (0, t) if tier == "quick" else (0, t, 2 * t)
                for fwd in fwds:
                    for opk in ("cu", "cfu"):
                        if kind == "fast" and n > 2 and tier == "quick":
                            continue
                        base = _rand_base(rng, kind)
                        for combo in itertools.product(range(len(gaps)), repeat=L):
                            # the clock advances by `step` at every read inside a call (0: frozen, as in the first rounds)
                            step = (0, T // 2, 1)[sum(combo) % 3]
                            now, ops = 0, []
                            for g in combo:
                                now += gaps[g]
                                ops.append((opk, now, step) if step else (opk, now))
                            cases.append(_mk("ex-%s-n%d-t%d-f%d-%s-%s" % (kind, n, t, fwd, opk, "".join(map(str, combo))),
                                             kind, t, n, fwd, unit, ops, base=base))
    # random long mixed timelines
    nrand = 300 if tier == "quick" else 6000
    for i in range(nrand):
        kind = rng.choice(["ns", "fast"])
        unit = NS if kind == "ns" else rng.choice([1, 2, 7, 1000, 2400000000, "1000.5", "7.25", "2400000000.75", "2.999"])
        t = rng.choice([1, 1, 2, 3, 10])
        n = rng.choice([1, 2, 3, 4, 5, 8, 16, 33])
        fwd = rng.choice([0, 0, 1, t, t + 1, 100])
        T = t * _ipart(unit)
        stepped = rng.chance(1, 2)
        now, ops = 0, []
        for _ in range(rng.range(1, 60 if tier == "quick" else 400)):
            g = rng.choice([0, 0, 1, T // 2, T - 1, T, T + 1, 2 * T, rng.below(T + 2), rng.below(max(1, T // max(1, n)) + 1)])
            now += g
            op = rng.choice(["cu", "cu", "cu", "cfu", "check", "update"])
            if stepped and op in ("cu", "cfu"):
                st = rng.choice([0, 1, 1, T // 2, T - 1, T, rng.below(T + 2)])
                ops.append((op, now, st))
                now += st          # the next request comes after this call has returned
            else:
                ops.append((op, now))
        cases.append(_mk("rnd-%d" % i, kind, t, n, fwd, unit, ops, base=_rand_base(rng, kind) if rng.chance(3, 4) else None))
    # tick windows of several seconds on GHz tick sources (t * 10^9 * tick_freq is beyond 2^63 there: the tick window
    # must be formed from seconds * tick_freq, never through the nanosecond window)
    cases += _ghz_cases(rng, 24 if tier == "quick" else 400)
    # big rings around the structural thresholds of the C text, lapped at least twice by uneven traffic
    cases += _lapped_cases(rng, tier)
    # magnitudes next to the stated bound |now|, t * unit, init_forward * unit < 2^62
    cases += _bound_cases(rng, 40 if tier == "quick" else 600)
    # rejected / degenerate inits
    for i, (t, n) in enumerate([(0, 1), (-1, 3), (1, 0), (0, 0)]):
        cases.append(_mk("badinit-%d" % i, "ns" if i % 2 else "fast", t, n, 0, 5, [("cu", 1), ("check", 2)]))
    return cases


# --------------------------------------------------------------------------
# big rings, lapped, uneven traffic

C_TEXT = ["muggle/c/time/flow_controller.c", "muggle/c/time/fast_flow_controller.c",
          "muggle/c/time/flow_controller.h", "muggle/c/time/fast_flow_controller.h"]
BASE_N = (1023, 1024, 1025, 3000)
WIDTH_N = (257, 65537)      # a counter, cursor or high-water mark narrowed to 8 / 16 bits (search only)
MAX_STRUCT_N = 70000


def c_text_thresholds():
    """Ring sizes at which the C text of the controllers may change its behaviour: every integer literal of
    flow_controller.[ch] / fast_flow_controller.[ch] (comments removed; #define bodies included, so a named
    threshold counts) with its two neighbours, 2^k (+-1) for every literal k used as a shift count, plus the
    fixed 1023, 1024, 1025, 3000.  Deliberately a superset of 'literals compared with n or the cursor': a mask
    (& 1023), a remainder (% 4096) or a chunk size is a threshold as well.  Never raises."""
    import os
    import re
    vals = set()
    for rel in C_TEXT:
        try:
            txt = open(os.path.join(V.REPO, rel), errors="replace").read()
        except OSError:
            continue
        txt = re.sub(r"/\*.*?\*/", " ", txt, flags=re.S)
        txt = re.sub(r"//[^\n]*", " ", txt)
        txt = re.sub(r'"(?:[^"\\\n]|\\.)*"', ' ', txt)
        for m in re.finditer(r"(?<![\w.])(0[xX][0-9a-fA-F]+|\d+)[uUlL]*(?![\w.])", txt):
            try:
                v = int(m.group(1), 0) if not re.fullmatch(r"0\d+", m.group(1)) else int(m.group(1), 8)
            except ValueError:
                continue
            vals.add(v)
            if 2 <= v <= 16 and re.search(r"(<<|>>)\s*\(?\s*$", txt[max(0, m.start() - 8):m.start()]):
                vals.add(1 << v)
    out = set(BASE_N)
    for v in vals:
        for d in (-1, 0, 1):
            if 2 <= v + d <= MAX_STRUCT_N:
                out.add(v + d)
    return sorted(out)


def _composition(rng, total, parts):
    """`parts` non-negative sizes summing to `total`, deliberately uneven"""
    cuts = sorted(rng.below(total + 1) for _ in range(parts - 1))
    return [b - a for a, b in zip([0] + cuts, cuts + [total])]


def _lapped_ops(rng, n, T, opk, ovl, windows, light=False):
    """One irregular window exactly at the limit (n requests: about three quarters at individually drawn instants,
    so that neighbouring slots hold different stamps, the rest in a few bursts), sustained bursty overload (ovl
    times the permitted rate) over `windows` windows so that the ring is lapped at least twice, idle gaps of about
    t each followed by a burst of n+1 at one instant and probes at t-1 and t after it, a second irregular window,
    overload again, a long idle gap and a last burst.  light: only the irregular window, the overload, an idle gap
    of about t and one burst (about (3 + ovl * windows) * n operations).  opk: cu | cfu | mix."""
    ops = []

    def emit(cnt, now):
        if opk == "mix":
            for _ in range(cnt):
                ops.append((rng.choice(["cu", "cu", "cu", "cfu", "check", "update"]), now))
        else:
            ops.extend([(opk, now)] * cnt)

    def irregular(start):
        k = rng.range(2, 6)
        nb = n // 4
        inst = [start + rng.below(T) for _ in range(n - nb)]
        for sz in _composition(rng, nb, k):
            inst += [start + rng.below(T)] * sz
        inst.sort()
        for at in inst:
            emit(1, at)
        last = max(inst[-1], start + T - 1)
        emit(2, last)
        return last

    def overload(start, nwin2):
        """nwin2 half-windows of overload"""
        total = max(1, ovl * n * nwin2 // 2)
        span = max(1, nwin2 * T // 2)
        j = 0
        while j < total:
            b = min(total - j, rng.range(1, 2 * ovl + 1) if rng.chance(7, 8) else rng.range(1, 6 * ovl))
            emit(b, start + (j * span) // total)
            j += b
        return start + span

    now = irregular(0)
    now = overload(now, 2 * windows)
    if light:
        now += rng.choice([T - 1, T, T + 1])
        emit(n + 1, now)
        emit(2, now + T - 1)
        emit(2, now + T)
        return ops
    for g in rng.shuffle([T + 1, T - 1, T]):
        now += g
        emit(n + 1, now)
        now += T - 1
        emit(2, now)
        now += 1
        emit(2, now)
    now = irregular(now + T + rng.below(T + 1))
    now = overload(now, 3)
    now += 2 * T
    emit(n + 1, now)
    return ops


LAP_VARIANTS = [("ns", "cu"), ("ns", "cfu"), ("fast", "cu"), ("fast", "cfu"), ("ns", "mix"), ("fast", "mix")]


def _lapped_case(rng, tag, n, kind, opk, ovl, windows, light=False):
    unit = NS if kind == "ns" else rng.choice([1000, 1000, 7, 2400000000, 3000000000])
    t = rng.choice([1, 1, 2, 3]) if unit < NS else rng.choice([1, 1, 2, 3, 10])
    fwd = rng.choice([t, t, t + 1, 100, 0])
    ops = _lapped_ops(rng, n, t * unit, opk, ovl, windows, light)
    return _mk("lap-%s-%s-n%d-%s" % (tag, kind, n, opk), kind, t, n, fwd, unit, ops)


def _lapped_cases(rng, tier, for_search=False):
    """the model driver walks a list per operation (cost ~ n per op), so the generated tiers keep n <= 4100 and
    the quick tier a light load; search() runs the implementation and the monitor only and takes every threshold"""
    out = []
    ths = c_text_thresholds()
    if for_search:
        for n in sorted(set(ths) | set(WIDTH_N)):
            big = n > 8192
            for vi, (kind, opk) in enumerate(LAP_VARIANTS):
                if big and (opk == "mix" or (vi + n) % 2):
                    continue
                out.append(_lapped_case(rng, "s", n, kind, opk, 2 if big else 6, 2 if big else 3))
        return out
    if tier == "quick":
        for n in [x for x in ths if x <= 1100]:
            for kind, opk in LAP_VARIANTS:
                out.append(_lapped_case(rng, "q", n, kind, opk, 4, 2))
        for n in [x for x in ths if 1100 < x <= 4100][:7]:
            for kind, opk in LAP_VARIANTS[:4]:
                out.append(_lapped_case(rng, "q", n, kind, opk, 2, 2, light=True))
    else:
        for n in [x for x in ths if x <= 4100]:
            for kind, opk in LAP_VARIANTS:
                for r in range(2 if n <= 2048 else 1):
                    out.append(_lapped_case(rng, "t%d" % r, n, kind, opk, 6, 3))
    return out


B62 = 1 << 62


def _bound_cases(rng, count):
    """time_range_sec and init_forward_sec up to 2^31 - 1 and up to the largest value with t * unit < 2^62, request
    times up to 2^62 - 1: the largest intermediates of the code (t * 10^9, -init_forward * 10^9, now - arr[cursor],
    (end.tv_sec - start.tv_sec) * 10^9) are then just below 2^63"""
    out = []
    for i in range(count):
        kind = rng.choice(["ns", "fast"])
        unit = NS if kind == "ns" else rng.choice([1, 1000, 3000000000, "2400000000.75"])
        u = _ipart(unit)
        tmax = (B62 - 1) // max(u, NS)       # the tick controller stores the nanosecond window t * 10^9 as well
        t = rng.choice([min(tmax, (1 << 31) - 1), tmax, max(1, tmax - 1), min(tmax, 1 << 31), min(tmax, (1 << 32) + 5)])
        fwd = rng.choice([0, t, min(tmax, (1 << 31) - 1), tmax, 1])
        n = rng.choice([1, 2, 3])
        T = t * u
        now, ops = rng.choice([0, 0, B62 - 1 - T if T < B62 else 0]), []
        for _ in range(rng.range(3, 14)):
            g = rng.choice([0, 1, T // 2, T - 1, T, T + 1, B62 - 1 - now])
            if now + g >= B62:
                g = B62 - 1 - now
            now += g
            op = rng.choice(["cu", "cu", "cfu", "check", "update"])
            if op in ("cu", "cfu") and rng.chance(1, 3) and now + 2 < B62:
                ops.append((op, now, 1))
                now += 1
            else:
                ops.append((op, now))
        base = (rng.choice([0, 5000]), rng.choice([0, 999999999])) if kind == "ns" else rng.choice([0, 777000000000])
        out.append(_mk("bound-%d" % i, kind, t, n, fwd, unit, ops, base=base))
    return out


def _wide_ring_cases():
    """n just beyond 2^16 with the first lap made visible: with init_forward = 0 every request of the first lap must
    be refused (the virtual initial requests are at the creation instant), with init_forward = t every one must be
    admitted; forced update moves the cursor over every slot.  Implementation + monitor only (the extracted model
    needs about n steps per operation)."""
    out = []
    n = 65536 + 3
    for kind, unit in (("ns", NS), ("fast", 1000)):
        out.append(_mk("wide-%s-fwd0" % kind, kind, 1, n, 0, unit, [("cfu", 5)] * (n + 2) + [("cfu", unit + 5)] * 3))
        out.append(_mk("wide-%s-fwd1" % kind, kind, 1, n, 1, unit, [("cfu", 0)] * (n + 2) + [("cu", unit - 1), ("cu", unit)]))
    return out


def extra_violations(ctx, stats):
    """cases that are too long for the extracted model: implementation + independent monitor only"""
    import os
    out = []
    cases = _wide_ring_cases()
    ri = ctx.run_impl(cases)
    for c in cases:
        a = ri.get(c.name, {"lines": [], "status": "crash", "detail": "no output"})
        stats["evaluations"] += 1
        tally(stats["dist"], c, a["lines"])
        msg = ("implementation %s: %s" % (a["status"], a["detail"])) if a["status"] != "ok" else monitor(c, a["lines"])
        if msg:
            small = ctx.shrink(c, lambda cc: bool(ctx.monitor_fails(cc)))
            path = small.save(os.path.join(ctx.replay_dir, "%s.case" % small.name),
                              header=["property=%s seed=%d tier=%s" % (ID, ctx.seed, ctx.tier), "monitor: %s" % msg])
            out.append((path, msg))
            break
    return out


def _ghz_cases(rng, count):
    out = []
    for i in range(count):
        freq = rng.choice([2000000000, 2400000000, 3000000000, 3500000000])
        t = rng.choice([4, 5, 10, 60])
        n = rng.choice([1, 2, 3, 5, 100])
        fwd = rng.choice([0, t, 60, 3600])
        T = t * freq
        now, ops = 0, []
        for _ in range(rng.range(4, 60)):
            now += rng.choice([0, 1, T // 2, T - 1, T, T + 1, rng.below(T + 2), rng.below(max(1, T // n) + 1)])
            ops.append((rng.choice(["cu", "cu", "cu", "cfu", "check", "update"]), now))
        out.append(_mk("ghz-%d" % i, "fast", t, n, fwd, freq, ops))
    return out


search_budget = 4000


def _big_n_cases():
    """limits just beyond 2^8 and 2^16: a cursor or counter narrowed to a smaller integer type only shows
    when more than that many requests are recorded inside one window"""
    out = []
    for kind, unit in (("ns", NS), ("fast", 1000)):
        for n in (259, 65539):
            for opk in ("cu", "cfu"):
                ops = [(opk, 0)] * (n + 2) + [(opk, unit - 1), (opk, unit), (opk, unit)] + [(opk, unit + 1)] * 3
                out.append(_mk("bign-%s-%d-%s" % (kind, n, opk), kind, 1, n, 1, unit, ops))
    return out


def search(rng, diverging, tier):
    """Extra cases aimed at the window boundary, used when a proof or the correspondence broke."""
    out = []
    for i in range(search_budget):
        kind = rng.choice(["ns", "fast"])
        unit = NS if kind == "ns" else rng.choice([1, 3, 1000])
        t, n, fwd = rng.choice([1, 2]), rng.choice([1, 2, 3, 4]), rng.choice([0, 1, 2])
        T = t * unit
        now, ops = 0, []
        stepped = rng.chance(1, 2)
        for _ in range(rng.range(2, 14)):
            now += rng.choice([0, 1, T // 2, T - 1, T, T + 1])
            op = rng.choice(["cu", "cu", "cfu", "check", "update"])
            if stepped and op in ("cu", "cfu"):
                st = rng.choice([1, T // 2, T - 1, T])
                ops.append((op, now, st))
                now += st
            else:
                ops.append((op, now))
        out.append(_mk("search-%d" % i, kind, t, n, fwd, unit, ops, base=_rand_base(rng, kind) if rng.chance(1, 2) else None))
    # short cases first (the first failing case in this order is minimised and becomes the replay), then the
    # wide-counter family, then big rings around every threshold of the C text, smallest ring first
    out += _ghz_cases(rng, 200)
    out += _bound_cases(rng, 300)
    out += _big_n_cases()
    out += _lapped_cases(rng, tier, for_search=True)
    return out


def monitor(case, lines):
    """Independent oracle: sliding-window count over recorded requests."""
    m = case.meta
    if not m or "kind" not in m:
        m = _meta_from_lines(case)
    if not lines:
        return "no output"
    ok_expected = m["n"] > 0 and m["t"] > 0
    if lines[0] != ("init ok" if ok_expected else "init fail"):
        return "init returned %r, expected %s" % (lines[0], "ok" if ok_expected else "fail")
    if not ok_expected:
        return None
    unit = NS if m["kind"] == "ns" else _ipart(m["freq"])
    T = m["t"] * unit
    import bisect
    H = [-m["fwd"] * unit] * m["n"]      # recorded request times, kept sorted (the timeline is non-decreasing)
    last = -m["fwd"] * unit
    for k, ln in enumerate(case.lines[1:], 1):
        w = ln.split()
        op, a = w[0], int(w[1])       # a third word is the clock's advance per read during the call: the request time is the first reading
        if a < last or (k == 1 and a < H[0]):
            return None   # not a non-decreasing timeline: outside the property
        last = a
        inwin = len(H) - bisect.bisect_right(H, a - T)      # recorded requests (virtual initial ones included) in (a - T, a]
        room = inwin < m["n"]
        got = (lines[k].split() or [""])[0] if k < len(lines) else None     # a second word is the clock after the call
        if op == "update":
            H.append(a)
            exp = "-"
        elif op == "check":
            exp = "1" if room else "0"
        elif op == "cu":
            exp = "1" if room else "0"
            if room:
                H.append(a)
        else:
            exp = "1" if room else "0"
            H.append(a)
        if got != exp:
            return "op %d (%s): implementation answered %r, window specification says %r (n=%d, t=%d, %d recorded in window before this request)" % (
                k, ln, got, exp, m["n"], T, inwin)
    return None


def _meta_from_lines(case):
    w = case.lines[0].split()
    return {"kind": w[1], "t": int(w[2]), "n": int(w[3]), "fwd": int(w[4]),
            "freq": _ipart(w[5]) if (w[1] == "fast" and len(w) > 5) else (1 if w[1] == "fast" else NS)}


def _verdicts(lines):
    return [(x.split() or [""])[0] for x in lines]


def nontrivial_key(case, lines):
    lines = _verdicts(lines)
    if "1" in lines and "0" in lines:
        return "\n".join(case.lines)
    return None


def tally(dist, case, lines):
    m = case.meta or {}
    for k in ("kind", "n"):
        key = "%s=%s" % (k, m.get(k))
        dist[key] = dist.get(key, 0) + 1
    dist["ops"] = dist.get("ops", 0) + len(case.lines) - 1
    dist["ops_with_advancing_clock"] = dist.get("ops_with_advancing_clock", 0) + sum(1 for x in case.lines[1:] if len(x.split()) > 2)
    if lines and len(case.lines[0].split()) > (6 if m.get("kind") == "fast" else 5):
        dist["explicit_clock_base"] = dist.get("explicit_clock_base", 0) + 1
    lines = _verdicts(lines[:1]) and [lines[0]] + _verdicts(lines[1:]) if lines else lines
    dist["admitted"] = dist.get("admitted", 0) + lines.count("1")
    dist["refused"] = dist.get("refused", 0) + lines.count("0")
    if lines and lines[0] == "init fail":
        dist["init_rejected"] = dist.get("init_rejected", 0) + 1


MANIFEST = {
    "level_text": ("Unbounded Coq theorems over an executable model of the circular-array controller: for every n, t, "
                   "init_forward and every non-decreasing timeline the verdict equals the sliding-window specification "
                   "(both directions), no interval of length t holds more than n admitted, forced update records all, "
                   "tick controller agrees under scaling, every slot holds its last stamp after any number of laps, every "
                   "clock-reading call reads the clock once and equals the explicit-timestamp operation, the time counter's "
                   "interval is the difference of the readings for every nanosecond part, stamps stay below 2^62 and the "
                   "generated C functions have no signed overflow under that bound.  Model tied to the C code by a differential run of the extracted "
                   "model against flow_controller.c / fast_flow_controller.c compiled from the working tree, plus an "
                   "independent window-count monitor."),
    "design_ref": "DESIGN.md section 6 / C19, Appendix A.1",
    "level_note": ("Trusted: Coq kernel, extraction (ExtrOcamlBasic), the differential harness; clock is a scenario clock "
                   "(clock_gettime wrapped, rdtscp supplied); int64 overflow excluded by the magnitude bound."),
    "technique": "Coq proof of refinement to a sliding-window spec (induction over op lists), per-slot ring theorem, call-level model with an advancing clock, C-text ties by two AST translators with range-check obligations + extracted-model differential run",
}
