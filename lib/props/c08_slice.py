"""C08 — slicer for the integer content of shm_ring_buffer.c (second tie, DESIGN.md 4.4).

The functions of shm_ring_buffer.c are not leaves: they load / store the cursors through the
atomic builtins, write message headers through pointers into the data area and (after a
refactoring) call file-local helpers with several statements.  This module turns the clang JSON
AST of a NAMED function of the current C text into a loop-free integer function that the shared
translator lib/leaftrans.py accepts, without looking at the shape of the text:

  * __atomic_load_n(&rb->f, mo)          ->  rb->f            (value of the field)
    __atomic_store_n(&rb->f, v, mo)      ->  rb->f = v
  * members reached through the anonymous unions of muggle_shm_ringbuf_t  ->  rb->f
  * a pointer to a message header is followed back to the line it was computed from
    ((muggle_shm_ringbuf_block_t *)(rb + 1) + pos, through muggle_shm_ringbuf_get_data or any
    single-return helper, through locals, helper parameters and the fields cached_w_hdr /
    cached_r_hdr); the line is materialised in an integer local at the point of computation;
        hdr->n_bytes / hdr->n_cachelines  ->  rb->hN[line] / rb->hC[line]   (two array fields)
        rb->cached_w_hdr = hdr            ->  rb->w_hdr_line = line         (same for cached_r_hdr)
  * calls of functions defined in the same file are inlined in continuation-passing style
    (early returns, several statements, value used in a condition / initialiser / return);
    arguments are evaluated once into fresh locals; locals are renamed apart
  * an out-parameter `uint32_t *p`:  *p = v -> rb->out_p = v ;  `if (p)` -> taken
  * a function returning a pointer is projected to an integer: NULL -> 0, a payload pointer
    (header + 1) -> line + 1

Anything else raises LeafError (reported as a broken obligation, never silently skipped)."""
import copy
import re
import leaftrans as L

RING = "muggle_shm_ringbuf_t"
HDRT = "muggle_shm_ringbuf_data_hdr_t"
BLOCKT = "muggle_shm_ringbuf_block_t"
CACHED = {"cached_w_hdr": "w_hdr_line", "cached_r_hdr": "r_hdr_line"}
HFIELD = {"n_bytes": "hN", "n_cachelines": "hC"}


def qt(n):
    return n.get("type", {}).get("qualType", "")


def strip_all(n):
    while n.get("kind") in ("ParenExpr", "ImplicitCastExpr", "CStyleCastExpr") and \
            (n.get("kind") == "ParenExpr" or n.get("castKind") in ("NoOp", "LValueToRValue", "BitCast")):
        n = n["inner"][-1]
    return n


def lit(v, ty="int"):
    return {"kind": "IntegerLiteral", "value": str(v), "type": {"qualType": ty}}


def var(nm, ty="uint32_t"):
    return {"kind": "ImplicitCastExpr", "castKind": "LValueToRValue", "type": {"qualType": ty},
            "inner": [{"kind": "DeclRefExpr", "referencedDecl": {"name": nm, "kind": "VarDecl"}, "type": {"qualType": ty}}]}


def lvar(nm, ty="uint32_t"):
    return {"kind": "DeclRefExpr", "referencedDecl": {"name": nm, "kind": "VarDecl"}, "type": {"qualType": ty}}


def decl(nm, ty, init):
    return {"kind": "DeclStmt", "inner": [{"kind": "VarDecl", "name": nm, "type": {"qualType": ty}, "inner": [init]}]}


def assign(lhs, rhs, ty="uint32_t"):
    return {"kind": "BinaryOperator", "opcode": "=", "type": {"qualType": ty}, "inner": [lhs, rhs]}


class Slicer:
    def __init__(self, src, cflags, sizeofs=None):
        self.src, self.cflags = src, cflags
        self.sizeofs = sizeofs or {}      # type name -> sizeof, as printed by the params program of this run
        self.cache = {}
        self.uid = 0
        self.ring = None
        self.depth = 0

    # ---- helpers -------------------------------------------------------
    def fn(self, name):
        if name not in self.cache:
            try:
                self.cache[name] = L.load_function(self.src, name, self.cflags)
            except L.LeafError:
                self.cache[name] = None
        return self.cache[name]

    def fresh(self, base):
        self.uid += 1
        return "%s__%d" % (re.sub(r"\W", "_", base), self.uid)

    def ring_ref(self):
        return {"kind": "ImplicitCastExpr", "castKind": "LValueToRValue", "type": {"qualType": RING + " *"},
                "inner": [{"kind": "DeclRefExpr", "referencedDecl": {"name": self.ring, "kind": "ParmVarDecl"},
                           "type": {"qualType": RING + " *"}}]}

    def field(self, name, ty="uint32_t"):
        return {"kind": "MemberExpr", "name": name, "type": {"qualType": ty}, "inner": [self.ring_ref()]}

    def elem(self, arr, idx):
        return {"kind": "ArraySubscriptExpr", "type": {"qualType": "uint32_t"},
                "inner": [{"kind": "MemberExpr", "name": arr, "type": {"qualType": "uint32_t *"}, "inner": [self.ring_ref()]}, idx]}

    def is_ring(self, n, sub):
        n = strip_all(n)
        return n.get("kind") == "DeclRefExpr" and sub.get(n["referencedDecl"]["name"], (None,))[0] == "ring"

    def body_of(self, f):
        return [c for c in f["inner"] if c.get("kind") == "CompoundStmt"][0]

    def single_return(self, f):
        ss = [x for x in self.body_of(f).get("inner", []) if x.get("kind") != "NullStmt"]
        if len(ss) == 1 and ss[0].get("kind") == "ReturnStmt" and ss[0].get("inner"):
            return ss[0]["inner"][0]
        return None

    def callee(self, call):
        c = call["inner"][0]
        while c.get("kind") in ("ImplicitCastExpr", "ParenExpr"):
            c = c["inner"][0]
        if c.get("kind") != "DeclRefExpr":
            raise L.LeafError("indirect call")
        return c["referencedDecl"]["name"]

    def local_call(self, n):
        """a CallExpr of a function defined in this file that is not a single return expression"""
        if n.get("kind") != "CallExpr":
            return False
        f = self.fn(self.callee(n))
        return f is not None and self.single_return(f) is None

    def find_hoist(self, n):
        if self.local_call(n):
            return n
        for c in n.get("inner", []):
            r = self.find_hoist(c)
            if r is not None:
                return r
        return None

    def replace_node(self, root, old, new):
        if root is old:
            return new
        if "inner" in root:
            root = dict(root)
            root["inner"] = [self.replace_node(c, old, new) for c in root["inner"]]
        return root

    def bind_args(self, f, call, sub):
        """-> (pre statements, substitution for the callee)"""
        parms = [c for c in f.get("inner", []) if c.get("kind") == "ParmVarDecl"]
        args = call["inner"][1:]
        if len(parms) != len(args):
            raise L.LeafError("argument count mismatch calling " + f["name"])
        pre, subh = [], {}
        for p, a in zip(parms, args):
            t = qt(p)
            if L.ctype(p) is not None:
                nm = self.fresh(p["name"])
                pre.append(decl(nm, t, self.rx(a, sub)))
                subh[p["name"]] = ("var", nm, t)
            elif RING in t:
                if not self.is_ring(a, sub):
                    raise L.LeafError("ring pointer argument is not the ring")
                subh[p["name"]] = ("ring",)
            elif HDRT in t or t.replace(" ", "") == "void*":
                nm = self.fresh("line")
                pre.append(decl(nm, "uint32_t", self.line_of(a, sub)))
                subh[p["name"]] = ("hdr", nm)
            elif t.endswith("*") and L.ctype({"type": {"qualType": t[:-1].strip()}}) is not None:
                a0 = strip_all(a)
                if a0.get("kind") == "DeclRefExpr" and sub.get(a0["referencedDecl"]["name"], (None,))[0] == "outp":
                    subh[p["name"]] = sub[a0["referencedDecl"]["name"]]
                else:
                    raise L.LeafError("unsupported out-parameter argument")
            else:
                raise L.LeafError("unsupported parameter type %s in %s" % (t, f["name"]))
        return pre, subh

    # ---- pointer to a header -> line expression ---------------------------
    def is_data_base(self, n, sub):
        """(muggle_shm_ringbuf_block_t *)(rb + 1)"""
        if BLOCKT not in qt(n):
            return False
        n = strip_all(n)
        if n.get("kind") == "BinaryOperator" and n.get("opcode") == "+":
            a, b = n["inner"]
            return self.is_ring(a, sub) and strip_all(b).get("kind") == "IntegerLiteral" and strip_all(b)["value"] == "1"
        return False

    def line_of(self, n, sub):
        n0 = strip_all(n)
        k = n0.get("kind")
        if k == "DeclRefExpr":
            v = sub.get(n0["referencedDecl"]["name"])
            if v and v[0] == "hdr" and v[1] is not None:
                return var(v[1])
            raise L.LeafError("pointer variable %s does not point to a header" % n0["referencedDecl"]["name"])
        if k == "MemberExpr" and n0.get("name") in CACHED and self.is_ring(self.member_base(n0), sub):
            return self.field(CACHED[n0["name"]])
        if k == "BinaryOperator" and n0.get("opcode") == "+":
            a, b = n0["inner"]
            if self.is_data_base(a, sub):
                return self.rx(b, sub)
            if self.is_data_base(b, sub):
                return self.rx(a, sub)
        if k == "CallExpr":
            f = self.fn(self.callee(n0))
            e = self.single_return(f) if f is not None else None
            if e is None:
                raise L.LeafError("pointer-valued call of %s cannot be followed" % self.callee(n0))
            parms = [c for c in f.get("inner", []) if c.get("kind") == "ParmVarDecl"]
            subh = {}
            for p, a in zip(parms, n0["inner"][1:]):
                if RING in qt(p):
                    if not self.is_ring(a, sub):
                        raise L.LeafError("ring pointer argument is not the ring")
                    subh[p["name"]] = ("ring",)
                elif L.ctype(p) is not None:
                    subh[p["name"]] = ("expr", self.rx(a, sub))
                else:
                    raise L.LeafError("unsupported parameter of pointer helper")
            return self.line_of(e, subh)
        raise L.LeafError("header pointer expression %s cannot be followed to a line" % k)

    def member_base(self, n):
        b = n["inner"][0]
        while strip_all(b).get("kind") == "MemberExpr" and strip_all(b).get("name", "") == "":
            b = strip_all(b)["inner"][0]
        return b

    # ---- expressions -----------------------------------------------------
    def rx(self, n, sub):
        k = n.get("kind")
        if k == "AtomicExpr":
            if len(n["inner"]) != 2:
                raise L.LeafError("atomic store used as a value")
            p = strip_all(n["inner"][0])
            if p.get("kind") != "UnaryOperator" or p.get("opcode") != "&":
                raise L.LeafError("atomic operand is not the address of a field")
            return {"kind": "ImplicitCastExpr", "castKind": "LValueToRValue", "type": n["type"],
                    "inner": [self.rx(p["inner"][0], sub)]}
        if k == "MemberExpr":
            b = self.member_base(n)
            if self.is_ring(b, sub):
                if n["name"] in CACHED:
                    raise L.LeafError("header pointer field used as an integer")
                return self.field(n["name"], qt(n))
            if n["name"] in HFIELD:
                return self.elem(HFIELD[n["name"]], self.line_of(b, sub))
            raise L.LeafError("unsupported member access ." + n.get("name", "?"))
        if k == "DeclRefExpr":
            nm = n["referencedDecl"]["name"]
            v = sub.get(nm)
            if v is None:
                return copy.deepcopy(n)
            if v[0] == "var":
                return lvar(v[1], v[2])
            if v[0] == "expr":
                return copy.deepcopy(v[1])
            if v[0] == "ring":
                return self.ring_ref()["inner"][0]
            raise L.LeafError("pointer variable %s used as an integer" % nm)
        if k in ("ImplicitCastExpr", "CStyleCastExpr") and n.get("castKind") == "PointerToBoolean":
            p = strip_all(n["inner"][-1])
            if p.get("kind") == "DeclRefExpr" and sub.get(p["referencedDecl"]["name"], (None,))[0] == "outp":
                return lit(1)
            raise L.LeafError("pointer tested as a condition")
        if k == "UnaryExprOrTypeTraitExpr":
            ty = n.get("argType", {}).get("qualType", "")
            if n.get("name") == "sizeof" and ty in self.sizeofs:
                return lit(self.sizeofs[ty], "unsigned long")
            raise L.LeafError("unsupported sizeof/alignof of " + ty)
        if k == "CallExpr":
            f = self.fn(self.callee(n))
            e = self.single_return(f) if f is not None else None
            if e is None:
                raise L.LeafError("call of %s in an expression cannot be inlined" % self.callee(n))
            parms = [c for c in f.get("inner", []) if c.get("kind") == "ParmVarDecl"]
            subh = {}
            for p, a in zip(parms, n["inner"][1:]):
                if RING in qt(p) and self.is_ring(a, sub):
                    subh[p["name"]] = ("ring",)
                elif L.ctype(p) is not None:
                    subh[p["name"]] = ("expr", self.rx(a, sub))
                elif HDRT in qt(p):
                    nm = None
                    subh[p["name"]] = ("hdrx", self.line_of(a, sub))
                else:
                    raise L.LeafError("unsupported parameter of helper " + f["name"])
            return self.rx(e, subh)
        out = dict(n)
        if "inner" in n:
            out["inner"] = [self.rx(c, sub) for c in n["inner"]]
        return out

    # ---- statements (continuation-passing) ----------------------------------
    def inline(self, call, sub, on_return):
        """inline a call of a file-local function; on_return(raw return expr | None, callee substitution) -> stmts"""
        f = self.fn(self.callee(call))
        if f is None:
            raise L.LeafError("call of %s: no definition in this file" % self.callee(call))
        self.depth += 1
        if self.depth > 12:
            raise L.LeafError("call nesting too deep")
        try:
            pre, subh = self.bind_args(f, call, sub)
            return pre + self.seq([self.body_of(f)], subh, lambda: on_return(None, subh), on_return)
        finally:
            self.depth -= 1

    def hoisted(self, stmt, R, sub, cont, retk):
        """stmt contains a call that needs statement-level inlining: evaluate it first into a fresh local"""
        call = self.find_hoist(stmt)
        f = self.fn(self.callee(call))
        rt = f["type"]["qualType"].split("(")[0].strip()
        tmp = self.fresh("ret_" + f["name"][-12:])

        def on_return(e, subh):
            sub2 = dict(sub)
            if rt == "void" or e is None:
                raise L.LeafError("void call used as a value")
            ty = "int" if rt in ("bool", "_Bool") else rt
            if L.ctype({"type": {"qualType": ty}}) is None:
                raise L.LeafError("helper %s returns %s inside an expression" % (f["name"], rt))
            pre = [decl(tmp, ty, self.rx(e, subh))]
            sub2[tmp] = ("var", tmp, ty)
            new = self.replace_node(stmt, call, lvar(tmp, ty))
            return pre + self.seq([new] + R, sub2, cont, retk)
        return self.inline(call, sub, on_return)

    def seq(self, stmts, sub, cont, retk):
        if not stmts:
            return cont()
        s, R = stmts[0], list(stmts[1:])
        k = s.get("kind")
        if k == "CompoundStmt":
            return self.seq(list(s.get("inner", [])) + R, sub, cont, retk)
        if k == "NullStmt":
            return self.seq(R, sub, cont, retk)
        if k == "ReturnStmt":
            e = s["inner"][0] if s.get("inner") else None
            if e is not None and self.local_call(strip_all(e)):
                # tail call: the callee's returns are the caller's returns
                return self.inline(strip_all(e), sub, lambda e2, subh: retk(e2, subh))
            if e is not None and self.find_hoist(e) is not None:
                return self.hoisted(s, [], sub, cont, retk)
            return retk(e, sub)
        if k == "IfStmt":
            c = s["inner"][0]
            c0 = strip_all(c)
            if c0.get("kind") == "DeclRefExpr" and sub.get(c0["referencedDecl"]["name"], (None,))[0] == "outp":
                # `if (out_param)`: the drivers always pass a place for the result
                return self.seq([s["inner"][1]] + R, sub, cont, retk)
            if self.find_hoist(c) is not None:
                return self.hoisted(s, R, sub, cont, retk)
            t = s["inner"][1]
            f = s["inner"][2] if len(s["inner"]) > 2 else None
            th = self.seq([t] + R, dict(sub), cont, retk)
            el = self.seq(([f] if f is not None else []) + R, dict(sub), cont, retk)
            return [{"kind": "IfStmt", "inner": [self.rx(c, sub), {"kind": "CompoundStmt", "inner": th},
                                                 {"kind": "CompoundStmt", "inner": el}]}]
        if k == "DeclStmt":
            if self.find_hoist(s) is not None:
                return self.hoisted(s, R, sub, cont, retk)
            out = []
            for d in s.get("inner", []):
                if d.get("kind") != "VarDecl":
                    raise L.LeafError("unsupported declaration")
                t = qt(d)
                init = d.get("inner", [])
                if L.ctype(d) is not None:
                    nm = self.fresh(d["name"])
                    out.append(decl(nm, t, self.rx(init[-1], sub) if init else lit(0)))
                    sub[d["name"]] = ("var", nm, t)
                elif HDRT in t:
                    if init:
                        nm = self.fresh("line")
                        out.append(decl(nm, "uint32_t", self.line_of(init[-1], sub)))
                        sub[d["name"]] = ("hdr", nm)
                    else:
                        sub[d["name"]] = ("hdr", None)
                else:
                    raise L.LeafError("unsupported local of type " + t)
            return out + self.seq(R, sub, cont, retk)
        # expression statements
        if k == "AtomicExpr" and len(s["inner"]) == 3:
            p = strip_all(s["inner"][0])
            if p.get("kind") != "UnaryOperator" or p.get("opcode") != "&":
                raise L.LeafError("atomic operand is not the address of a field")
            if self.find_hoist(s["inner"][2]) is not None:
                return self.hoisted(s, R, sub, cont, retk)
            lhs = self.rx(p["inner"][0], sub)
            return [assign(lhs, self.rx(s["inner"][2], sub), qt(lhs))] + self.seq(R, sub, cont, retk)
        if k in ("BinaryOperator", "CompoundAssignOperator") and s.get("opcode", "").endswith("=") and \
                s.get("opcode") not in ("==", "!=", "<=", ">="):
            if self.find_hoist(s) is not None:
                return self.hoisted(s, R, sub, cont, retk)
            lhs, rhs = s["inner"]
            l0 = strip_all(lhs)
            if l0.get("kind") == "MemberExpr" and l0.get("name") in CACHED and self.is_ring(self.member_base(l0), sub):
                if s["opcode"] != "=":
                    raise L.LeafError("arithmetic on a cached header pointer")
                return [assign(self.field(CACHED[l0["name"]]), self.line_of(rhs, sub))] + self.seq(R, sub, cont, retk)
            if l0.get("kind") == "DeclRefExpr" and sub.get(l0["referencedDecl"]["name"], (None,))[0] == "hdr":
                if s["opcode"] != "=":
                    raise L.LeafError("arithmetic on a header pointer")
                nm = self.fresh("line")
                out = [decl(nm, "uint32_t", self.line_of(rhs, sub))]
                sub[l0["referencedDecl"]["name"]] = ("hdr", nm)
                return out + self.seq(R, sub, cont, retk)
            if l0.get("kind") == "UnaryOperator" and l0.get("opcode") == "*":
                p = strip_all(l0["inner"][0])
                if p.get("kind") == "DeclRefExpr" and sub.get(p["referencedDecl"]["name"], (None,))[0] == "outp":
                    if s["opcode"] != "=":
                        raise L.LeafError("compound assignment through an out-parameter")
                    return [assign(self.field(sub[p["referencedDecl"]["name"]][1]), self.rx(rhs, sub))] + \
                        self.seq(R, sub, cont, retk)
            return [self.rx(s, sub)] + self.seq(R, sub, cont, retk)
        if k == "UnaryOperator" and s.get("opcode") in ("++", "--"):
            return [self.rx(s, sub)] + self.seq(R, sub, cont, retk)
        if k == "CallExpr":
            f = self.fn(self.callee(s))
            if f is None:
                raise L.LeafError("call of %s: no definition in this file" % self.callee(s))
            return self.inline(s, sub, lambda e, subh: self.seq(R, dict(sub), cont, retk))
        if k in ("ImplicitCastExpr", "CStyleCastExpr", "ParenExpr"):
            return self.seq([s["inner"][-1]] + R, sub, cont, retk)
        raise L.LeafError("unsupported statement kind " + str(k))

    # ---- entry -----------------------------------------------------------
    def slice(self, name):
        f = self.fn(name)
        if f is None:
            raise L.LeafError("function %s not found in %s" % (name, self.src))
        self.uid = 0
        sub, parms = {}, []
        for p in [c for c in f.get("inner", []) if c.get("kind") == "ParmVarDecl"]:
            t = qt(p)
            if RING in t:
                self.ring = p["name"]
                sub[p["name"]] = ("ring",)
                parms.append(p)
            elif L.ctype(p) is not None:
                parms.append(p)
            elif t.endswith("*") and L.ctype({"type": {"qualType": t[:-1].strip()}}) is not None:
                sub[p["name"]] = ("outp", "out_" + p["name"])
            else:
                raise L.LeafError("unsupported parameter type " + t)
        if self.ring is None:
            raise L.LeafError("no ring parameter")
        rt = f["type"]["qualType"].split("(")[0].strip()
        if rt == "void":
            newrt = "void"

            def retk(e, s):
                return [{"kind": "ReturnStmt", "inner": []}]
        elif rt.endswith("*"):
            newrt = "long"

            def retk(e, s):
                e0 = strip_all(e)
                while e0.get("kind") in ("ImplicitCastExpr", "CStyleCastExpr") and e0.get("castKind") in ("NullToPointer", "BitCast", "NoOp"):
                    e0 = strip_all(e0["inner"][-1])
                if e0.get("kind") == "IntegerLiteral" and e0["value"] == "0" or e0.get("kind") == "GNUNullExpr":
                    v = lit(0, "long")
                elif e0.get("kind") == "BinaryOperator" and e0.get("opcode") == "+" and \
                        strip_all(e0["inner"][1]).get("kind") == "IntegerLiteral" and strip_all(e0["inner"][1])["value"] == "1":
                    v = {"kind": "BinaryOperator", "opcode": "+", "type": {"qualType": "long"},
                         "inner": [self.line_of(e0["inner"][0], s), lit(1, "long")]}
                else:
                    raise L.LeafError("returned pointer is neither NULL nor a payload pointer (header + 1)")
                return [{"kind": "ReturnStmt", "inner": [v]}]
        else:
            newrt = rt

            def retk(e, s):
                return [{"kind": "ReturnStmt", "inner": [self.rx(e, s)] if e is not None else []}]
        body = self.seq([self.body_of(f)], sub, lambda: [], retk)
        return {"kind": "FunctionDecl", "name": name, "type": {"qualType": newrt + " (sliced)"},
                "inner": parms + [{"kind": "CompoundStmt", "inner": body}]}


def translate_sliced(src, name, cflags, gname, sizeofs=None):
    """-> (gallina text, fields, params, written, ret_kind): lib/leaftrans.translate on the sliced function"""
    fn = Slicer(src, cflags, sizeofs).slice(name)
    t = L.Tr(fn, None, cflags)
    body = [c for c in fn["inner"] if c.get("kind") == "CompoundStmt"][0]
    rt = fn["type"]["qualType"].split("(")[0].strip()
    ret_kind = None if rt == "void" else ("B" if rt in ("bool", "_Bool") else "Z")
    t.all_written = []
    L.collect_written(body, t.all_written)
    for _ in range(3):
        t.all_written = sorted(set(t.all_written) | set(t.written))
        t.cnt = 0
        env = {p: p for p in t.params}
        code = t.stmts([body], env, ret_kind)
        if set(t.written) <= set(t.all_written):
            break
    code = re.sub(r"@FIELD:(\w+)@", r"\1", code)
    t.fields = sorted(t.fields)
    args = ["(%s : %s)" % (k, "list Z" if a else "Z") for k, a in t.fields] + ["(%s : Z)" % p for p in t.params]
    text = "Definition %s %s :=\n  %s.\n" % (gname, " ".join(args), code)
    return text, t.fields, t.params, t.all_written, ret_kind
